(** C12 -- Assignment and format text round-trips and means what arithmetic says.
    Statements only; proofs are in coq/proofs/Parser*.v, models in coq/model/Parser.v and
    coq/model/FormatParser.v, the textbook grammar in coq/spec/Grammar.v. *)
From Coq Require Import String Ascii List NArith ZArith Bool Permutation.
From TV Require Import model.Parser model.FormatParser spec.Grammar.
From TV Require proofs.ParserFuel proofs.ParserGrammar proofs.ParserMeaning proofs.ParserValidate
  proofs.ParserFormat proofs.ParserLex proofs.ParserLexWf.
Import ListNotations.

(** Parsing is total: the model parser always answers with a tree or a typed failure (the
    out-of-fuel answer is impossible with the fuel [parse_tokens] uses). *)
Theorem C12_parse_total : forall ts : list token, parse_tokens ts <> PFuel.
Proof. exact ParserFuel.parse_tokens_fuel_sufficient. Qed.
Print Assumptions C12_parse_total.

(** Printing a tree and parsing the tokens again yields the same tree -- every assignment of any
    depth that passes validation (which every parsed assignment does, next theorem). *)
Theorem C12_parse_deparse : forall a : assignment, validate a = VOk -> parse_tokens (deparse a) = POk a.
Proof. exact ParserGrammar.parse_deparse. Qed.
Print Assumptions C12_parse_deparse.

Theorem C12_parse_deparse_of_parsed :
  forall ts a, parse_tokens ts = POk a -> parse_tokens (deparse a) = POk a.
Proof. exact ParserGrammar.parse_deparse_parse. Qed.
Print Assumptions C12_parse_deparse_of_parsed.

(** The parser accepts exactly the assignment sentences of the textbook precedence grammar
    (E -> E+T | E-T | T ; T -> T*F | F ; F -> tensor | number | (E)) whose tree passes validation,
    and returns exactly the tree of the derivation: soundness and completeness. *)
Theorem C12_parse_sound_complete :
  forall ts a, parse_tokens ts = POk a <-> (DA ts a /\ validate a = VOk).
Proof. exact ParserGrammar.parse_tokens_iff_derives. Qed.
Print Assumptions C12_parse_sound_complete.

(** ... and that grammar gives a sentence only one tree. *)
Theorem C12_grammar_unambiguous : forall ts e1 e2, DE ts e1 -> DE ts e2 -> e1 = e2.
Proof. exact ParserGrammar.DE_unambiguous. Qed.
Print Assumptions C12_grammar_unambiguous.

(** The printer's output is a sentence of the textbook grammar deriving the printed tree
    ("parentheses exactly where the left fold would regroup"). *)
Theorem C12_deparse_derives : forall a, DA (deparse a) a.
Proof. exact ParserGrammar.deparse_derives. Qed.
Print Assumptions C12_deparse_derives.

(** Conventional meaning: for every interpretation of + - * , literals and tensors, the value of
    the parsed tree is the one and only value the conventional (attribute) grammar assigns to the
    right-hand-side text. *)
Theorem C12_parse_meaning :
  forall (R : Type) (radd rsub rmul : R -> R -> R) (val_int : N -> R) (val_float : dec -> R)
         (val_tensor : string -> list string -> R) ts a,
    parse_tokens ts = POk a ->
    exists body, ts = tensor_toks (tname a) (tindexes a) ++ TEq :: body /\
      VE R radd rsub rmul val_int val_float val_tensor body
         (eval R radd rsub rmul val_int val_float val_tensor (rhs a)) /\
      (forall v, VE R radd rsub rmul val_int val_float val_tensor body v ->
                 v = eval R radd rsub rmul val_int val_float val_tensor (rhs a)).
Proof. exact ParserMeaning.parse_meaning. Qed.
Print Assumptions C12_parse_meaning.

(** Validation accepts exactly: target not on the right, one order per tensor, no name both
    tensor and index. *)
Theorem C12_validate_spec :
  forall a, validate a = VOk <->
    (ParserValidate.target_not_on_rhs a /\ ParserValidate.one_order_per_tensor a /\
     ParserValidate.no_tensor_index_clash a).
Proof. exact ParserValidate.validate_spec. Qed.
Print Assumptions C12_validate_spec.

Theorem C12_validate_mutating :
  forall a, validate a = VMutating -> ~ ParserValidate.target_not_on_rhs a.
Proof. exact ParserValidate.validate_mutating. Qed.
Print Assumptions C12_validate_mutating.

Theorem C12_validate_inconsistent :
  forall a, validate a = VInconsistent -> ~ ParserValidate.one_order_per_tensor a.
Proof. exact ParserValidate.validate_inconsistent. Qed.
Print Assumptions C12_validate_inconsistent.

Theorem C12_validate_conflict :
  forall a, validate a = VNameConflict <->
    (ParserValidate.target_not_on_rhs a /\ ParserValidate.one_order_per_tensor a /\
     ~ ParserValidate.no_tensor_index_clash a).
Proof. exact ParserValidate.validate_conflict_iff. Qed.
Print Assumptions C12_validate_conflict.

(** Formats (character level, integers spelled in decimal by [show_N]). *)
Theorem C12_int_codec : forall n : N, digits_val (show_N n) = n.
Proof. exact ParserFormat.digits_val_show_N. Qed.
Print Assumptions C12_int_codec.

Theorem C12_format_roundtrip :
  forall f : format, wf_format f = true ->
    exists s, deparse_format f = Some s /\ parse_format_chars s = FOk f.
Proof. exact ParserFormat.format_roundtrip. Qed.
Print Assumptions C12_format_roundtrip.

Theorem C12_format_parsed_is_wf : forall s f, parse_format_chars s = FOk f -> wf_format f = true.
Proof. exact ParserFormat.parse_format_wf. Qed.
Print Assumptions C12_format_parsed_is_wf.

Theorem C12_format_parse_total : forall s, parse_format_chars s <> FFuel.
Proof. exact ParserFormat.parse_format_fuel_sufficient. Qed.
Print Assumptions C12_format_parse_total.

Theorem C12_format_parse_sound :
  forall s f, parse_format_chars s = FOk f ->
    (s = map mode_char (modes f) /\ ordering f = range (length (modes f)))
    \/ (exists dss : list (list ascii), length dss = length (modes f) /\
          Forall (fun ds => ds <> [] /\ forallb is_digit ds = true) dss /\
          ordering f = map digits_val dss /\
          s = flat_map (fun p => mode_char (fst p) :: snd p) (combine (modes f) dss)).
Proof. exact ParserFormat.parse_format_sound. Qed.
Print Assumptions C12_format_parse_sound.

Theorem C12_named_format_roundtrip :
  forall (nm : list ascii) (f : format),
    (match nm with c :: _ => is_var_start c = true | [] => False end) ->
    forallb is_var_char nm = true ->
    wf_format f = true ->
    exists s, deparse_format f = Some s /\
              parse_named_format_chars (nm ++ ":"%char :: s) = FOk (string_of_list_ascii nm, f).
Proof. exact ParserFormat.named_format_roundtrip. Qed.
Print Assumptions C12_named_format_roundtrip.

(** Format.__post_init__'s set comparison is "ordering is a permutation of 0..n-1" when the two
    tuples have the same length (which the parser guarantees). *)
Theorem C12_ordering_check_iff_permutation :
  forall (n : nat) (ord : list N), length ord = n ->
    (check_ordering n ord = true <-> Permutation ord (range n)).
Proof. exact ParserFormat.ordering_check_iff_permutation. Qed.
Print Assumptions C12_ordering_check_iff_permutation.

(* ------------------------------------------------------------------------------------------ *)
(** * Character level: lexer + parser on strings, printer to strings.
    Integers are spelled in decimal ([show_N] = str(int), [C12_int_codec]); Python's str(float) is
    not modelled, it is the parameter [show_float] (literal codec, see design.d/C12.md). *)

Theorem C12_text_parse_total : forall s : string, parse_assignment s <> PFuel.
Proof. exact ParserLex.parse_assignment_total. Qed.
Print Assumptions C12_text_parse_total.

(** what the string parser returns is well-formed: valid names, normalised literals, validated *)
Theorem C12_text_parsed_is_wf : forall s a, parse_assignment s = POk a -> ParserLex.wf_ast a.
Proof. exact ParserLexWf.parse_assignment_wf. Qed.
Print Assumptions C12_text_parsed_is_wf.

(** the printed characters lex to the printed tokens *)
Theorem C12_lex_print_canonical :
  forall a, ParserLex.valid_name (tname a) = true -> forallb ParserLex.valid_name (tindexes a) = true ->
    ParserLex.names_ok (rhs a) = true -> ParserLex.floats_ok (rhs a) ->
    ParserLex.lex_chars (print_assignment show_dec_canonical a) = Some (deparse a).
Proof. exact (ParserLex.lex_print_assignment show_dec_canonical ParserLex.show_dec_canonical_lex). Qed.
Print Assumptions C12_lex_print_canonical.

(** Full character-level round trip for every accepted text whose tree has no float literal:
    the printed text is exactly Python's (names, decimal integers, " + ", parentheses ...) and it
    parses back to the same tree, whatever the float printer is. *)
Theorem C12_text_roundtrip_int :
  forall (show_float : dec -> list ascii) s a,
    parse_assignment s = POk a -> float_free (rhs a) = true ->
    parse_assignment (string_of_list_ascii (print_assignment show_float a)) = POk a.
Proof. exact ParserLexWf.text_roundtrip_int. Qed.
Print Assumptions C12_text_roundtrip_int.

(** With float literals the statement depends on the float printer.  Full statement, for a given
    printer (meant: Python's str(float)): *)
Definition C12_text_roundtrip_full (show_float : dec -> list ascii) : Prop :=
  forall s a, parse_assignment s = POk a ->
    parse_assignment (string_of_list_ascii (print_assignment show_float a)) = POk a.

(** the codec assumption: the printed float is a spelling the lexer reads back to the same value *)
Definition C12_float_codec_ok (show_float : dec -> list ascii) : Prop :=
  forall f rest, ParserLex.dec_norm f -> ParserLex.delim rest ->
    (exists c r, show_float f = c :: r /\ is_digit c = true) /\
    lex_number (show_float f ++ rest) = (TFloat f, rest).

(** GAP: [C12_float_codec_ok] is not proved of Python's str(float) (binary64 rounding and the
    repr algorithm are outside the model; on the unchanged tree it is FALSE for literals that
    overflow, finding K-C12-3).  It is checked by the correspondence run on every float of the
    sweep.  The hypothesis is satisfiable: the example below instantiates it. *)
Theorem C12_text_roundtrip_partial :
  forall show_float, C12_float_codec_ok show_float -> C12_text_roundtrip_full show_float.
Proof. exact ParserLexWf.text_roundtrip. Qed.
Print Assumptions C12_text_roundtrip_partial.

Example C12_float_codec_ok_example : C12_float_codec_ok show_dec_canonical.
Proof. exact ParserLex.show_dec_canonical_lex. Qed.

(** hence, closed: the round trip through the canonical spelling  <mantissa>e<exponent> *)
Theorem C12_text_roundtrip_canonical : C12_text_roundtrip_full show_dec_canonical.
Proof. exact ParserLexWf.text_roundtrip_canonical. Qed.
Print Assumptions C12_text_roundtrip_canonical.
