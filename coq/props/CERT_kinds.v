(** CERT_kinds -- relational per-kernel certificate for C04: the three kernels of one problem
    (evaluate / assemble / compute) are obtained from one another by DROPPING statements, and the
    dropped statements cannot influence what the kept ones compute.

    [kinds_cert fe fa fc = assemble_cert fe fa && compute_cert3 fe fc] is decided by vm_compute on
    the real IR of every swept problem (tools/props/_certs_kinds.py).

    Proved here, for ALL inputs, fuel and initial capacities: the evaluate ~ assemble half.
    The evaluate ~ compute half ([compute_cert3]) is CHECKED on every kernel, its soundness
    statement is [CERT_kinds_compute_full] below (a Definition, not yet a theorem); see
    design.d/CERT_kinds.md. *)

From Coq Require Import ZArith Bool List String FMapPositive.
From Flocq Require Import Core BinarySingleNaN.
From TV Require Import spec.Num gen.IRAst spec.IRSem spec.IRRun
  proofs.Certs2Base proofs.Certs3Defs proofs.Certs3Base proofs.Certs3Asm.
Import ListNotations.
Open Scope Z_scope.

(** The drop-simulation principle: an aligned pair of statement trees run in related states.
    [osimK]: if the evaluate run ends normally / returns [v], the other run (same fuel) ends
    normally / returns [v] in a related state, or fails with an error of the allowed set. *)
Theorem CERT_kinds_align_sound :
  forall (P : Type) (peq : P -> P -> bool) (cok : expr -> bool)
         (keep_atomic drop_atomic : P -> stmt -> option P),
    (forall a b, peq a b = true -> a = b) ->
  forall (R : P -> state -> state -> Prop) (OKF : err -> Prop),
    (forall p a b, R p a b -> R p (tick a) (tick b)) ->
    (forall p a b, R p a b -> R p (tick a) b) ->
    (forall p c a b v t, cok c = true -> R p a b -> eval a c = Ok (v, t) -> exists t', eval b c = Ok (v, t')) ->
    (forall p p' s a b, is_atomic s = true -> keep_atomic p s = Some p' -> R p a b ->
       osimK P R OKF p' (exec 1 s a) (exec 1 s b)) ->
    (forall p p' s a b, is_atomic s = true -> drop_atomic p s = Some p' -> R p a b ->
       odrop P R p' (exec 1 s a) b) ->
  forall n sE sK p p' a b,
    align P peq cok keep_atomic drop_atomic p sE sK = Some p' -> R p a b ->
    osimK P R OKF p' (exec n sE a) (exec n sK b).
Proof. exact align_sound. Qed.
Print Assumptions CERT_kinds_align_sound.

(** Statement level: aligned bodies in [RA]-related states; no failure is allowed on the assemble
    side ([fun _ => False]). *)
Theorem CERT_kinds_assemble_stmt :
  forall rl DB n sE sA a b, alignA rl DB sE sA = true -> RA rl DB a b ->
    osimK unit (fun _ => RA rl DB) (fun _ => False) tt (exec n sE a) (exec n sA b).
Proof. exact alignA_sound. Qed.
Print Assumptions CERT_kinds_assemble_stmt.

(** Kernel level.  [RA0 fe fa a b]: same block identifiers, allocation counter and tensor structs;
    every block has the same element type, length, liveness and ownership on both sides, int32
    blocks (pos / crd arrays) the same cells; the cells of double blocks are unconstrained; the
    evaluate-side state is well typed ([TY]).  If evaluate returns [v] from [a], assemble returns
    [v] from [b] WITH THE SAME FUEL -- it cannot fail, trap, run out of fuel or fall off the end --
    and the final states are related again. *)
Theorem CERT_kinds_assemble_sound :
  forall fe fa, assemble_cert fe fa = true ->
  forall fuel args a b, RA0 fe fa a b ->
  match call fuel fe args a with
  | Returned a' v _ => exists b' tr', call fuel fa args b = Returned b' v tr' /\ RA0 fe fa a' b'
  | _ => True
  end.
Proof. exact assemble_cert_sound. Qed.
Print Assumptions CERT_kinds_assemble_sound.

(** Related states have the same output STRUCTURE: the fields of the tensor struct, length /
    liveness / every cell of each pos and crd block, length and liveness of the value block. *)
Theorem CERT_kinds_same_structure :
  forall fe fa a b out, RA0 fe fa a b -> out_structure a out = out_structure b out.
Proof. exact RA0_same_structure. Qed.
Print Assumptions CERT_kinds_same_structure.

(** Harness level (spec/IRRun.v initial states).  Evaluate on inputs [ts'] and assemble on inputs
    [ts] that have the same dimensions, level arrays and ownership and value lists of the same
    LENGTHS (the values themselves arbitrary -- in particular [ts' = ts]): whenever evaluate
    returns, assemble returns the same value with the same fuel, and the structure it built is the
    structure evaluate built.  So assemble's structure is evaluate's structure for all inputs, and
    does not depend on the input values at all ("re-valued inputs of the same structure"). *)
Theorem CERT_kinds_assemble_runs :
  forall fe fa, assemble_cert fe fa = true ->
  forall fuel ts ts', Forall2 tin_sim ts' ts ->
  match call fuel fe (snd (init_state ts')) (fst (init_state ts')) with
  | Returned a' v _ =>
      exists b' tr', call fuel fa (snd (init_state ts)) (fst (init_state ts)) = Returned b' v tr' /\
                     RA0 fe fa a' b' /\ forall out, out_structure a' out = out_structure b' out
  | _ => True
  end.
Proof. exact assemble_cert_runs. Qed.
Print Assumptions CERT_kinds_assemble_runs.

(** A concrete, non-trivial instance of the hypotheses: a miniature evaluate / assemble pair
    (one compressed output level copied from a compressed input). *)
Definition ex_params := [Declaration (Var "a") (TPointer TTensor); Declaration (Var "b") (TPointer TTensor)].
Definition ex_head (tail : list stmt) : stmt :=
  Block ([DeclarationAssignment (Declaration (Var "a_crd") (TPointer TInteger))
            (ArrayIndex (ArrayIndex (AttributeAccess (Var "a") "indices") (IntegerLiteral 0)) (IntegerLiteral 1));
          DeclarationAssignment (Declaration (Var "a_vals") (TPointer TFloat)) (AttributeAccess (Var "a") "vals");
          DeclarationAssignment (Declaration (Var "b_crd") (TPointer TInteger))
            (ArrayIndex (ArrayIndex (AttributeAccess (Var "b") "indices") (IntegerLiteral 0)) (IntegerLiteral 1));
          DeclarationAssignment (Declaration (Var "b_vals") (TPointer TFloat)) (AttributeAccess (Var "b") "vals");
          Assignment (Var "a_crd") (ArrayAllocate TInteger (IntegerLiteral 4));
          Assignment (Var "a_vals") (ArrayAllocate TFloat (IntegerLiteral 4));
          DeclarationAssignment (Declaration (Var "p") TInteger) (IntegerLiteral 0)] ++ tail) None.
Definition ex_loop (value_work : list stmt) : stmt :=
  Loop (LessThan (Var "p") (IntegerLiteral 2))
    (Block ([Assignment (ArrayIndex (Var "a_crd") (Var "p")) (ArrayIndex (Var "b_crd") (Var "p"))] ++ value_work ++
            [Assignment (Var "p") (Add (Var "p") (IntegerLiteral 1))]) None).
Definition ex_tail : list stmt :=
  [Assignment (ArrayIndex (ArrayIndex (AttributeAccess (Var "a") "indices") (IntegerLiteral 0)) (IntegerLiteral 1)) (Var "a_crd");
   Assignment (AttributeAccess (Var "a") "vals") (Var "a_vals");
   Return (IntegerLiteral 0)].
Definition ex_evaluate : function_definition :=
  FunctionDefinition (Var "evaluate") ex_params TInteger
    (ex_head (ex_loop [Assignment (ArrayIndex (Var "a_vals") (Var "p")) (ArrayIndex (Var "b_vals") (Var "p"))] :: ex_tail)).
Definition ex_assemble : function_definition :=
  FunctionDefinition (Var "assemble") ex_params TInteger (ex_head (ex_loop [] :: ex_tail)).
(** assemble with the structure store dropped as well is NOT accepted *)
Definition ex_assemble_bad : function_definition :=
  FunctionDefinition (Var "assemble") ex_params TInteger
    (ex_head (Loop (LessThan (Var "p") (IntegerLiteral 2))
                (Block [Assignment (Var "p") (Add (Var "p") (IntegerLiteral 1))] None) :: ex_tail)).

Example CERT_kinds_example_accepts : assemble_cert ex_evaluate ex_assemble = true.
Proof. vm_compute. reflexivity. Qed.
Example CERT_kinds_example_rejects : assemble_cert ex_evaluate ex_assemble_bad = false.
Proof. vm_compute. reflexivity. Qed.

(** NOT YET PROVED (the certificate [compute_cert3] is evaluated on every real kernel, so a
    generator change that breaks the alignment is reported; what is missing is this theorem):
    evaluate ~ compute started on assemble's result.  [EOutOfBounds] is the one failure that
    cannot be excluded syntactically: compute stores into a value block of evaluate's FINAL size. *)
Definition CERT_kinds_compute_full : Prop :=
  forall fe fa fc, kinds_cert fe fa fc = true ->
  forall fuel ts exp vals exact,
    run_check fuel fe ts exp vals exact = VOk ->
    run_history fuel [(fa, []); (fc, [])] ts exp vals exact = VOk \/
    run_history fuel [(fa, []); (fc, [])] ts exp vals exact = VFail EOutOfBounds.
