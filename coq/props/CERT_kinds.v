(** CERT_kinds -- relational per-kernel certificate for C04: the three kernels of one problem
    (evaluate / assemble / compute) are obtained from one another by DROPPING statements, and the
    dropped statements cannot influence what the kept ones compute.

    [kinds_cert fe fa fc = assemble_cert fe fa && compute_cert3 fe fc] is decided by vm_compute on
    the real IR of every swept problem (tools/props/_certs_kinds.py).

    Proved here, for ALL inputs, fuel and initial capacities: evaluate ~ assemble and evaluate ~
    compute at kernel level, and the HISTORY statements of the harness (spec/IRRun.v):
    [CERT_kinds_history] (assemble; compute = evaluate) and [CERT_kinds_history_revalued]
    (assemble; compute; compute(re-valued); compute(re-valued) = evaluate on the re-valued inputs).
    The one failure that is not excluded is [EOutOfBounds] in compute; see design.d/CERT_kinds.md. *)

From Coq Require Import ZArith Bool List String FMapPositive.
From Flocq Require Import Core BinarySingleNaN.
From TV Require Import spec.Num gen.IRAst spec.IRSem spec.IRRun
  proofs.Certs2Base proofs.Certs2Input proofs.Certs2Store
  proofs.Certs3Defs proofs.Certs3Base proofs.Certs3Asm proofs.Certs3Cmp proofs.Certs3Hist proofs.Certs3Reval proofs.Certs3Examples.
Import ListNotations.
Open Scope Z_scope.

(** The drop-simulation principle: an aligned pair of statement trees run in related states.
    [osimK]: if the evaluate run ends normally / returns [v], the other run (same fuel) ends
    normally / returns [v] in a related state, or fails with an error of the allowed set. *)
Theorem CERT_kinds_align_sound :
  forall (P : Type) (peq : P -> P -> bool) (cok : expr -> bool)
         (keep_atomic drop_atomic : P -> stmt -> option P),
    (forall a b, peq a b = true -> a = b) ->
  forall (R : P -> state -> state -> Prop) (OKF : err -> Prop),
    (forall p a b, R p a b -> R p (tick a) (tick b)) ->
    (forall p a b, R p a b -> R p (tick a) b) ->
    (forall p c a b v t, cok c = true -> R p a b -> eval a c = Ok (v, t) -> exists t', eval b c = Ok (v, t')) ->
    (forall p p' s a b, is_atomic s = true -> keep_atomic p s = Some p' -> R p a b ->
       osimK P R OKF p' (exec 1 s a) (exec 1 s b)) ->
    (forall p p' s a b, is_atomic s = true -> drop_atomic p s = Some p' -> R p a b ->
       odrop P R p' (exec 1 s a) b) ->
  forall n sE sK p p' a b,
    align P peq cok keep_atomic drop_atomic p sE sK = Some p' -> R p a b ->
    osimK P R OKF p' (exec n sE a) (exec n sK b).
Proof. exact align_sound. Qed.
Print Assumptions CERT_kinds_align_sound.

(** Statement level: aligned bodies in [RA]-related states; no failure is allowed on the assemble
    side ([fun _ => False]). *)
Theorem CERT_kinds_assemble_stmt :
  forall rl DB n sE sA a b, alignA rl DB sE sA = true -> RA rl DB a b ->
    osimK unit (fun _ => RA rl DB) (fun _ => False) tt (exec n sE a) (exec n sA b).
Proof. exact alignA_sound. Qed.
Print Assumptions CERT_kinds_assemble_stmt.

(** Kernel level.  [RA0 fe fa a b]: same block identifiers, allocation counter and tensor structs;
    every block has the same element type, length, liveness and ownership on both sides, int32
    blocks (pos / crd arrays) the same cells; the cells of double blocks are unconstrained; the
    evaluate-side state is well typed ([TY]).  If evaluate returns [v] from [a], assemble returns
    [v] from [b] WITH THE SAME FUEL -- it cannot fail, trap, run out of fuel or fall off the end --
    and the final states are related again. *)
Theorem CERT_kinds_assemble_sound :
  forall fe fa, assemble_cert fe fa = true ->
  forall fuel args a b, RA0 fe fa a b ->
  match call fuel fe args a with
  | Returned a' v _ => exists b' tr', call fuel fa args b = Returned b' v tr' /\ RA0 fe fa a' b'
  | _ => True
  end.
Proof. exact assemble_cert_sound. Qed.
Print Assumptions CERT_kinds_assemble_sound.

(** Related states have the same output STRUCTURE: the fields of the tensor struct, length /
    liveness / every cell of each pos and crd block, length and liveness of the value block. *)
Theorem CERT_kinds_same_structure :
  forall fe fa a b out, RA0 fe fa a b -> out_structure a out = out_structure b out.
Proof. exact RA0_same_structure. Qed.
Print Assumptions CERT_kinds_same_structure.

(** Harness level (spec/IRRun.v initial states).  Evaluate on inputs [ts'] and assemble on inputs
    [ts] that have the same dimensions, level arrays and ownership and value lists of the same
    LENGTHS (the values themselves arbitrary -- in particular [ts' = ts]): whenever evaluate
    returns, assemble returns the same value with the same fuel, and the structure it built is the
    structure evaluate built.  So assemble's structure is evaluate's structure for all inputs, and
    does not depend on the input values at all ("re-valued inputs of the same structure"). *)
Theorem CERT_kinds_assemble_runs :
  forall fe fa, assemble_cert fe fa = true ->
  forall fuel ts ts', Forall2 tin_sim ts' ts ->
  match call fuel fe (snd (init_state ts')) (fst (init_state ts')) with
  | Returned a' v _ =>
      exists b' tr', call fuel fa (snd (init_state ts)) (fst (init_state ts)) = Returned b' v tr' /\
                     RA0 fe fa a' b' /\ forall out, out_structure a' out = out_structure b' out
  | _ => True
  end.
Proof. exact assemble_cert_runs. Qed.
Print Assumptions CERT_kinds_assemble_runs.

(** A concrete, non-trivial instance of the hypotheses: a miniature evaluate / assemble pair
    (one compressed output level copied from a compressed input). *)
Definition ex_params := [Declaration (Var "a") (TPointer TTensor); Declaration (Var "b") (TPointer TTensor)].
Definition ex_head (tail : list stmt) : stmt :=
  Block ([DeclarationAssignment (Declaration (Var "a_crd") (TPointer TInteger))
            (ArrayIndex (ArrayIndex (AttributeAccess (Var "a") "indices") (IntegerLiteral 0)) (IntegerLiteral 1));
          DeclarationAssignment (Declaration (Var "a_vals") (TPointer TFloat)) (AttributeAccess (Var "a") "vals");
          DeclarationAssignment (Declaration (Var "b_crd") (TPointer TInteger))
            (ArrayIndex (ArrayIndex (AttributeAccess (Var "b") "indices") (IntegerLiteral 0)) (IntegerLiteral 1));
          DeclarationAssignment (Declaration (Var "b_vals") (TPointer TFloat)) (AttributeAccess (Var "b") "vals");
          Assignment (Var "a_crd") (ArrayAllocate TInteger (IntegerLiteral 4));
          Assignment (Var "a_vals") (ArrayAllocate TFloat (IntegerLiteral 4));
          DeclarationAssignment (Declaration (Var "p") TInteger) (IntegerLiteral 0)] ++ tail) None.
Definition ex_loop (value_work : list stmt) : stmt :=
  Loop (LessThan (Var "p") (IntegerLiteral 2))
    (Block ([Assignment (ArrayIndex (Var "a_crd") (Var "p")) (ArrayIndex (Var "b_crd") (Var "p"))] ++ value_work ++
            [Assignment (Var "p") (Add (Var "p") (IntegerLiteral 1))]) None).
Definition ex_tail : list stmt :=
  [Assignment (ArrayIndex (ArrayIndex (AttributeAccess (Var "a") "indices") (IntegerLiteral 0)) (IntegerLiteral 1)) (Var "a_crd");
   Assignment (AttributeAccess (Var "a") "vals") (Var "a_vals");
   Return (IntegerLiteral 0)].
Definition ex_evaluate : function_definition :=
  FunctionDefinition (Var "evaluate") ex_params TInteger
    (ex_head (ex_loop [Assignment (ArrayIndex (Var "a_vals") (Var "p")) (ArrayIndex (Var "b_vals") (Var "p"))] :: ex_tail)).
Definition ex_assemble : function_definition :=
  FunctionDefinition (Var "assemble") ex_params TInteger (ex_head (ex_loop [] :: ex_tail)).
(** assemble with the structure store dropped as well is NOT accepted *)
Definition ex_assemble_bad : function_definition :=
  FunctionDefinition (Var "assemble") ex_params TInteger
    (ex_head (Loop (LessThan (Var "p") (IntegerLiteral 2))
                (Block [Assignment (Var "p") (Add (Var "p") (IntegerLiteral 1))] None) :: ex_tail)).

Example CERT_kinds_example_accepts : assemble_cert ex_evaluate ex_assemble = true.
Proof. vm_compute. reflexivity. Qed.
Example CERT_kinds_example_rejects : assemble_cert ex_evaluate ex_assemble_bad = false.
Proof. vm_compute. reflexivity. Qed.

(** ... and a compute kernel: evaluate minus allocation, structure store and field assignments *)
Definition ex_compute : function_definition :=
  FunctionDefinition (Var "compute") ex_params TInteger
    (Block [DeclarationAssignment (Declaration (Var "a_crd") (TPointer TInteger))
              (ArrayIndex (ArrayIndex (AttributeAccess (Var "a") "indices") (IntegerLiteral 0)) (IntegerLiteral 1));
            DeclarationAssignment (Declaration (Var "a_vals") (TPointer TFloat)) (AttributeAccess (Var "a") "vals");
            DeclarationAssignment (Declaration (Var "b_crd") (TPointer TInteger))
              (ArrayIndex (ArrayIndex (AttributeAccess (Var "b") "indices") (IntegerLiteral 0)) (IntegerLiteral 1));
            DeclarationAssignment (Declaration (Var "b_vals") (TPointer TFloat)) (AttributeAccess (Var "b") "vals");
            DeclarationAssignment (Declaration (Var "p") TInteger) (IntegerLiteral 0);
            Loop (LessThan (Var "p") (IntegerLiteral 2))
              (Block [Assignment (ArrayIndex (Var "a_vals") (Var "p")) (ArrayIndex (Var "b_vals") (Var "p"));
                      Assignment (Var "p") (Add (Var "p") (IntegerLiteral 1))] None);
            Return (IntegerLiteral 0)] None).
Example CERT_kinds_example_compute : kinds_cert ex_evaluate ex_assemble ex_compute = true.
Proof. vm_compute. reflexivity. Qed.

(** evaluate ~ compute, statement level: aligned bodies in [RCx]-related states (phase [ph]); the
    only failure allowed on the compute side is [EOutOfBounds] ([OKF]).  The five side conditions
    are what [compute_cert3] checks about the roles. *)
Theorem CERT_kinds_compute_stmt :
  forall rl U tout bV,
    (forall x, mem x (r_os rl) = true -> mem x (r_ip rl) = true) ->
    (forall x, mem x (r_v rl) = true -> mem x (r_fp rl) = true) ->
    (forall x, mem x (r_ip rl) = true -> mem x (r_fp rl) = false) ->
    mem (r_root rl) (r_v rl) = true ->
    (forall T, mem T (pars rl) = true -> rdC rl U T = true) ->
  forall n sE sC ph ph' a c,
    align bool Bool.eqb (sexpC rl U false) (keepC rl U) (dropC rl U) ph sE sC = Some ph' ->
    RCx rl U tout bV ph a c ->
    osimK bool (RCx rl U tout bV) OKF ph' (exec n sE a) (exec n sC c).
Proof. exact alignC_stmt_sound. Qed.
Print Assumptions CERT_kinds_compute_stmt.

(** Kernel level.  [PreC rl tout bV a c]: [a] (where evaluate starts) is well typed; every input
    block of [a] is the same block in [c] (where compute starts); the input tensor structs agree
    and their arrays are input blocks; the output struct has the same dimensions and as many
    levels on both sides, in [a] its [vals] is NULL, in [c] its fields are pointers and [vals] is
    [(bV, 0)] with [bV] a live, writable double block (of ANY content -- so this also covers
    re-running compute on re-valued inputs over stale values).  If evaluate returns [v], compute
    (same fuel) returns [v] in an [RC]-related state, or fails with [EOutOfBounds] -- nothing else:
    no other trap, no exhaustion of that fuel, no fall-through. *)
Theorem CERT_kinds_compute_sound :
  forall fe fc, compute_cert3 fe fc = true ->
  forall fuel tout bV ids a c, PreC (roles_of fe) tout bV a c -> ~ In tout ids ->
  match call fuel fe (VTensor tout :: map VTensor ids) a with
  | Returned a' v _ =>
      (exists c' tr', call fuel fc (VTensor tout :: map VTensor ids) c = Returned c' v tr' /\
         exists ph cur, RC (roles_of fe) (assigned_only_in fe fc) tout bV ph cur a' c') \/
      call fuel fc (VTensor tout :: map VTensor ids) c = Fail EOutOfBounds
  | _ => True
  end.
Proof. exact compute_cert3_sound. Qed.
Print Assumptions CERT_kinds_compute_sound.

(** What [RC] says about the values: if evaluate's final [out->vals] designates a live block
    [b], it is [(b, 0)], compute's [out->vals] is still [(bV, 0)], and every initialised cell of [b]
    with index below the length of [bV] has the SAME content in [bV] (cells evaluate left
    uninitialised -- the scratch cell -- are unconstrained). *)
Theorem CERT_kinds_compute_values :
  forall rl U tout bV ph cur a c, RC rl U tout bV ph cur a c ->
  exists tsa tsc, PM.find tout (tensors a) = Some tsa /\ PM.find tout (tensors c) = Some tsc /\
    t_dims tsa = t_dims tsc /\ t_vals tsc = VPtr bV 0 /\
    forall b o be, t_vals tsa = VPtr b o -> PM.find b (heap a) = Some be -> b_live be = true ->
      o = 0 /\ exists bc, PM.find bV (heap c) = Some bc /\ b_live bc = true /\ b_float bc = true /\
                          sub_cells (b_len bc) (b_cells be) (b_cells bc).
Proof. exact RC_values. Qed.
Print Assumptions CERT_kinds_compute_values.

(** THE HISTORY STATEMENT OF C04 on the harness (spec/IRRun.v), for ALL inputs, any fuel:
    whenever the evaluate kernel, run on the inputs [ts], produces the expected output
    ([run_check ... = VOk]: returns 0, structure arrays and values as expected), running assemble
    and then compute on the same inputs produces the SAME expected output -- or compute stops with
    [EOutOfBounds]; nothing else can happen (no other trap, no fuel exhaustion with that fuel, no
    mismatch of structure or values).
    Certificates assumed (all evaluated on the real IR of every swept kernel):
      [kinds_cert fe fa fc]        (this file)
      [input_safe_cert fa]         (CERT_input_safe_sound: assemble's [out->vals] is not an input block)
      [compute_store_cert fc]      (CERT_compute_store_sound: compute changes no block but [out->vals], no struct)
    [out_first ts]: the first tensor of [ts] is the output, the others are inputs (what the harness
    always builds).  [EOutOfBounds] cannot be excluded syntactically: compute stores into a value
    block of evaluate's FINAL size, and that every store index stays below it needs the
    monotonicity of the output cursors. *)
Theorem CERT_kinds_history :
  forall fe fa fc,
    kinds_cert fe fa fc = true -> input_safe_cert fa = true -> compute_store_cert fc = true ->
  forall fuel ts exp vals exact, out_first ts ->
    run_check fuel fe ts exp vals exact = VOk ->
    run_history fuel [(fa, []); (fc, [])] ts exp vals exact = VOk \/
    run_history fuel [(fa, []); (fc, [])] ts exp vals exact = VFail EOutOfBounds.
Proof. exact kinds_history. Qed.
Print Assumptions CERT_kinds_history.

(** ... and the [EOutOfBounds] alternative is needed as long as the inputs are arbitrary: real
    kernels, an ill-formed input (a coordinate outside its dimension): every certificate holds,
    evaluate yields its expected output, assemble; compute stops with [EOutOfBounds]. *)
Theorem CERT_kinds_history_oob_witness :
  kinds_cert oob_evaluate oob_assemble oob_compute = true /\
  input_safe_cert oob_assemble = true /\ compute_store_cert oob_compute = true /\
  out_first oob_ts /\
  run_check 100000 oob_evaluate oob_ts oob_exp [F0; F0] false = VOk /\
  run_history 100000 [(oob_assemble, []); (oob_compute, [])] oob_ts oob_exp [F0; F0] false = VFail EOutOfBounds.
Proof. exact oob_witness. Qed.
Print Assumptions CERT_kinds_history_oob_witness.

Example CERT_kinds_history_instance :
  out_first [mkTin [2] [Some ([0; 1], [0])] [] true; mkTin [2] [Some ([0; 1], [0])] [F0] false] /\
  kinds_cert ex_evaluate ex_assemble ex_compute = true /\
  input_safe_cert ex_assemble = true /\ compute_store_cert ex_compute = true.
Proof. split; [split; [reflexivity|repeat constructor]|]. vm_compute. auto. Qed.

(** Re-running compute.  [recompute_pre st0' b' c]: [c] holds every block of the initial state
    [st0'] (laid out for inputs [ts']) and its input structs, has the tensor structs of [b'] (a final
    state of assemble for inputs of the same structure), every block shaped as in [b'] and the int32
    blocks of [b'] cell for cell; the value block may hold anything.  From such a state compute
    reproduces evaluate's output for [ts'] and leaves such a state again. *)
Theorem CERT_kinds_recompute :
  forall fe fa fc, compute_cert3 fe fc = true -> compute_store_cert fc = true ->
  forall fuel t0 rest exp vals exact, out_first (t0 :: rest) ->
  forall a' tE b' c,
    call fuel fe (snd (init_state (t0 :: rest))) (fst (init_state (t0 :: rest))) = Returned a' (VInt 0) tE ->
    check_output a' 1%positive exp vals exact = VOk ->
    RA0 fe fa a' b' ->
    (forall ts bV o x, PM.find 1%positive (tensors b') = Some ts -> t_vals ts = VPtr bV o ->
       PM.find bV (heap b') = Some x -> b_input x = false) ->
    recompute_pre (fst (init_state (t0 :: rest))) b' c ->
    (exists c' tr, call fuel fc (snd (init_state (t0 :: rest))) c = Returned c' (VInt 0) tr /\
                   check_output c' 1%positive exp vals exact = VOk /\
                   recompute_pre (fst (init_state (t0 :: rest))) b' c') \/
    call fuel fc (snd (init_state (t0 :: rest))) c = Fail EOutOfBounds.
Proof. exact compute_after. Qed.
Print Assumptions CERT_kinds_recompute.

(** The harness' re-valuation ([set_input_vals] of every input, in order: [rv (revals ts')]) turns
    a state compute may be re-run in for [ts] into one for [ts'] ([ts'] = [ts] with other values of
    the same lengths): afterwards it holds exactly the blocks [init_state ts'] lays out. *)
Theorem CERT_kinds_reval_pre :
  forall ts ts' b' c, out_first ts -> Forall2 tin_sim ts' ts ->
    recompute_pre (fst (init_state ts)) b' c ->
    recompute_pre (fst (init_state ts')) b' (rv (revals ts') c).
Proof. exact reval_pre. Qed.
Print Assumptions CERT_kinds_reval_pre.

(** THE RE-VALUED HISTORY of C04 (the shape tools/props/C04.py sweeps as hist3): inputs [ts2], [ts3]
    with the structure of [ts] and other values.  If evaluate produces an expected output on [ts]
    and on [ts2] (whatever it is) and the expected output [exp, vals] on [ts3], then
    assemble(ts); compute; compute(re-valued to ts2); compute(re-valued to ts3) produces
    [exp, vals] -- without re-assembling -- or a compute stops with [EOutOfBounds]. *)
Theorem CERT_kinds_history_revalued :
  forall fe fa fc,
    kinds_cert fe fa fc = true -> input_safe_cert fa = true -> compute_store_cert fc = true ->
  forall fuel ts ts2 ts3 e1 v1 x1 e2 v2 x2 exp vals exact,
    out_first ts -> Forall2 tin_sim ts2 ts -> Forall2 tin_sim ts3 ts ->
    run_check fuel fe ts e1 v1 x1 = VOk ->
    run_check fuel fe ts2 e2 v2 x2 = VOk ->
    run_check fuel fe ts3 exp vals exact = VOk ->
    hist_ok (run_history fuel [(fa, []); (fc, []); (fc, revals ts2); (fc, revals ts3)] ts exp vals exact).
Proof. exact kinds_history_revalued. Qed.
Print Assumptions CERT_kinds_history_revalued.

Theorem CERT_kinds_history_revalued1 :
  forall fe fa fc,
    kinds_cert fe fa fc = true -> input_safe_cert fa = true -> compute_store_cert fc = true ->
  forall fuel ts ts3 e1 v1 x1 exp vals exact,
    out_first ts -> Forall2 tin_sim ts3 ts ->
    run_check fuel fe ts e1 v1 x1 = VOk ->
    run_check fuel fe ts3 exp vals exact = VOk ->
    hist_ok (run_history fuel [(fa, []); (fc, []); (fc, revals ts3)] ts exp vals exact).
Proof. exact kinds_history_revalued1. Qed.
Print Assumptions CERT_kinds_history_revalued1.

Example CERT_kinds_revalued_instance :
  let ts := [mkTin [2] [Some ([0; 1], [0])] [] true; mkTin [2] [Some ([0; 1], [0])] [F0] false] in
  let ts3 := [mkTin [2] [Some ([0; 1], [0])] [] true; mkTin [2] [Some ([0; 1], [0])] [F1] false] in
  out_first ts /\ Forall2 tin_sim ts3 ts /\ revals ts3 = [(2%positive, [F1])].
Proof. split; [split; [reflexivity|repeat constructor]|]. split; [|reflexivity]. repeat constructor. Qed.
