(** CERT_kinds -- relational per-kernel certificate for C04: the three kernels of one problem
    (evaluate / assemble / compute) are obtained from one another by DROPPING statements, and the
    dropped statements cannot influence what the kept ones compute.

    [kinds_cert fe fa fc = assemble_cert fe fa && compute_cert3 fe fc] is decided by vm_compute on
    the real IR of every swept problem (tools/props/_certs_kinds.py).

    Proved here, for ALL inputs, fuel and initial capacities: evaluate ~ assemble (kernel level and
    for the harness' initial states), evaluate ~ compute (kernel level, from any pair of states
    satisfying [PreC]: compute started where [out->vals] is a live double block, the inputs being
    the same).  What is not yet a theorem is the glue "assemble's final state satisfies [PreC]
    against the initial state" ([CERT_kinds_history_full] below); see design.d/CERT_kinds.md. *)

From Coq Require Import ZArith Bool List String FMapPositive.
From Flocq Require Import Core BinarySingleNaN.
From TV Require Import spec.Num gen.IRAst spec.IRSem spec.IRRun
  proofs.Certs2Base proofs.Certs3Defs proofs.Certs3Base proofs.Certs3Asm proofs.Certs3Cmp.
Import ListNotations.
Open Scope Z_scope.

(** The drop-simulation principle: an aligned pair of statement trees run in related states.
    [osimK]: if the evaluate run ends normally / returns [v], the other run (same fuel) ends
    normally / returns [v] in a related state, or fails with an error of the allowed set. *)
Theorem CERT_kinds_align_sound :
  forall (P : Type) (peq : P -> P -> bool) (cok : expr -> bool)
         (keep_atomic drop_atomic : P -> stmt -> option P),
    (forall a b, peq a b = true -> a = b) ->
  forall (R : P -> state -> state -> Prop) (OKF : err -> Prop),
    (forall p a b, R p a b -> R p (tick a) (tick b)) ->
    (forall p a b, R p a b -> R p (tick a) b) ->
    (forall p c a b v t, cok c = true -> R p a b -> eval a c = Ok (v, t) -> exists t', eval b c = Ok (v, t')) ->
    (forall p p' s a b, is_atomic s = true -> keep_atomic p s = Some p' -> R p a b ->
       osimK P R OKF p' (exec 1 s a) (exec 1 s b)) ->
    (forall p p' s a b, is_atomic s = true -> drop_atomic p s = Some p' -> R p a b ->
       odrop P R p' (exec 1 s a) b) ->
  forall n sE sK p p' a b,
    align P peq cok keep_atomic drop_atomic p sE sK = Some p' -> R p a b ->
    osimK P R OKF p' (exec n sE a) (exec n sK b).
Proof. exact align_sound. Qed.
Print Assumptions CERT_kinds_align_sound.

(** Statement level: aligned bodies in [RA]-related states; no failure is allowed on the assemble
    side ([fun _ => False]). *)
Theorem CERT_kinds_assemble_stmt :
  forall rl DB n sE sA a b, alignA rl DB sE sA = true -> RA rl DB a b ->
    osimK unit (fun _ => RA rl DB) (fun _ => False) tt (exec n sE a) (exec n sA b).
Proof. exact alignA_sound. Qed.
Print Assumptions CERT_kinds_assemble_stmt.

(** Kernel level.  [RA0 fe fa a b]: same block identifiers, allocation counter and tensor structs;
    every block has the same element type, length, liveness and ownership on both sides, int32
    blocks (pos / crd arrays) the same cells; the cells of double blocks are unconstrained; the
    evaluate-side state is well typed ([TY]).  If evaluate returns [v] from [a], assemble returns
    [v] from [b] WITH THE SAME FUEL -- it cannot fail, trap, run out of fuel or fall off the end --
    and the final states are related again. *)
Theorem CERT_kinds_assemble_sound :
  forall fe fa, assemble_cert fe fa = true ->
  forall fuel args a b, RA0 fe fa a b ->
  match call fuel fe args a with
  | Returned a' v _ => exists b' tr', call fuel fa args b = Returned b' v tr' /\ RA0 fe fa a' b'
  | _ => True
  end.
Proof. exact assemble_cert_sound. Qed.
Print Assumptions CERT_kinds_assemble_sound.

(** Related states have the same output STRUCTURE: the fields of the tensor struct, length /
    liveness / every cell of each pos and crd block, length and liveness of the value block. *)
Theorem CERT_kinds_same_structure :
  forall fe fa a b out, RA0 fe fa a b -> out_structure a out = out_structure b out.
Proof. exact RA0_same_structure. Qed.
Print Assumptions CERT_kinds_same_structure.

(** Harness level (spec/IRRun.v initial states).  Evaluate on inputs [ts'] and assemble on inputs
    [ts] that have the same dimensions, level arrays and ownership and value lists of the same
    LENGTHS (the values themselves arbitrary -- in particular [ts' = ts]): whenever evaluate
    returns, assemble returns the same value with the same fuel, and the structure it built is the
    structure evaluate built.  So assemble's structure is evaluate's structure for all inputs, and
    does not depend on the input values at all ("re-valued inputs of the same structure"). *)
Theorem CERT_kinds_assemble_runs :
  forall fe fa, assemble_cert fe fa = true ->
  forall fuel ts ts', Forall2 tin_sim ts' ts ->
  match call fuel fe (snd (init_state ts')) (fst (init_state ts')) with
  | Returned a' v _ =>
      exists b' tr', call fuel fa (snd (init_state ts)) (fst (init_state ts)) = Returned b' v tr' /\
                     RA0 fe fa a' b' /\ forall out, out_structure a' out = out_structure b' out
  | _ => True
  end.
Proof. exact assemble_cert_runs. Qed.
Print Assumptions CERT_kinds_assemble_runs.

(** A concrete, non-trivial instance of the hypotheses: a miniature evaluate / assemble pair
    (one compressed output level copied from a compressed input). *)
Definition ex_params := [Declaration (Var "a") (TPointer TTensor); Declaration (Var "b") (TPointer TTensor)].
Definition ex_head (tail : list stmt) : stmt :=
  Block ([DeclarationAssignment (Declaration (Var "a_crd") (TPointer TInteger))
            (ArrayIndex (ArrayIndex (AttributeAccess (Var "a") "indices") (IntegerLiteral 0)) (IntegerLiteral 1));
          DeclarationAssignment (Declaration (Var "a_vals") (TPointer TFloat)) (AttributeAccess (Var "a") "vals");
          DeclarationAssignment (Declaration (Var "b_crd") (TPointer TInteger))
            (ArrayIndex (ArrayIndex (AttributeAccess (Var "b") "indices") (IntegerLiteral 0)) (IntegerLiteral 1));
          DeclarationAssignment (Declaration (Var "b_vals") (TPointer TFloat)) (AttributeAccess (Var "b") "vals");
          Assignment (Var "a_crd") (ArrayAllocate TInteger (IntegerLiteral 4));
          Assignment (Var "a_vals") (ArrayAllocate TFloat (IntegerLiteral 4));
          DeclarationAssignment (Declaration (Var "p") TInteger) (IntegerLiteral 0)] ++ tail) None.
Definition ex_loop (value_work : list stmt) : stmt :=
  Loop (LessThan (Var "p") (IntegerLiteral 2))
    (Block ([Assignment (ArrayIndex (Var "a_crd") (Var "p")) (ArrayIndex (Var "b_crd") (Var "p"))] ++ value_work ++
            [Assignment (Var "p") (Add (Var "p") (IntegerLiteral 1))]) None).
Definition ex_tail : list stmt :=
  [Assignment (ArrayIndex (ArrayIndex (AttributeAccess (Var "a") "indices") (IntegerLiteral 0)) (IntegerLiteral 1)) (Var "a_crd");
   Assignment (AttributeAccess (Var "a") "vals") (Var "a_vals");
   Return (IntegerLiteral 0)].
Definition ex_evaluate : function_definition :=
  FunctionDefinition (Var "evaluate") ex_params TInteger
    (ex_head (ex_loop [Assignment (ArrayIndex (Var "a_vals") (Var "p")) (ArrayIndex (Var "b_vals") (Var "p"))] :: ex_tail)).
Definition ex_assemble : function_definition :=
  FunctionDefinition (Var "assemble") ex_params TInteger (ex_head (ex_loop [] :: ex_tail)).
(** assemble with the structure store dropped as well is NOT accepted *)
Definition ex_assemble_bad : function_definition :=
  FunctionDefinition (Var "assemble") ex_params TInteger
    (ex_head (Loop (LessThan (Var "p") (IntegerLiteral 2))
                (Block [Assignment (Var "p") (Add (Var "p") (IntegerLiteral 1))] None) :: ex_tail)).

Example CERT_kinds_example_accepts : assemble_cert ex_evaluate ex_assemble = true.
Proof. vm_compute. reflexivity. Qed.
Example CERT_kinds_example_rejects : assemble_cert ex_evaluate ex_assemble_bad = false.
Proof. vm_compute. reflexivity. Qed.

(** ... and a compute kernel: evaluate minus allocation, structure store and field assignments *)
Definition ex_compute : function_definition :=
  FunctionDefinition (Var "compute") ex_params TInteger
    (Block [DeclarationAssignment (Declaration (Var "a_crd") (TPointer TInteger))
              (ArrayIndex (ArrayIndex (AttributeAccess (Var "a") "indices") (IntegerLiteral 0)) (IntegerLiteral 1));
            DeclarationAssignment (Declaration (Var "a_vals") (TPointer TFloat)) (AttributeAccess (Var "a") "vals");
            DeclarationAssignment (Declaration (Var "b_crd") (TPointer TInteger))
              (ArrayIndex (ArrayIndex (AttributeAccess (Var "b") "indices") (IntegerLiteral 0)) (IntegerLiteral 1));
            DeclarationAssignment (Declaration (Var "b_vals") (TPointer TFloat)) (AttributeAccess (Var "b") "vals");
            DeclarationAssignment (Declaration (Var "p") TInteger) (IntegerLiteral 0);
            Loop (LessThan (Var "p") (IntegerLiteral 2))
              (Block [Assignment (ArrayIndex (Var "a_vals") (Var "p")) (ArrayIndex (Var "b_vals") (Var "p"));
                      Assignment (Var "p") (Add (Var "p") (IntegerLiteral 1))] None);
            Return (IntegerLiteral 0)] None).
Example CERT_kinds_example_compute : kinds_cert ex_evaluate ex_assemble ex_compute = true.
Proof. vm_compute. reflexivity. Qed.

(** evaluate ~ compute, statement level: aligned bodies in [RCx]-related states (phase [ph]); the
    only failure allowed on the compute side is [EOutOfBounds] ([OKF]).  The five side conditions
    are what [compute_cert3] checks about the roles. *)
Theorem CERT_kinds_compute_stmt :
  forall rl U tout bV,
    (forall x, mem x (r_os rl) = true -> mem x (r_ip rl) = true) ->
    (forall x, mem x (r_v rl) = true -> mem x (r_fp rl) = true) ->
    (forall x, mem x (r_ip rl) = true -> mem x (r_fp rl) = false) ->
    mem (r_root rl) (r_v rl) = true ->
    (forall T, mem T (pars rl) = true -> rdC rl U T = true) ->
  forall n sE sC ph ph' a c,
    align bool Bool.eqb (sexpC rl U false) (keepC rl U) (dropC rl U) ph sE sC = Some ph' ->
    RCx rl U tout bV ph a c ->
    osimK bool (RCx rl U tout bV) OKF ph' (exec n sE a) (exec n sC c).
Proof. exact alignC_stmt_sound. Qed.
Print Assumptions CERT_kinds_compute_stmt.

(** Kernel level.  [PreC rl tout bV a c]: [a] (where evaluate starts) is well typed; every input
    block of [a] is the same block in [c] (where compute starts); the input tensor structs agree
    and their arrays are input blocks; the output struct has the same dimensions and as many
    levels on both sides, in [a] its [vals] is NULL, in [c] its fields are pointers and [vals] is
    [(bV, 0)] with [bV] a live, writable double block (of ANY content -- so this also covers
    re-running compute on re-valued inputs over stale values).  If evaluate returns [v], compute
    (same fuel) returns [v] in an [RC]-related state, or fails with [EOutOfBounds] -- nothing else:
    no other trap, no exhaustion of that fuel, no fall-through. *)
Theorem CERT_kinds_compute_sound :
  forall fe fc, compute_cert3 fe fc = true ->
  forall fuel tout bV ids a c, PreC (roles_of fe) tout bV a c -> ~ In tout ids ->
  match call fuel fe (VTensor tout :: map VTensor ids) a with
  | Returned a' v _ =>
      (exists c' tr', call fuel fc (VTensor tout :: map VTensor ids) c = Returned c' v tr' /\
         exists ph cur, RC (roles_of fe) (assigned_only_in fe fc) tout bV ph cur a' c') \/
      call fuel fc (VTensor tout :: map VTensor ids) c = Fail EOutOfBounds
  | _ => True
  end.
Proof. exact compute_cert3_sound. Qed.
Print Assumptions CERT_kinds_compute_sound.

(** What [RC] says about the values: if evaluate's final [out->vals] designates a live block
    [b], it is [(b, 0)], compute's [out->vals] is still [(bV, 0)], and every initialised cell of [b]
    with index below the length of [bV] has the SAME content in [bV] (cells evaluate left
    uninitialised -- the scratch cell -- are unconstrained). *)
Theorem CERT_kinds_compute_values :
  forall rl U tout bV ph cur a c, RC rl U tout bV ph cur a c ->
  exists tsa tsc, PM.find tout (tensors a) = Some tsa /\ PM.find tout (tensors c) = Some tsc /\
    t_dims tsa = t_dims tsc /\ t_vals tsc = VPtr bV 0 /\
    forall b o be, t_vals tsa = VPtr b o -> PM.find b (heap a) = Some be -> b_live be = true ->
      o = 0 /\ exists bc, PM.find bV (heap c) = Some bc /\ b_live bc = true /\ b_float bc = true /\
                          sub_cells (b_len bc) (b_cells be) (b_cells bc).
Proof. exact RC_values. Qed.
Print Assumptions CERT_kinds_compute_values.

(** NOT YET A THEOREM: the history statement of the harness.  Missing glue: the state assemble ends
    in satisfies [PreC] against the initial state (assemble leaves the input blocks and input
    structs alone -- cf. CERT_input_safe_sound --, and leaves [out->vals] a live double block, the
    same block identifier as evaluate's final value block by CERT_kinds_assemble_sound), plus
    reading [check_output] through [CERT_kinds_same_structure] / [CERT_kinds_compute_values].
    [EOutOfBounds] is the one failure that cannot be excluded syntactically: compute stores into a
    value block of evaluate's FINAL size. *)
Definition CERT_kinds_history_full : Prop :=
  forall fe fa fc, kinds_cert fe fa fc = true ->
  forall fuel ts exp vals exact,
    run_check fuel fe ts exp vals exact = VOk ->
    run_history fuel [(fa, []); (fc, [])] ts exp vals exact = VOk \/
    run_history fuel [(fa, []); (fc, [])] ts exp vals exact = VFail EOutOfBounds.
