(** TIE (operators) -- the hand model of the operator layer, model/Operators.v (property C11), agrees
    with what tools/py2coq/extra_operators.py regenerates on every run from /repo/src/tensora/tensor.py
    ([Tensor.__add__ ... __rmatmul__], [evaluate_binary_operator] with its helper [indexes_string],
    [evaluate_matrix_multiplication_operator], [Tensor.format]) and format/_format.py ([Mode],
    [Format.__post_init__], [Format.order], [Format.deparse]): gen/TensorOps.v.

    Statements only; proofs, the embedding [emb] of the model's operands into the generated object
    type, and the conversion [conv] of the model's results (assignment AST -> the deparsed string,
    format -> the deparsed string, bindings -> the objects passed) are in
    proofs/GenOperators_equiv.v.  GO = gen.TensorOps, MO = model.Operators.

    A change of the Python source changes gen/TensorOps.v; if it changes which request or which
    exception the operator layer produces, these proofs stop checking (design.d/TIE_operators.md). *)

From Coq Require Import ZArith List Bool String.
From TV Require Import spec.PyBase spec.PyLib proofs.GenOperators_equiv.
Import ListNotations.
Open Scope string_scope.

(* ------------------------------------------------------------------------------------------ *)
(** * Generated = model, for operands that satisfy the Tensor invariant *)

(** [evaluate_binary_operator(left, right, op)] for [op] in + - times and every operand kind
    (tensor / number / other object on either side), order, format and dimension tuple: the same
    assignment string, output-format string and keyword bindings as the model's request, the shape
    [ValueError] (same message template) exactly when the model says [EShape], [NotImplemented]
    exactly when the model says [ENotImplemented]. *)
Theorem TIE_operators_binary_equiv :
  forall (l r : MO.operand) (o : MO.op),
    MO.wf_operand l = true -> MO.wf_operand r = true ->
    GO.evaluate_binary_operator (emb l) (emb r) (MO.op_char o)
    = conv binary_shape_template l r (MO.binary_operator_request l r o).
Proof. exact gen_binary_equiv. Qed.
Print Assumptions TIE_operators_binary_equiv.

(** [evaluate_matrix_multiplication_operator(left, right)] *)
Theorem TIE_operators_matmul_equiv :
  forall (l r : MO.operand),
    MO.wf_operand l = true -> MO.wf_operand r = true ->
    GO.evaluate_matrix_multiplication_operator (emb l) (emb r)
    = conv matmul_shape_template l r (MO.matmul_request l r).
Proof. exact gen_matmul_equiv. Qed.
Print Assumptions TIE_operators_matmul_equiv.

(** the eight methods: which operand each hands over as [left] / [right], and which operator *)
Theorem TIE_operators_methods_equiv :
  forall (m : MO.method) (d : list Z) (mm : list MO.mode) (r : list nat) (other : MO.operand),
    MO.wf_operand (MO.OTensor d mm r) = true -> MO.wf_operand other = true ->
    gen_method m (emb_view d mm r) (emb other)
    = conv (method_template m)
        (fst (method_operands m (MO.OTensor d mm r) other)) (snd (method_operands m (MO.OTensor d mm r) other))
        (MO.method_request m (MO.OTensor d mm r) other).
Proof. exact gen_methods_equiv. Qed.
Print Assumptions TIE_operators_methods_equiv.

(** the model's [python_operator] (Python's dispatch of [a <op> b]) over the regenerated methods *)
Theorem TIE_operators_python_operator_equiv :
  forall (p : MO.pyop) (a b : MO.operand),
    MO.wf_operand a = true -> MO.wf_operand b = true ->
    gen_python_operator p a b = conv (pyop_template p) a b (MO.python_operator p a b).
Proof. exact gen_python_operator_equiv. Qed.
Print Assumptions TIE_operators_python_operator_equiv.

(* ------------------------------------------------------------------------------------------ *)
(** * All embedded operands (the invariant not assumed): equal, or one of the exceptions that only
    an object breaking the Tensor invariant can cause ([InvalidModeOrderingError] from
    [Format.__post_init__], [ValueError] from [zip(strict=True)], [IndexError]) *)

Theorem TIE_operators_binary_refines :
  forall (l r : MO.operand) (o : MO.op),
    GO.evaluate_binary_operator (emb l) (emb r) (MO.op_char o)
      = conv binary_shape_template l r (MO.binary_operator_request l r o)
    \/ (exists e : GO.exn,
          GO.evaluate_binary_operator (emb l) (emb r) (MO.op_char o) = GO.Exc e
          /\ ill_formed_exn e = true /\ MO.wf_operand l && MO.wf_operand r = false).
Proof. exact gen_binary_refines. Qed.
Print Assumptions TIE_operators_binary_refines.

Theorem TIE_operators_matmul_refines :
  forall (l r : MO.operand),
    GO.evaluate_matrix_multiplication_operator (emb l) (emb r)
      = conv matmul_shape_template l r (MO.matmul_request l r)
    \/ (exists e : GO.exn,
          GO.evaluate_matrix_multiplication_operator (emb l) (emb r) = GO.Exc e
          /\ ill_formed_exn e = true /\ MO.wf_operand l && MO.wf_operand r = false).
Proof. exact gen_matmul_refines. Qed.
Print Assumptions TIE_operators_matmul_refines.

(** the embedding reaches every Tensor view that satisfies the invariant the model assumes *)
Theorem TIE_operators_emb_onto :
  forall v : GO.TensorView,
    GO.Tensor_order v = Z.of_nat (List.length (GO.Tensor_dimensions v)) ->
    Forall (fun z => (0 <= z)%Z) (GO.Tensor_mode_ordering v) ->
    exists d m r, GO.PyTensor v = emb (MO.OTensor d m r).
Proof. exact emb_onto. Qed.
Print Assumptions TIE_operators_emb_onto.

(** an operator string other than the three never reaches [evaluate_tensora] *)
Theorem TIE_operators_unknown_operator :
  forall (l r : MO.operand) (op : string),
    op <> "+" -> op <> "-" -> op <> "*" ->
    forall s f kw, GO.evaluate_binary_operator (emb l) (emb r) op <> GO.Val (GO.Evaluate s f kw).
Proof. exact gen_binary_unknown_operator. Qed.
Print Assumptions TIE_operators_unknown_operator.

(* ------------------------------------------------------------------------------------------ *)
(** * The C11 theorems on the regenerated functions (no invariant needed for the first two) *)

(** C11_request_denotes_pointwise: whatever request the regenerated [evaluate_binary_operator]
    hands to [evaluate_tensora], its assignment string is the deparse of an assignment whose
    tensor-algebra meaning under the bindings actually passed is the element-wise operation *)
Theorem TIE_operators_request_denotes_pointwise :
  forall (l r : MO.operand) (o : MO.op) (s f : string) (kw : list (string * GO.argval)),
    GO.evaluate_binary_operator (emb l) (emb r) (MO.op_char o) = GO.Val (GO.Evaluate s f kw) ->
    exists q : MO.request,
      MO.binary_operator_request l r o = MO.Ok q /\
      s = MO.deparse_assignment (MO.rq_assignment q) /\
      f = MO.format_deparse (MO.rq_format q) /\
      kw = map (fun nb => (fst nb, conv_binding l r (snd nb))) (MO.rq_bindings q) /\
      forall (lv rv : MO.opvalue) (c : MO.coord),
        List.length c = List.length (MO.pointwise_dims l r) ->
        MO.denote_request q l r lv rv c = MO.apply_op o (MO.broadcast l lv c) (MO.broadcast r rv c).
Proof. exact gen_request_denotes_pointwise. Qed.
Print Assumptions TIE_operators_request_denotes_pointwise.

(** C11_matmul_request_denotes *)
Theorem TIE_operators_matmul_request_denotes :
  forall (l r : MO.operand) (s f : string) (kw : list (string * GO.argval)),
    GO.evaluate_matrix_multiplication_operator (emb l) (emb r) = GO.Val (GO.Evaluate s f kw) ->
    exists q : MO.request,
      MO.matmul_request l r = MO.Ok q /\
      s = MO.deparse_assignment (MO.rq_assignment q) /\
      f = MO.format_deparse (MO.rq_format q) /\
      kw = map (fun nb => (fst nb, conv_binding l r (snd nb))) (MO.rq_bindings q) /\
      forall (lv rv : MO.opvalue) (c : MO.coord),
        List.length c = List.length (MO.matmul_dims l r) ->
        MO.denote_request q l r lv rv c = MO.matmul_spec l r lv rv c.
Proof. exact gen_matmul_request_denotes. Qed.
Print Assumptions TIE_operators_matmul_request_denotes.

(** C11_operator_format_rule, about the format STRING that is passed on: for operands in natural
    mode order, one mode character per dimension, dense exactly where the rule says *)
Theorem TIE_operators_format_rule :
  forall (l r : MO.operand) (o : MO.op) (s f : string) (kw : list (string * GO.argval)),
    MO.wf_operand l = true -> MO.wf_operand r = true ->
    MO.natural_operand l = true -> MO.natural_operand r = true ->
    GO.evaluate_binary_operator (emb l) (emb r) (MO.op_char o) = GO.Val (GO.Evaluate s f kw) ->
    exists ms : list MO.mode,
      f = String.concat "" (map MO.mode_char ms) /\
      List.length ms = List.length (MO.pointwise_dims l r) /\
      forall d : nat, (d < List.length (MO.pointwise_dims l r))%nat ->
        nth d ms MO.MDense = MO.rule_mode o (MO.mode_of_dim l d) (MO.mode_of_dim r d).
Proof. exact gen_operator_format_rule. Qed.
Print Assumptions TIE_operators_format_rule.

(** C11_matmul_format_rule *)
Theorem TIE_operators_matmul_format_rule :
  forall (l r : MO.operand) (s f : string) (kw : list (string * GO.argval)),
    MO.wf_operand l = true -> MO.wf_operand r = true ->
    GO.evaluate_matrix_multiplication_operator (emb l) (emb r) = GO.Val (GO.Evaluate s f kw) ->
    f = String.concat "" (map MO.mode_char (MO.matmul_outer_modes l r)).
Proof. exact gen_matmul_format_rule. Qed.
Print Assumptions TIE_operators_matmul_format_rule.
