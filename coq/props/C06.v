(** Property C06 (printer part) -- the C text printed for an IR expression means what the IR
    expression means: parenthesisation / precedence.

    [cprint], [cprint_assignment], [cprint_stmt] (model/CPrint.v) are the hand model of
    /repo/src/tensora/codegen/_ir_to_c.py, tied to the real printer token for token on every run
    (tools/props/_c06_printer.py).  [Derives] (spec/CGrammar.v) is ISO C's expression grammar indexed
    by precedence level; [cparse] an executable parser for it; [csem] the meaning of a C tree.
    [eval] is the IR abstract machine (spec/IRSem.v).  This file contains statements only. *)

From Coq Require Import ZArith Bool List String.
From TV Require Import spec.Num gen.IRAst spec.IRSem spec.CGrammar model.CPrint
  proofs.CPrintDerives proofs.CPrintFacts proofs.CPrintParse proofs.CPrintSem proofs.CPrintEq.
Import ListNotations.
Local Open Scope nat_scope.

(** FULL STATEMENT (kept for reference; refuted today, findings/K_C06_1.v): the printed tokens of
    every expression derive, at the expression's own precedence level, its node-for-node C tree. *)
Definition C06_cprint_derives_full : Prop :=
  forall e, Derives (level_of e) (cprint e) (embed e).

(** PROVED, unbounded depth: the printed tokens derive [embed (rotate e)], where [rotate] re-nests
    exactly the right operands that continue a left-associative chain of the same precedence class
    (x + (y + z), x + (y - z), x * (y * z): known finding K-C06-1; and a && (b && c), a || (b || c),
    whose re-association is invisible, [C06_rotate_logic_invisible]).
    Guard [wt_expr]: operands have the sort the IR machine and the LLVM back end insist on
    (arithmetic/comparisons/min/max/sizes take numbers, && || and the cast take booleans, the target
    of -> and [] is an Assignable).  Guard [alloc_ok]: an allocation size is not itself a product
    ([malloc(sizeof(T) * a * b)] parses as [(sizeof(T) * a) * b], a tree with no IR counterpart;
    tensora's sizes are variables or [n + 1]).  Every other dropped parenthesis breaks this proof:
    x - (y + z), (x + y) * z, a && (b || c), sizeof(T) * (n + 1), (int32_t)(e). *)
Theorem C06_cprint_derives_partial :
  forall e, wt_expr e = true -> alloc_ok e = true ->
            Derives (level_of e) (cprint e) (embed (rotate e)).
Proof. exact cprint_derives_wt. Qed.
Print Assumptions C06_cprint_derives_partial.

Example C06_cprint_derives_partial_instance :
  let e := Subtract (Var "x") (Multiply (Add (Var "y") (IntegerLiteral 1))
                                 (ArrayIndex (Var "p") (Min (Var "i") (IntegerLiteral (-2))))) in
  wt_expr e = true /\ alloc_ok e = true /\ rotate e = e /\
  cprint e = [TId "x"; TMinus; TLParen; TId "y"; TPlus; TInt 1; TRParen; TStar; TId "p"; TLBrack;
              TId "TACO_MIN"; TLParen; TId "i"; TComma; TMinus; TInt 2; TRParen; TRBrack].
Proof. vm_compute. repeat split. Qed.

(** The same under the weakest syntactic guard the proof needs ([prec_ok]: no operand that is printed
    without parentheses binds looser than its position allows); [wt_expr && alloc_ok] implies it. *)
Theorem C06_cprint_derives_prec_partial :
  forall e, prec_ok e = true -> Derives (level_of e) (cprint e) (embed (rotate e)).
Proof. exact cprint_derives_prec. Qed.
Print Assumptions C06_cprint_derives_prec_partial.

Theorem C06_wt_implies_prec_ok :
  forall e, wt_expr e = true -> alloc_ok e = true -> prec_ok e = true.
Proof. exact wt_prec_ok. Qed.
Print Assumptions C06_wt_implies_prec_ok.

(** On trees without the K-C06-1 patterns [rotate] is the identity ... *)
Theorem C06_rotate_fixpoint :
  forall e, no_right_nested e = true -> rotate e = e.
Proof. exact rotate_fixpoint. Qed.
Print Assumptions C06_rotate_fixpoint.

(** ... so their text derives their own tree: every kernel whose value expressions are left-nested
    is printed exactly. *)
Theorem C06_cprint_derives_exact :
  forall e, wt_expr e = true -> alloc_ok e = true -> no_right_nested e = true ->
            Derives (level_of e) (cprint e) (embed e).
Proof. exact cprint_derives_exact. Qed.
Print Assumptions C06_cprint_derives_exact.

Example C06_cprint_derives_exact_instance :
  let e := Add (Add (ArrayIndex (Var "b") (Var "i")) (ArrayIndex (Var "c") (Var "i")))
               (Multiply (ArrayIndex (Var "d") (Var "i")) (FloatLiteral F1)) in
  wt_expr e = true /\ alloc_ok e = true /\ no_right_nested e = true.
Proof. vm_compute. repeat split. Qed.

(** The re-association is never an algebraic error: in exact arithmetic (the commutative ring Z,
    every non-arithmetic node an uninterpreted compositional function) the rotated tree has the same
    meaning.  Only binary64 rounding and the order of int32 overflows can tell the two apart. *)
Theorem C06_rotate_exact_ring :
  forall I e, denoteZ I (rotate e) = denoteZ I e.
Proof. exact rotate_exact_ring. Qed.
Print Assumptions C06_rotate_exact_ring.

(** Statements: the one-line statements of ir_to_c_statement derive the C statement [cstmt_of]. *)
Theorem C06_stmt_derives_partial :
  forall s, stmt_ok s = true ->
  exists ts cs, cprint_stmt s = Some ts /\ cstmt_of s = Some cs /\ DerivesStmt ts cs.
Proof. exact stmt_derives. Qed.
Print Assumptions C06_stmt_derives_partial.

Example C06_stmt_derives_partial_instance :
  stmt_ok (Assignment (ArrayIndex (Var "a") (Var "p")) (Add (ArrayIndex (Var "a") (Var "p"))
             (Multiply (Var "x") (Var "y")))) = true.
Proof. reflexivity. Qed.

(** The sugar is sound: after ISO C's definitional expansion of [op=] (6.5.16.2), [++], [--]
    (6.5.2.4) the statement derived from the printed text is the plain assignment of
    [assigned_value t v]: [t = t + r], [t = t - r], [t = t * r] with [r] parsed as a whole when the
    value's left operand is (Python-)equal to the target, [++]/[--] only when [r] is the integer
    literal 1, and [t = v] otherwise. *)
Theorem C06_compound_assignment_sound :
  forall t v,
    expand_cstmt (cstmt_of_assignment t v) = CSAssign AEq (embed (rotate t)) (assigned_value t v).
Proof. exact compound_assignment_sound. Qed.
Print Assumptions C06_compound_assignment_sound.

Theorem C06_assigned_value_sugared :
  forall t op r,
    (op = Add \/ op = Subtract \/ op = Multiply) -> expr_eqb t t = true ->
    assigned_value t (op t r) = embed (rotate_assignment_value true t (op t r)).
Proof. exact assigned_value_rotate. Qed.
Print Assumptions C06_assigned_value_sugared.

Theorem C06_assigned_value_plain :
  forall t v, sugared t v = false -> assigned_value t v = embed (rotate v).
Proof. exact assigned_value_plain. Qed.
Print Assumptions C06_assigned_value_plain.

(** "The C compiler parses it this way" does not rest on an existence claim: the executable
    precedence-climbing parser [cparse] is sound for [Derives], every derivation is found by it with
    enough fuel, and therefore the grammar is deterministic. *)
Theorem C06_cparse_sound :
  forall ts t, cparse ts = Some t -> Derives 0 ts t.
Proof. exact cparse_sound. Qed.
Print Assumptions C06_cparse_sound.

Theorem C06_cparse_complete :
  forall ts t, Derives 0 ts t ->
  exists n, forall n', n <= n' -> cparse_m n' (MExpr 0) ts = Some (t, []).
Proof. exact cparse_m_finds. Qed.
Print Assumptions C06_cparse_complete.

Theorem C06_derives_unique :
  forall l ts t t', Derives l ts t -> Derives l ts t' -> t = t'.
Proof. exact derives_unique. Qed.
Print Assumptions C06_derives_unique.

(** The embedded C tree means what the IR tree means: whenever the IR abstract machine gives [e] a
    value, C's semantics (usual arithmetic conversions, integer promotion of _Bool, short-circuit
    && ||, the two macros expanded, the cast) gives [embed e] the same value, reading the same cells
    (a macro reads its selected argument twice).  The converse is deliberately not claimed: C gives
    a meaning to trees the IR machine rejects (comparisons of doubles, a _Bool used as a number), and
    the allocation forms are statements, not pure expressions, in both. *)
Definition C06_csem_embed_full : Prop :=
  forall st e, cexpr_sem st (embed e) = eval st e.

Theorem C06_csem_embed :
  forall st e v tr, eval st e = Ok (v, tr) ->
  exists tr', cexpr_sem st (embed e) = Ok (v, tr') /\ (forall x, In x tr <-> In x tr').
Proof. exact csem_embed. Qed.
Print Assumptions C06_csem_embed.

Example C06_csem_embed_instance :
  let st := mkState [("x"%string, (TInteger, Some (VInt 5)))] (PM.empty block) 1%positive
                    (PM.empty tensor_s) 0%Z in
  let e := Subtract (Var "x") (Add (IntegerLiteral (-2147483648)) (Max (Var "x") (IntegerLiteral 7))) in
  match eval st e, cexpr_sem st (embed e) with
  | Ok (VInt a, _), Ok (VInt b, _) => Z.eqb a 2147483646 && Z.eqb b 2147483646
  | _, _ => false
  end = true.
Proof. vm_compute. reflexivity. Qed.

(** [rotate] also re-nests a && (b && c) and a || (b || c) (C parses them left-nested as well); the
    Python [rot] of tools/harness/crot.py ([rotate_arith]) does not.  The difference is invisible:
    short-circuit evaluation is associative, value, errors and trace included. *)
Theorem C06_rotate_logic_invisible :
  forall st e, eval st (rotate e) = eval st (rotate_arith e).
Proof. exact rotate_logic_invisible. Qed.
Print Assumptions C06_rotate_logic_invisible.

(** The printer selects the sugar with Python's [==] on dataclasses (the generated [expr_eqb]: float
    literals compare numerically).  Whatever it identifies with the target evaluates like the target,
    so [t = l + r] with [l == t] and the printed [t += r] (i.e. [t = t + r]) assign the same value. *)
Theorem C06_sugar_identifies_equal_meaning :
  forall t l r st,
    expr_eqb l t = true ->
    eval st (Add l r) = eval st (Add t r) /\
    eval st (Subtract l r) = eval st (Subtract t r) /\
    eval st (Multiply l r) = eval st (Multiply t r).
Proof. exact sugared_value_eval. Qed.
Print Assumptions C06_sugar_identifies_equal_meaning.
