(** TIE -- the hand models are EQUAL to what tools/py2coq regenerates from /repo's source on
    every run (gen/Exhaust*.v, gen/Names.v, gen/Deparse.v, gen/Desugar.v).  Statements only; proofs in
    proofs/Gen*_equiv.v; conversions between the generated and the hand-written inductives are
    defined there ([conv], [conv16], [conv_ctx], [gen_render]).

    A change of the Python source changes the generated definitions; if it changes what they
    compute, the proofs below stop checking (design.d/TIE.md). *)

From Coq Require Import ZArith NArith List Bool String Ascii.
From TV Require Import spec.Num spec.PyBase spec.PyLib spec.Spec gen.IRAst.
From Coq Require Import Permutation.
From TV Require Import spec.Storage.
From TV Require Import proofs.PyLibFacts proofs.GenExhaust_equiv proofs.GenNames_equiv proofs.GenDeparse_equiv
  proofs.GenDesugar_equiv proofs.GenVariables_equiv proofs.GenIndexParticipants_equiv.
Import ListNotations.

(* ------------------------------------------------------------------------------------------ *)
(** * identifiable_expression/_exhaust_tensor.py  =  model/Exhaust.v  (C01)
    value AND the "result is the argument object" flag that models Python's [is] *)

Theorem TIE_exhaust_equiv :
  forall (R : Type) (fl : F -> R) (e : GA.id_expr) (t : string),
    (GenExhaust_equiv.conv R fl (fst (G.exhaust_tensor e t)), snd (G.exhaust_tensor e t))
    = ME.exhaust_aux (GenExhaust_equiv.conv R fl e) t.
Proof. exact gen_exhaust_equiv. Qed.
Print Assumptions TIE_exhaust_equiv.

(** the flag never claims an identity that is not an equality *)
Theorem TIE_exhaust_flag_sound :
  forall (e : GA.id_expr) (t : string),
    snd (G.exhaust_tensor e t) = true -> fst (G.exhaust_tensor e t) = e.
Proof. exact gen_exhaust_flag_sound. Qed.
Print Assumptions TIE_exhaust_flag_sound.

Theorem TIE_exhaust_flag_complete :
  forall (e : GA.id_expr) (t : string),
    fst (G.exhaust_tensor e t) = e -> snd (G.exhaust_tensor e t) = true.
Proof. exact gen_exhaust_flag_complete. Qed.
Print Assumptions TIE_exhaust_flag_complete.

(** C01_exhaust_sound carried over to the regenerated function *)
Theorem TIE_exhaust_sound_gen :
  forall (O : ringops), ring_ok O ->
  forall (fl : F -> O) (e : GA.id_expr) (t : string) (sigma : string -> O),
    ME.evalE sigma (GenExhaust_equiv.conv O fl (fst (G.exhaust_tensor e t)))
    = ME.evalE (ME.zeroed sigma t) (GenExhaust_equiv.conv O fl e).
Proof. exact gen_exhaust_sound. Qed.
Print Assumptions TIE_exhaust_sound_gen.

(* ------------------------------------------------------------------------------------------ *)
(** * identifiable_expression/_extract_context.py  =  model/Exhaust.v (C01), model/Context.v (C16)
    [None] on both sides is a Python exception (IndexError of [self.modes[layer]]) *)

Theorem TIE_context_equiv :
  forall (R : Type) (fl : F -> R) (is_zero : R -> bool),
    (forall f : F, is_zero (fl f) = Feqb f F0) ->
  forall (e : GA.id_expr) (k : string),
    option_map conv_ctx (G.extract_context e k)
    = ME.extract_context is_zero (GenExhaust_equiv.conv R fl e) k.
Proof. exact gen_context_equiv. Qed.
Print Assumptions TIE_context_equiv.

Theorem TIE_context_is_sparse_equiv :
  forall (e : GA.id_expr) (k : string) (c : GA.Context),
    G.extract_context e k = Some c -> GA.Context_is_sparse c = MC.is_sparse (conv16 e) k.
Proof. exact gen_is_sparse_equiv. Qed.
Print Assumptions TIE_context_is_sparse_equiv.

(** no exception when every index of every tensor has a mode *)
Theorem TIE_context_total :
  forall (e : GA.id_expr) (k : string), wf_modes e = true -> exists c, G.extract_context e k = Some c.
Proof. exact gen_context_total. Qed.
Print Assumptions TIE_context_total.

(** C01_sparse_context_sound and C16_condition_implies_sparse_context carried over *)
Theorem TIE_sparse_context_sound_gen :
  forall (O : ringops), ring_ok O ->
  forall (is_zero : O -> bool), (forall r, is_zero r = true -> r = r0) ->
  forall (fl : F -> O), (forall f, is_zero (fl f) = Feqb f F0) ->
  forall (e : GA.id_expr) (k : string) (c : GA.Context) (sigma : string -> O),
    G.extract_context e k = Some c ->
    GA.Context_is_sparse c = true ->
    (forall l, In l (GA.Context_sparse_leaves c) -> sigma (fst (conv_leaf l)) = r0) ->
    ME.evalE sigma (GenExhaust_equiv.conv O fl e) = r0.
Proof. exact gen_sparse_context_sound. Qed.
Print Assumptions TIE_sparse_context_sound_gen.

Theorem TIE_condition_implies_sparse_gen :
  forall (e : GA.id_expr) (k : string) (c : GA.Context),
    MC.only_compressed (conv16 e) k = true -> MC.every_term_mentions (conv16 e) k = true ->
    G.extract_context e k = Some c -> GA.Context_is_sparse c = true.
Proof. exact gen_condition_implies_sparse. Qed.
Print Assumptions TIE_condition_implies_sparse_gen.

(* ------------------------------------------------------------------------------------------ *)
(** * iteration_graph/_names.py  =  model/Names.v  (C08) *)

Theorem TIE_names_equiv : forall g : MN.gname, gen_render g = Var (MN.render g).
Proof. exact gen_names_equiv. Qed.
Print Assumptions TIE_names_equiv.

Theorem TIE_previous_layer_pointer :
  forall (r : string) (l : nat),
    GN.previous_layer_pointer r (Z.of_nat l)
    = match l with O => IntegerLiteral 0 | S l' => Var (MN.layer_pointer r l') end.
Proof. exact gen_previous_layer_pointer. Qed.
Print Assumptions TIE_previous_layer_pointer.

(** C08_names_injective carried over: the regenerated name functions are jointly injective *)
Theorem TIE_names_injective_gen :
  forall g1 g2 : MN.gname,
    MN.identb (MN.gname_ident g1) = true -> MN.identb (MN.gname_ident g2) = true ->
    gen_render g1 = gen_render g2 -> g1 = g2.
Proof. exact gen_names_injective. Qed.
Print Assumptions TIE_names_injective_gen.

(** [str(int)] as used by the generated files is injective *)
Theorem TIE_show_Z_injective : forall a b : Z, show_Z a = show_Z b -> a = b.
Proof. exact show_Z_inj. Qed.
Print Assumptions TIE_show_Z_injective.

(* ------------------------------------------------------------------------------------------ *)
(** * expression/ast.py, the deparse methods  =  model/Parser.v print_expr / print_assignment (C12) *)

Theorem TIE_deparse_equiv :
  forall (fdec : F -> MP.dec) (str_float : F -> string) (show_float : MP.dec -> list ascii),
    (forall f, show_float (fdec f) = list_ascii_of_string (str_float f)) ->
  forall e : GD.ex_expr, nonneg e = true ->
    list_ascii_of_string (GD.Expression_deparse str_float e)
    = MP.print_expr show_float (GenDeparse_equiv.conv fdec e).
Proof. exact gen_deparse_equiv. Qed.
Print Assumptions TIE_deparse_equiv.

Theorem TIE_assignment_deparse_equiv :
  forall (fdec : F -> MP.dec) (str_float : F -> string) (show_float : MP.dec -> list ascii),
    (forall f, show_float (fdec f) = list_ascii_of_string (str_float f)) ->
  forall (n : string) (idx : list string) (e : GD.ex_expr), nonneg e = true ->
    list_ascii_of_string (GD.ex_assignment_deparse str_float (GD.ExAssignment (GD.ExTensor n idx) e))
    = MP.print_assignment show_float (MP.Assign n idx (GenDeparse_equiv.conv fdec e)).
Proof. exact gen_assignment_deparse_equiv. Qed.
Print Assumptions TIE_assignment_deparse_equiv.

(** C12_text_roundtrip_int carried over: what the regenerated printer prints for a parsed
    float-free assignment parses back to it *)
Theorem TIE_deparse_roundtrip_int_gen :
  forall (fdec : F -> MP.dec) (str_float : F -> string) s a e,
    MP.parse_assignment s = MP.POk a -> MP.float_free (MP.rhs a) = true ->
    GenDeparse_equiv.conv fdec e = MP.rhs a -> nonneg e = true ->
    MP.parse_assignment
      (GD.ex_assignment_deparse str_float (GD.ExAssignment (GD.ExTensor (MP.tname a) (MP.tindexes a)) e))
    = MP.POk a.
Proof. exact gen_deparse_roundtrip_int. Qed.
Print Assumptions TIE_deparse_roundtrip_int_gen.

(* ------------------------------------------------------------------------------------------ *)
(** * desugar/ast.py, desugar/_desugar_expression.py  =  model/DesugarSem.v, flag [true]  (C01)

    [ordg] is the iteration order of Python's sets (any function that permutes its argument),
    keyed by the id counter; the model's oracle is [ordm ordg = fun n => ordg (Z.of_nat n)].
    The generated functions take fuel; [height e + 2] suffices and then the result is not None
    (no exception, not out of fuel). *)

Theorem TIE_desugar_equiv :
  forall (R : Type) (fl : F -> R) (ordg : Z -> list string -> list string),
    (forall z l, Permutation (ordg z l) l) ->
  forall (e : GenDesugar_equiv.GD.ex_expr) (fuel : nat) (K : list string) (n : nat),
    (height e + 2 <= fuel)%nat ->
    exists (d : GS.de_expr) (n' : nat),
      GS.desugar_expression ordg fuel e K (Z.of_nat n) = Some (d, Z.of_nat n')
      /\ MS.desugar (ordm ordg) true (convE R fl e) K n = (convD R fl d, n').
Proof. exact gen_desugar_equiv. Qed.
Print Assumptions TIE_desugar_equiv.

Theorem TIE_desugar_assignment_equiv :
  forall (R : Type) (fl : F -> R) (ordg : Z -> list string -> list string),
    (forall z l, Permutation (ordg z l) l) ->
  forall (tn : string) (tidx : list string) (e : GenDesugar_equiv.GD.ex_expr) (fuel : nat),
    (height e + 2 <= fuel)%nat ->
    exists d : GS.de_expr,
      GS.desugar_assignment ordg fuel (GenDesugar_equiv.GD.ExAssignment (GenDesugar_equiv.GD.ExTensor tn tidx) e)
      = Some (GS.DeAssignment (GS.DeTensor 0 tn tidx) d)
      /\ MS.desugar_assignment (ordm ordg) true (mkAssign tn tidx (convE R fl e))
         = (MS.DTensor 0 tn tidx, convD R fl d).
Proof. exact gen_desugar_assignment_equiv. Qed.
Print Assumptions TIE_desugar_assignment_equiv.

(** C01_desugar_correct carried over: what the regenerated [desugar_assignment] returns denotes the
    tensor-algebra specification, for every iteration order of the sets *)
Theorem TIE_desugar_correct_gen :
  forall (O : ringops), ring_ok O ->
  forall (fl : F -> O) (E : env O) (sizes : string -> Z) (ordg : Z -> list string -> list string),
    (forall z l, Permutation (ordg z l) l) ->
  forall (tn : string) (tidx : list string) (e : GenDesugar_equiv.GD.ex_expr) (fuel : nat) (c : list Z),
    (height e + 2 <= fuel)%nat ->
    exists d : GS.de_expr,
      GS.desugar_assignment ordg fuel (GenDesugar_equiv.GD.ExAssignment (GenDesugar_equiv.GD.ExTensor tn tidx) e)
      = Some (GS.DeAssignment (GS.DeTensor 0 tn tidx) d)
      /\ MS.denote_at tidx E sizes (convD O fl d) c = spec (mkAssign tn tidx (convE O fl e)) E sizes c.
Proof. exact gen_desugar_correct. Qed.
Print Assumptions TIE_desugar_correct_gen.

(* ------------------------------------------------------------------------------------------ *)
(** * expression/ast.py, the variables methods  =  model/ExprAst.v variables  (C10, C15)
    the same association list in the same (insertion) order; the regenerated function never raises *)

Theorem TIE_variables_equiv :
  forall (fid : F -> Z) (e : GenVariables_equiv.GD.ex_expr),
    exists d, GenVariables_equiv.GD.Expression_variables e = Some d
              /\ conv_vars d = EA.variables (convA fid e).
Proof. exact gen_variables_equiv. Qed.
Print Assumptions TIE_variables_equiv.

Theorem TIE_variable_orders_gen :
  forall (fid : F -> Z) (n : string) (idx : list string) (e : GenVariables_equiv.GD.ex_expr) d,
    GenVariables_equiv.GD.Expression_variables e = Some d ->
    EA.variable_orders (EA.Assignment (EA.TRef n idx) (convA fid e))
    = (n, List.length idx) :: map (fun kv => (fst kv, EA.first_order (map tref_of (snd kv)))) d.
Proof. exact gen_variable_orders. Qed.
Print Assumptions TIE_variable_orders_gen.

(* ------------------------------------------------------------------------------------------ *)
(** * expression/ast.py, index_participants (+ merge_index_participants)  =  model/ExprAst.v  (C10, C15)
    for every iteration order [ord_set] of the key set (the model's oracle may also depend on the
    place: the regenerated behaviours are among the model's) *)

Theorem TIE_index_participants_equiv :
  forall (ord_set : list string -> list string) (fid : F -> Z)
         (e : GenVariables_equiv.GD.ex_expr) (pth : EA.path),
    GenVariables_equiv.GD.Expression_index_participants ord_set e
    = lift_ip (EA.index_participants (fun _ l => ord_set l) pth (convA fid e)).
Proof. exact gen_index_participants_equiv. Qed.
Print Assumptions TIE_index_participants_equiv.

(** the summary [index_names] that gen/Desugar.v uses for [e.index_participants().keys()] is right
    as a set, for every iteration order *)
Theorem TIE_index_names_summary :
  forall (ord_set : list string -> list string), (forall l, Permutation (ord_set l) l) ->
  forall (e : GenVariables_equiv.GD.ex_expr) (k : string),
    In k (map fst (GenVariables_equiv.GD.Expression_index_participants ord_set e))
    <-> In k (TV.gen.Desugar.index_names e).
Proof. intros ord_set H. exact (gen_index_names_summary ord_set (fun _ => 0%Z) H). Qed.
Print Assumptions TIE_index_names_summary.

Theorem TIE_assignment_index_participants_equiv :
  forall (ord_set : list string -> list string) (fid : F -> Z)
         (n : string) (idx : list string) (e : GenVariables_equiv.GD.ex_expr),
    GenVariables_equiv.GD.ex_assignment_index_participants ord_set
      (GenVariables_equiv.GD.ExAssignment (GenVariables_equiv.GD.ExTensor n idx) e)
    = lift_ip (EA.assignment_index_participants (fun _ l => ord_set l)
                 (EA.Assignment (EA.TRef n idx) (convA fid e))).
Proof. exact gen_assignment_index_participants_equiv. Qed.
Print Assumptions TIE_assignment_index_participants_equiv.

Theorem TIE_assignment_index_names_summary :
  forall (ord_set : list string -> list string), (forall l, Permutation (ord_set l) l) ->
  forall (n : string) (idx : list string) (e : GenVariables_equiv.GD.ex_expr) (k : string),
    In k (map fst (GenVariables_equiv.GD.ex_assignment_index_participants ord_set
                     (GenVariables_equiv.GD.ExAssignment (GenVariables_equiv.GD.ExTensor n idx) e)))
    <-> In k (TV.gen.Desugar.assignment_index_names
                (GenVariables_equiv.GD.ExAssignment (GenVariables_equiv.GD.ExTensor n idx) e)).
Proof. intros ord_set H. exact (gen_assignment_index_names_summary ord_set (fun _ => 0%Z) H). Qed.
Print Assumptions TIE_assignment_index_names_summary.
