(** TIE "append": the output-writing IR emitters regenerated from the source (gen/AppendGen.v:
    iteration_graph/_write_sparse_ir.py, outputs/_append.py, outputs/_bucket.py and the ir/ast.py helper
    methods they use) perform on the IR abstract machine the transitions of model/Append.v.
    Notes: design.d/TIE_append.md. *)

From Coq Require Import ZArith Bool List String FMapPositive.
From TV Require Import spec.Num spec.Storage spec.PyLib gen.IRAst gen.Names spec.IRSem gen.AppendGen model.Append
  proofs.AppendProofs proofs.GenAppend_machine proofs.GenAppend_equiv proofs.GenAppend_protocol.
Import ListNotations.
Open Scope Z_scope.

(** ** what the regenerated emitters return *)

Theorem TIE_append_crd_assembly_shape : forall (tl : TensorLayer) (ix : string),
  py_getitem (Tensor_indexes (TensorLayer_tensor tl)) (TensorLayer_layer tl) = Some ix ->
  option_map sb_finalize (write_crd_assembly tl)
  = Some (crd_assembly_stmt (names_of (TensorLayer_tensor tl) (TensorLayer_layer tl)) ix).
Proof. exact GenAppend_equiv.gen_crd_assembly_shape. Qed.
Print Assumptions TIE_append_crd_assembly_shape.

Theorem TIE_append_crd_assembly_none : forall tl : TensorLayer,
  py_getitem (Tensor_indexes (TensorLayer_tensor tl)) (TensorLayer_layer tl) = None ->
  write_crd_assembly tl = None.
Proof. exact GenAppend_equiv.gen_crd_assembly_none. Qed.
Print Assumptions TIE_append_crd_assembly_none.

Theorem TIE_append_pos_assembly_shape : forall tl : TensorLayer,
  sb_finalize (write_pos_assembly tl)
  = pos_assembly_stmt (names_of (TensorLayer_tensor tl) (TensorLayer_layer tl))
      (previous_layer_pointer (Tensor_id (TensorLayer_tensor tl)) (TensorLayer_layer tl)).
Proof. exact GenAppend_equiv.gen_pos_assembly_shape. Qed.
Print Assumptions TIE_append_pos_assembly_shape.

Theorem TIE_append_pos_allocation_shape : forall tl : TensorLayer,
  option_map sb_finalize (write_pos_allocation tl)
  = match dense_scan tl with
    | Some (dims, _) => Some (pos_allocation_stmt tl dims)
    | None => None
    end.
Proof. exact GenAppend_equiv.gen_pos_allocation_shape. Qed.
Print Assumptions TIE_append_pos_allocation_shape.


(** ** write_declarations / write_cleanup: closed forms for mode strings of order 1 and 2 *)

Theorem TIE_append_declarations_c : forall cap id name ix kt, KernelType_is_assemble kt = true ->
  option_map sb_lines (AppendOutput_write_declarations cap (MkAppendOutput (MkTensor id name [ix] [Mode_compressed]) 0) kt)
  = Some (decl_level_stmts name 0 (Add one one) (default_array_size cap) ++ [decl_ptr_stmt id 0]
          ++ decl_vals_stmts name (default_array_size cap))%list.
Proof. exact GenAppend_equiv.gen_declarations_c. Qed.
Print Assumptions TIE_append_declarations_c.

Theorem TIE_append_declarations_compute : forall cap id name ix,
  option_map sb_lines (AppendOutput_write_declarations cap (MkAppendOutput (MkTensor id name [ix] [Mode_compressed]) 0) KernelType_compute)
  = Some [decl_ptr_stmt id 0].
Proof. exact GenAppend_equiv.gen_declarations_compute. Qed.
Print Assumptions TIE_append_declarations_compute.

Theorem TIE_append_declarations_dc : forall cap id name i j kt, KernelType_is_assemble kt = true ->
  option_map sb_lines (AppendOutput_write_declarations cap (MkAppendOutput (MkTensor id name [i; j] [Mode_dense; Mode_compressed]) 0) kt)
  = Some (decl_level_stmts name 1 (Add (Multiply one (dimension_name i)) one) (default_array_size cap)
          ++ [decl_ptr_stmt id 1] ++ decl_vals_stmts name (default_array_size cap))%list.
Proof. exact GenAppend_equiv.gen_declarations_dc. Qed.
Print Assumptions TIE_append_declarations_dc.

Theorem TIE_append_declarations_cc : forall cap id name i j kt, KernelType_is_assemble kt = true ->
  option_map sb_lines (AppendOutput_write_declarations cap (MkAppendOutput (MkTensor id name [i; j] [Mode_compressed; Mode_compressed]) 0) kt)
  = Some (decl_level_stmts name 0 (Add one one) (default_array_size cap) ++ [decl_ptr_stmt id 0]
          ++ decl_level_stmts name 1 (default_array_size cap) (default_array_size cap) ++ [decl_ptr_stmt id 1]
          ++ decl_vals_stmts name (default_array_size cap))%list.
Proof. exact GenAppend_equiv.gen_declarations_cc. Qed.
Print Assumptions TIE_append_declarations_cc.

Theorem TIE_append_cleanup_c : forall id name ix kt, KernelType_is_assemble kt = true ->
  option_map sb_lines (AppendOutput_write_cleanup (MkAppendOutput (MkTensor id name [ix] [Mode_compressed]) 0) kt)
  = Some (cleanup_level_stmts id name 0 None ++ cleanup_vals_stmts name (Some (Add (layer_pointer id 0) one)))%list.
Proof. exact GenAppend_equiv.gen_cleanup_c. Qed.
Print Assumptions TIE_append_cleanup_c.

Theorem TIE_append_cleanup_cc : forall id name i j kt, KernelType_is_assemble kt = true ->
  option_map sb_lines (AppendOutput_write_cleanup (MkAppendOutput (MkTensor id name [i; j] [Mode_compressed; Mode_compressed]) 0) kt)
  = Some (cleanup_level_stmts id name 0 None ++ cleanup_level_stmts id name 1 (Some (layer_pointer id 0))
          ++ cleanup_vals_stmts name (Some (Add (layer_pointer id 1) one)))%list.
Proof. exact GenAppend_equiv.gen_cleanup_cc. Qed.
Print Assumptions TIE_append_cleanup_cc.

Theorem TIE_append_cleanup_cd : forall id name i j kt, KernelType_is_assemble kt = true ->
  option_map sb_lines (AppendOutput_write_cleanup (MkAppendOutput (MkTensor id name [i; j] [Mode_compressed; Mode_dense]) 0) kt)
  = Some (cleanup_level_stmts id name 0 None
          ++ cleanup_vals_stmts name (Some (Multiply (Add (layer_pointer id 0) one) (dimension_name j))))%list.
Proof. exact GenAppend_equiv.gen_cleanup_cd. Qed.
Print Assumptions TIE_append_cleanup_cd.

Theorem TIE_append_cleanup_compute : forall o, AppendOutput_write_cleanup o KernelType_compute
  = Some (MkSB [] (Some ("Assembling output tensor " ++ Tensor_name (AppendOutput_output o))%string)).
Proof. exact GenAppend_equiv.gen_cleanup_compute. Qed.
Print Assumptions TIE_append_cleanup_compute.

(** ** refinement on the IR abstract machine *)

Theorem TIE_append_grow_double : forall n st m mz tm capv arrv ety blk B st' tr,
  capv <> arrv -> buf_at st capv arrv ety blk B -> eval st m = Ok (VInt mz, tm) ->
  exec (S (S (S n))) (grow_stmt m capv arrv ety (double_of capv)) st = Normal st' tr ->
  exists blk', buf_at st' capv arrv ety blk' (grow_double B mz)
               /\ same_except st st' [capv; arrv] [blk] /\ (blk' = blk \/ blk' = next_blk st).
Proof. exact GenAppend_equiv.exec_grow_double. Qed.
Print Assumptions TIE_append_grow_double.

Theorem TIE_append_grow_max : forall n st m mz tm capv arrv ety blk B st' tr,
  capv <> arrv -> buf_at st capv arrv ety blk B -> eval st m = Ok (VInt mz, tm) ->
  exec (S (S (S n))) (grow_stmt m capv arrv ety (max_of capv m)) st = Normal st' tr ->
  exists blk', buf_at st' capv arrv ety blk' (grow_max B mz)
               /\ same_except st st' [capv; arrv] [blk] /\ (blk' = blk \/ blk' = next_blk st).
Proof. exact GenAppend_equiv.exec_grow_max. Qed.
Print Assumptions TIE_append_grow_max.

Theorem TIE_append_crd_assembly_refines : forall n st N ix c pb cb L st' tr,
  names_distinct N [ix] -> level_at st N pb cb L -> ivar st ix c ->
  exec (S (S (S (S n)))) (crd_assembly_stmt N ix) st = Normal st' tr ->
  exists L' cb', crd_assembly L c = Some L' /\ level_at st' N pb cb' L' /\ ivar st' ix c
                 /\ same_except st st' [n_crdcap N; n_crd N] [cb] /\ (cb' = cb \/ cb' = next_blk st).
Proof. exact GenAppend_equiv.crd_assembly_refines. Qed.
Print Assumptions TIE_append_crd_assembly_refines.

Theorem TIE_append_append_refines : forall n st N ix c pb cb L st' tr,
  names_distinct N [ix] -> level_at st N pb cb L -> ivar st ix c ->
  exec (S (S (S (S (S n))))) (append_stmt N ix) st = Normal st' tr ->
  exists L' cb', append L c = Some L' /\ level_at st' N pb cb' L' /\ ivar st' ix c.
Proof. exact GenAppend_equiv.append_refines. Qed.
Print Assumptions TIE_append_append_refines.

Example TIE_append_names_distinct_example :
  names_distinct (names_of (MkTensor "A" "A" ["i"%string] [Mode_compressed]) 0) ["i"%string].
Proof. exact GenAppend_equiv.names_distinct_example. Qed.

Theorem TIE_append_pos_assembly_refines : forall n st N parent pp tp pb cb L st' tr,
  names_distinct N [] -> level_at st N pb cb L -> eval st parent = Ok (VInt pp, tp) ->
  exec (S (S n)) (pos_assembly_stmt N parent) st = Normal st' tr ->
  exists L', pos_assembly L pp = Some L' /\ level_at st' N pb cb L' /\ same_except st st' [] [pb].
Proof. exact GenAppend_equiv.pos_assembly_refines. Qed.
Print Assumptions TIE_append_pos_assembly_refines.

Theorem TIE_append_pos_allocation_double_refines : forall n tl st pp blk B st' tr,
  alloc_capv tl [] <> alloc_arrv tl [] ->
  ivar st (vname (layer_pointer (Tensor_id (TensorLayer_tensor tl)) (TensorLayer_layer tl))) pp ->
  buf_at st (alloc_capv tl []) (alloc_arrv tl []) (alloc_ety tl []) blk B ->
  exec (S (S (S (S n)))) (pos_allocation_stmt tl []) st = Normal st' tr ->
  exists blk', buf_at st' (alloc_capv tl []) (alloc_arrv tl []) (alloc_ety tl []) blk'
                 (grow_double B (pp + alloc_bonus tl []))
               /\ same_except st st' [alloc_capv tl []; alloc_arrv tl []] [blk].
Proof. exact GenAppend_equiv.pos_allocation_double_refines. Qed.
Print Assumptions TIE_append_pos_allocation_double_refines.

Theorem TIE_append_pos_allocation_max_refines : forall n tl d dims st pp D tD blk B st' tr,
  alloc_capv tl (d :: dims) <> alloc_arrv tl (d :: dims) ->
  ivar st (vname (layer_pointer (Tensor_id (TensorLayer_tensor tl)) (TensorLayer_layer tl))) pp ->
  eval st (dims_product (d :: dims)) = Ok (VInt D, tD) ->
  buf_at st (alloc_capv tl (d :: dims)) (alloc_arrv tl (d :: dims)) (alloc_ety tl (d :: dims)) blk B ->
  exec (S (S (S (S n)))) (pos_allocation_stmt tl (d :: dims)) st = Normal st' tr ->
  exists blk', buf_at st' (alloc_capv tl (d :: dims)) (alloc_arrv tl (d :: dims)) (alloc_ety tl (d :: dims)) blk'
                 (grow_max B ((pp + 1) * D + alloc_bonus tl (d :: dims)))
               /\ same_except st st' [alloc_capv tl (d :: dims); alloc_arrv tl (d :: dims)] [blk].
Proof. exact GenAppend_equiv.pos_allocation_max_refines. Qed.
Print Assumptions TIE_append_pos_allocation_max_refines.

(** ** sequences of emitted fragments; the C02 protocol invariant *)

Theorem TIE_append_run_segs_refines : forall n N ix segs parent st tr0 c0 pb cb L st' tr,
  names_distinct N [ix] -> level_at st N pb cb L -> ivar st ix c0 ->
  run_block (S (S (S (S (S n))))) (segs_stmts N ix parent segs) st tr0 = Normal st' tr ->
  exists L' cb' c1, run_segs L parent segs = Some L' /\ level_at st' N pb cb' L' /\ ivar st' ix c1.
Proof. exact GenAppend_equiv.run_segs_refines. Qed.
Print Assumptions TIE_append_run_segs_refines.

(** C02_append_protocol_wf's invariant on machine runs of the emitted fragments.  PARTIAL with respect to
    C02_append_protocol_wf: parent kind PFixed only (no pos reallocation in between), declarations and
    cleanup excluded (the initial state is assumed to read as a model state satisfying [inv]), and the
    coordinates come from the straight-line driver [segs_stmts], not from the generated loops. *)
Theorem TIE_append_protocol_inv_partial : forall n N ix segs st tr0 c0 pb cb L S0 st' tr,
  names_distinct N [ix] -> level_at st N pb cb L -> ivar st ix c0 ->
  inv L S0 -> zlen S0 + zlen segs + 1 <= zlen (b_arr (s_pos L)) ->
  run_block (S (S (S (S (S n))))) (segs_stmts N ix (zlen S0) segs) st tr0 = Normal st' tr ->
  exists L' cb', level_at st' N pb cb' L' /\ inv L' (S0 ++ segs) /\ run_segs L (zlen S0) segs = Some L'.
Proof. exact GenAppend_protocol.emitted_protocol_inv. Qed.
Print Assumptions TIE_append_protocol_inv_partial.
