(** TIE "append": the output-writing IR emitters regenerated from the source (gen/AppendGen.v:
    iteration_graph/_write_sparse_ir.py, outputs/_append.py, outputs/_bucket.py and the ir/ast.py helper
    methods they use) perform on the IR abstract machine the transitions of model/Append.v.
    Notes: design.d/TIE_append.md. *)

From Coq Require Import ZArith Bool List String FMapPositive.
From TV Require Import spec.Num spec.Storage spec.PyLib gen.IRAst gen.Names spec.IRSem gen.AppendGen model.Append
  proofs.AppendProofs proofs.GenAppend_machine proofs.GenAppend_equiv proofs.GenAppend_protocol.
Import ListNotations.
Open Scope Z_scope.

(** ** what the regenerated emitters return *)

Theorem TIE_append_crd_assembly_shape : forall (tl : TensorLayer) (ix : string),
  py_getitem (Tensor_indexes (TensorLayer_tensor tl)) (TensorLayer_layer tl) = Some ix ->
  option_map sb_finalize (write_crd_assembly tl)
  = Some (crd_assembly_stmt (names_of (TensorLayer_tensor tl) (TensorLayer_layer tl)) ix).
Proof. exact GenAppend_equiv.gen_crd_assembly_shape. Qed.
Print Assumptions TIE_append_crd_assembly_shape.

Theorem TIE_append_crd_assembly_none : forall tl : TensorLayer,
  py_getitem (Tensor_indexes (TensorLayer_tensor tl)) (TensorLayer_layer tl) = None ->
  write_crd_assembly tl = None.
Proof. exact GenAppend_equiv.gen_crd_assembly_none. Qed.
Print Assumptions TIE_append_crd_assembly_none.

Theorem TIE_append_pos_assembly_shape : forall tl : TensorLayer,
  sb_finalize (write_pos_assembly tl)
  = pos_assembly_stmt (names_of (TensorLayer_tensor tl) (TensorLayer_layer tl))
      (previous_layer_pointer (Tensor_id (TensorLayer_tensor tl)) (TensorLayer_layer tl)).
Proof. exact GenAppend_equiv.gen_pos_assembly_shape. Qed.
Print Assumptions TIE_append_pos_assembly_shape.

Theorem TIE_append_pos_allocation_shape : forall tl : TensorLayer,
  option_map sb_finalize (write_pos_allocation tl)
  = match dense_scan tl with
    | Some (dims, _) => Some (pos_allocation_stmt tl dims)
    | None => None
    end.
Proof. exact GenAppend_equiv.gen_pos_allocation_shape. Qed.
Print Assumptions TIE_append_pos_allocation_shape.


(** ** write_declarations / write_cleanup: closed forms for mode strings of order 1 and 2 *)

Theorem TIE_append_declarations_c : forall cap id name ix kt, KernelType_is_assemble kt = true ->
  option_map sb_lines (AppendOutput_write_declarations cap (MkAppendOutput (MkTensor id name [ix] [Mode_compressed]) 0) kt)
  = Some (decl_level_stmts name 0 (Add one one) (default_array_size cap) ++ [decl_ptr_stmt id 0]
          ++ decl_vals_stmts name (default_array_size cap))%list.
Proof. exact GenAppend_equiv.gen_declarations_c. Qed.
Print Assumptions TIE_append_declarations_c.

Theorem TIE_append_declarations_compute : forall cap id name ix,
  option_map sb_lines (AppendOutput_write_declarations cap (MkAppendOutput (MkTensor id name [ix] [Mode_compressed]) 0) KernelType_compute)
  = Some [decl_ptr_stmt id 0].
Proof. exact GenAppend_equiv.gen_declarations_compute. Qed.
Print Assumptions TIE_append_declarations_compute.

Theorem TIE_append_declarations_dc : forall cap id name i j kt, KernelType_is_assemble kt = true ->
  option_map sb_lines (AppendOutput_write_declarations cap (MkAppendOutput (MkTensor id name [i; j] [Mode_dense; Mode_compressed]) 0) kt)
  = Some (decl_level_stmts name 1 (Add (Multiply one (dimension_name i)) one) (default_array_size cap)
          ++ [decl_ptr_stmt id 1] ++ decl_vals_stmts name (default_array_size cap))%list.
Proof. exact GenAppend_equiv.gen_declarations_dc. Qed.
Print Assumptions TIE_append_declarations_dc.

Theorem TIE_append_declarations_cc : forall cap id name i j kt, KernelType_is_assemble kt = true ->
  option_map sb_lines (AppendOutput_write_declarations cap (MkAppendOutput (MkTensor id name [i; j] [Mode_compressed; Mode_compressed]) 0) kt)
  = Some (decl_level_stmts name 0 (Add one one) (default_array_size cap) ++ [decl_ptr_stmt id 0]
          ++ decl_level_stmts name 1 (default_array_size cap) (default_array_size cap) ++ [decl_ptr_stmt id 1]
          ++ decl_vals_stmts name (default_array_size cap))%list.
Proof. exact GenAppend_equiv.gen_declarations_cc. Qed.
Print Assumptions TIE_append_declarations_cc.

Theorem TIE_append_cleanup_c : forall id name ix kt, KernelType_is_assemble kt = true ->
  option_map sb_lines (AppendOutput_write_cleanup (MkAppendOutput (MkTensor id name [ix] [Mode_compressed]) 0) kt)
  = Some (cleanup_level_stmts id name 0 None ++ cleanup_vals_stmts name (Some (Add (layer_pointer id 0) one)))%list.
Proof. exact GenAppend_equiv.gen_cleanup_c. Qed.
Print Assumptions TIE_append_cleanup_c.

Theorem TIE_append_cleanup_cc : forall id name i j kt, KernelType_is_assemble kt = true ->
  option_map sb_lines (AppendOutput_write_cleanup (MkAppendOutput (MkTensor id name [i; j] [Mode_compressed; Mode_compressed]) 0) kt)
  = Some (cleanup_level_stmts id name 0 None ++ cleanup_level_stmts id name 1 (Some (layer_pointer id 0))
          ++ cleanup_vals_stmts name (Some (Add (layer_pointer id 1) one)))%list.
Proof. exact GenAppend_equiv.gen_cleanup_cc. Qed.
Print Assumptions TIE_append_cleanup_cc.

Theorem TIE_append_cleanup_cd : forall id name i j kt, KernelType_is_assemble kt = true ->
  option_map sb_lines (AppendOutput_write_cleanup (MkAppendOutput (MkTensor id name [i; j] [Mode_compressed; Mode_dense]) 0) kt)
  = Some (cleanup_level_stmts id name 0 None
          ++ cleanup_vals_stmts name (Some (Multiply (Add (layer_pointer id 0) one) (dimension_name j))))%list.
Proof. exact GenAppend_equiv.gen_cleanup_cd. Qed.
Print Assumptions TIE_append_cleanup_cd.

Theorem TIE_append_cleanup_compute : forall o, AppendOutput_write_cleanup o KernelType_compute
  = Some (MkSB [] (Some ("Assembling output tensor " ++ Tensor_name (AppendOutput_output o))%string)).
Proof. exact GenAppend_equiv.gen_cleanup_compute. Qed.
Print Assumptions TIE_append_cleanup_compute.

(** ** refinement on the IR abstract machine *)

Theorem TIE_append_grow_double : forall n st m mz tm capv arrv ety blk B st' tr,
  capv <> arrv -> buf_at st capv arrv ety blk B -> eval st m = Ok (VInt mz, tm) ->
  exec (S (S (S n))) (grow_stmt m capv arrv ety (double_of capv)) st = Normal st' tr ->
  exists blk', buf_at st' capv arrv ety blk' (grow_double B mz)
               /\ same_except st st' [capv; arrv] [blk] /\ (blk' = blk \/ blk' = next_blk st).
Proof. exact GenAppend_equiv.exec_grow_double. Qed.
Print Assumptions TIE_append_grow_double.

Theorem TIE_append_grow_max : forall n st m mz tm capv arrv ety blk B st' tr,
  capv <> arrv -> buf_at st capv arrv ety blk B -> eval st m = Ok (VInt mz, tm) ->
  exec (S (S (S n))) (grow_stmt m capv arrv ety (max_of capv m)) st = Normal st' tr ->
  exists blk', buf_at st' capv arrv ety blk' (grow_max B mz)
               /\ same_except st st' [capv; arrv] [blk] /\ (blk' = blk \/ blk' = next_blk st).
Proof. exact GenAppend_equiv.exec_grow_max. Qed.
Print Assumptions TIE_append_grow_max.

Theorem TIE_append_crd_assembly_refines : forall n st N ix c pb cb L st' tr,
  names_distinct N [ix] -> level_at st N pb cb L -> ivar st ix c ->
  exec (S (S (S (S n)))) (crd_assembly_stmt N ix) st = Normal st' tr ->
  exists L' cb', crd_assembly L c = Some L' /\ level_at st' N pb cb' L' /\ ivar st' ix c
                 /\ same_except st st' [n_crdcap N; n_crd N] [cb] /\ (cb' = cb \/ cb' = next_blk st).
Proof. exact GenAppend_equiv.crd_assembly_refines. Qed.
Print Assumptions TIE_append_crd_assembly_refines.

Theorem TIE_append_append_refines : forall n st N ix c pb cb L st' tr,
  names_distinct N [ix] -> level_at st N pb cb L -> ivar st ix c ->
  exec (S (S (S (S (S n))))) (append_stmt N ix) st = Normal st' tr ->
  exists L' cb', append L c = Some L' /\ level_at st' N pb cb' L' /\ ivar st' ix c.
Proof. exact GenAppend_equiv.append_refines. Qed.
Print Assumptions TIE_append_append_refines.

Example TIE_append_names_distinct_example :
  names_distinct (names_of (MkTensor "A" "A" ["i"%string] [Mode_compressed]) 0) ["i"%string].
Proof. exact GenAppend_equiv.names_distinct_example. Qed.

Theorem TIE_append_pos_assembly_refines : forall n st N parent pp tp pb cb L st' tr,
  names_distinct N [] -> level_at st N pb cb L -> eval st parent = Ok (VInt pp, tp) ->
  exec (S (S n)) (pos_assembly_stmt N parent) st = Normal st' tr ->
  exists L', pos_assembly L pp = Some L' /\ level_at st' N pb cb L' /\ same_except st st' [] [pb].
Proof. exact GenAppend_equiv.pos_assembly_refines. Qed.
Print Assumptions TIE_append_pos_assembly_refines.

Theorem TIE_append_pos_allocation_double_refines : forall n tl st pp blk B st' tr,
  alloc_capv tl [] <> alloc_arrv tl [] ->
  ivar st (vname (layer_pointer (Tensor_id (TensorLayer_tensor tl)) (TensorLayer_layer tl))) pp ->
  buf_at st (alloc_capv tl []) (alloc_arrv tl []) (alloc_ety tl []) blk B ->
  exec (S (S (S (S n)))) (pos_allocation_stmt tl []) st = Normal st' tr ->
  exists blk', buf_at st' (alloc_capv tl []) (alloc_arrv tl []) (alloc_ety tl []) blk'
                 (grow_double B (pp + alloc_bonus tl []))
               /\ same_except st st' [alloc_capv tl []; alloc_arrv tl []] [blk].
Proof. exact GenAppend_equiv.pos_allocation_double_refines. Qed.
Print Assumptions TIE_append_pos_allocation_double_refines.

Theorem TIE_append_pos_allocation_max_refines : forall n tl d dims st pp D tD blk B st' tr,
  alloc_capv tl (d :: dims) <> alloc_arrv tl (d :: dims) ->
  ivar st (vname (layer_pointer (Tensor_id (TensorLayer_tensor tl)) (TensorLayer_layer tl))) pp ->
  eval st (dims_product (d :: dims)) = Ok (VInt D, tD) ->
  buf_at st (alloc_capv tl (d :: dims)) (alloc_arrv tl (d :: dims)) (alloc_ety tl (d :: dims)) blk B ->
  exec (S (S (S (S n)))) (pos_allocation_stmt tl (d :: dims)) st = Normal st' tr ->
  exists blk', buf_at st' (alloc_capv tl (d :: dims)) (alloc_arrv tl (d :: dims)) (alloc_ety tl (d :: dims)) blk'
                 (grow_max B ((pp + 1) * D + alloc_bonus tl (d :: dims)))
               /\ same_except st st' [alloc_capv tl (d :: dims); alloc_arrv tl (d :: dims)] [blk].
Proof. exact GenAppend_equiv.pos_allocation_max_refines. Qed.
Print Assumptions TIE_append_pos_allocation_max_refines.

(** ** sequences of emitted fragments; the C02 protocol invariant *)

Theorem TIE_append_run_segs_refines : forall n N ix segs parent st tr0 c0 pb cb L st' tr,
  names_distinct N [ix] -> level_at st N pb cb L -> ivar st ix c0 ->
  run_block (S (S (S (S (S n))))) (segs_stmts N ix parent segs) st tr0 = Normal st' tr ->
  exists L' cb' c1, run_segs L parent segs = Some L' /\ level_at st' N pb cb' L' /\ ivar st' ix c1.
Proof. exact GenAppend_equiv.run_segs_refines. Qed.
Print Assumptions TIE_append_run_segs_refines.

(** C02_append_protocol_wf's invariant on machine runs of the emitted fragments.  PARTIAL with respect to
    C02_append_protocol_wf: parent kind PFixed only (no pos reallocation in between), declarations and
    cleanup excluded (the initial state is assumed to read as a model state satisfying [inv]), and the
    coordinates come from the straight-line driver [segs_stmts], not from the generated loops. *)
Theorem TIE_append_protocol_inv_partial : forall n N ix segs st tr0 c0 pb cb L S0 st' tr,
  names_distinct N [ix] -> level_at st N pb cb L -> ivar st ix c0 ->
  inv L S0 -> zlen S0 + zlen segs + 1 <= zlen (b_arr (s_pos L)) ->
  run_block (S (S (S (S (S n))))) (segs_stmts N ix (zlen S0) segs) st tr0 = Normal st' tr ->
  exists L' cb', level_at st' N pb cb' L' /\ inv L' (S0 ++ segs) /\ run_segs L (zlen S0) segs = Some L'.
Proof. exact GenAppend_protocol.emitted_protocol_inv. Qed.
Print Assumptions TIE_append_protocol_inv_partial.

(** ** second round: every mode list; declarations and cleanup on the machine; the whole life of a
       compressed output vector from the harness' initial state; compute kernels; bucket outputs *)

From TV Require Import proofs.GenAppend_decl proofs.Certs.
From TV Require proofs.Certs2Store spec.IRRun.

Theorem TIE_append_declarations_all : forall cap ao kt, KernelType_is_assemble kt = true ->
  let t := AppendOutput_output ao in
  option_map sb_lines (AppendOutput_write_declarations cap ao kt)
  = obind (decl_layers cap t 0 (Tensor_modes t) true)
          (fun '(l, ad) => Some (l ++ decl_vals_stmts (Tensor_name t) (vals_size_of cap t ad))%list).
Proof. exact GenAppend_decl.gen_declarations_all. Qed.
Print Assumptions TIE_append_declarations_all.

Theorem TIE_append_cleanup_all : forall ao kt, KernelType_is_assemble kt = true ->
  let t := AppendOutput_output ao in
  option_map sb_lines (AppendOutput_write_cleanup ao kt)
  = obind (cleanup_layers t 0 (Tensor_modes t) (IntegerLiteral 1) (IntegerLiteral 1) true)
          (fun '(l, _, pd, ad) => Some (l ++ cleanup_vals_stmts (Tensor_name t) (if ad then None else Some pd))%list).
Proof. exact GenAppend_decl.gen_cleanup_all. Qed.
Print Assumptions TIE_append_cleanup_all.

Theorem TIE_append_declarations_compute_all : forall cap ao,
  option_map sb_lines (AppendOutput_write_declarations cap ao KernelType_compute)
  = Some (compressed_ptr_decls (Tensor_id (AppendOutput_output ao)) 0 (Tensor_modes (AppendOutput_output ao))).
Proof. exact GenAppend_decl.gen_declarations_compute_all. Qed.
Print Assumptions TIE_append_declarations_compute_all.

(** link to CERT_compute_store / CERT_compute: what AppendOutput contributes to a compute kernel
    passes the syntactic conditions of the certificates, for every output format *)
Theorem TIE_append_compute_fragments_certified : forall cap ao d c,
  AppendOutput_write_declarations cap ao KernelType_compute = Some d ->
  AppendOutput_write_cleanup ao KernelType_compute = Some c ->
  no_alloc (sb_finalize d) = true /\ no_field_store (sb_finalize d) = true
  /\ Certs2Store.store_vars (sb_finalize d) = []
  /\ no_alloc (sb_finalize c) = true /\ no_field_store (sb_finalize c) = true
  /\ Certs2Store.store_vars (sb_finalize c) = [].
Proof. exact GenAppend_decl.gen_compute_fragments_certified. Qed.
Print Assumptions TIE_append_compute_fragments_certified.

Theorem TIE_append_decl_level_refines : forall n st tr0 N ps_e ps tps cap st' tr,
  names_distinct N [] ->
  eval st ps_e = Ok (VInt ps, tps) -> is_alloc_form ps_e = false ->
  declared_ptr st (n_pos N) TInteger -> declared_ptr st (n_crd N) TInteger ->
  run_block (S n) (decl_level_block N ps_e cap) st tr0 = Normal st' tr ->
  exists L pb cb, decl_level ps (cap_value cap) = Some L
            /\ level_at st' N pb cb L
            /\ same_except st st' [n_poscap N; n_pos N; n_crdcap N; n_crd N; n_ptr N] []
            /\ (cb < next_blk st')%positive /\ tensors st' = tensors st.
Proof. exact GenAppend_decl.decl_level_refines. Qed.
Print Assumptions TIE_append_decl_level_refines.

Theorem TIE_append_cleanup_rest_refines : forall n st tr0 N name out i pb cb L st' tr,
  names_distinct N [name] -> level_at st N pb cb L -> tensor_var st name out ->
  run_block (S n) (cleanup_rest_block N name i) st tr0 = Normal st' tr ->
  exists cb',
    level_at st' N pb cb' (mkL (s_pos L) (mkBuf (b_cap (s_crd L)) (realloc (b_arr (s_crd L)) (s_cur L))) (s_cur L))
    /\ out_level st' out i pb cb'
    /\ (forall ts, PM.find out (tensors st) = Some ts ->
        exists ts', PM.find out (tensors st') = Some ts' /\ t_vals ts' = t_vals ts /\ t_dims ts' = t_dims ts
                    /\ List.length (t_idx ts') = List.length (t_idx ts))
    /\ same_except st st' [n_crd N] [cb] /\ cb' = next_blk st.
Proof. exact GenAppend_decl.cleanup_rest_refines. Qed.
Print Assumptions TIE_append_cleanup_rest_refines.

Theorem TIE_append_pos_shrink_refines : forall n st N prev_e prev tp pb cb L st' tr,
  names_distinct N [] -> level_at st N pb cb L -> eval st prev_e = Ok (VInt prev, tp) ->
  exec (S n) (Assignment (Var (n_pos N)) (ArrayReallocate (Var (n_pos N)) TInteger (Add prev_e (IntegerLiteral 1)))) st
    = Normal st' tr ->
  level_at st' N (next_blk st) cb
    (mkL (mkBuf (b_cap (s_pos L)) (realloc (b_arr (s_pos L)) (prev + 1))) (s_crd L) (s_cur L))
  /\ same_except st st' [n_pos N] [pb] /\ tensors st' = tensors st.
Proof. exact GenAppend_decl.pos_shrink_refines. Qed.
Print Assumptions TIE_append_pos_shrink_refines.

Theorem TIE_append_cleanup_vals_refines : forall n st tr0 valscap valsv name out padded c vb B st' tr,
  valscap <> valsv -> name <> valsv -> buf_at st valscap valsv TFloat vb B -> tensor_var st name out ->
  (forall v t, eval st padded = Ok (v, t) -> v = VInt c) ->
  run_block (S n) (cleanup_vals_block valsv name (Some padded)) st tr0 = Normal st' tr ->
  buf_at st' valscap valsv TFloat (next_blk st) (mkBuf (b_cap B) (realloc (b_arr B) c))
  /\ (forall ts, PM.find out (tensors st) = Some ts ->
      PM.find out (tensors st') = Some (mkTensorS (t_dims ts) (t_idx ts) (VPtr (next_blk st) 0) true))
  /\ same_except st st' [valsv] [vb] /\ 0 <= c.
Proof. exact GenAppend_decl.cleanup_vals_refines. Qed.
Print Assumptions TIE_append_cleanup_vals_refines.

(** From the harness' initial state ([IRRun.init_state]: output struct with NULL arrays; the state in which
    [IRSem.call] starts the body: [vector_init_is_call_state]): unpack (transcribed), the REGENERATED
    declarations, the coordinates of a segment through the emitted append fragments and the emitted pos
    assembly, the REGENERATED cleanup -- the output struct then points to two live blocks of exactly the
    lengths and contents [Append.run_level] returns, for every initial capacity >= 1 (hook value or the
    default 1024*1024). *)
Theorem TIE_append_vector_life : forall n cap id name ix seg dims d c st' tr,
  let t := vector_tensor id name ix in
  let N := names_of t 0 in
  names_distinct N [ix; name; vname (vals_capacity_name name); vname (vals_name name)] ->
  1 <= cap_value cap ->
  AppendOutput_write_declarations cap (MkAppendOutput t 0) KernelType_assemble = Some d ->
  AppendOutput_write_cleanup (MkAppendOutput t 0) KernelType_assemble = Some c ->
  run_block (S (S (S (S (S (S n)))))) (vector_body id name ix seg d c) (vector_init name dims) [] = Normal st' tr ->
  exists pb cb ts,
    run_level PFixed (cap_value cap) [mkVisit [seg] true] = Some ([0; zlen seg], seg)
    /\ PM.find 1%positive (tensors st') = Some ts
    /\ t_idx ts = [(VPtr pb 0, VPtr cb 0)]
    /\ block_is st' pb [0; zlen seg] /\ block_is st' cb seg.
Proof. exact GenAppend_decl.vector_life. Qed.
Print Assumptions TIE_append_vector_life.

(** ... which C02_append_protocol_wf says is a well-formed compressed level when the segment is sorted and
    in range.  PARTIAL with respect to "every kernel": output format "s" (one compressed level, parent kind
    PFixed), one segment, coordinates from the straight-line driver, not from the generated loops. *)
Theorem TIE_append_vector_life_wf_partial : forall n cap id name ix seg dims d c dimsize st' tr,
  let t := vector_tensor id name ix in
  let N := names_of t 0 in
  names_distinct N [ix; name; vname (vals_capacity_name name); vname (vals_name name)] ->
  1 <= cap_value cap -> seg_okb dimsize seg = true ->
  AppendOutput_write_declarations cap (MkAppendOutput t 0) KernelType_assemble = Some d ->
  AppendOutput_write_cleanup (MkAppendOutput t 0) KernelType_assemble = Some c ->
  run_block (S (S (S (S (S (S n)))))) (vector_body id name ix seg d c) (vector_init name dims) [] = Normal st' tr ->
  exists pb cb ts,
    PM.find 1%positive (tensors st') = Some ts /\ t_idx ts = [(VPtr pb 0, VPtr cb 0)]
    /\ block_is st' pb [0; zlen seg] /\ block_is st' cb seg
    /\ wf_compressedb 1 dimsize [0; zlen seg] seg = true.
Proof. exact GenAppend_decl.vector_life_wf. Qed.
Print Assumptions TIE_append_vector_life_wf_partial.

Example TIE_append_vector_names_distinct_example :
  names_distinct (names_of (vector_tensor "a" "a" "i") 0) ["i"%string; "a"%string; vname (vals_capacity_name "a"); vname (vals_name "a")].
Proof.
  unfold names_distinct. vm_compute.
  repeat (constructor; [cbn [In]; intuition discriminate|]). constructor.
Qed.

(** ** bucket outputs: closed forms *)

Theorem TIE_append_bucket_declarations_shape : forall bo rhs dims,
  BucketOutput_dimension_names bo = Some dims ->
  option_map sb_finalize (BucketOutput_write_declarations bo rhs)
  = Some (bucket_init_stmt (BucketOutput_name bo) (BucketOutput_loop_name bo) rhs dims).
Proof. exact GenAppend_decl.gen_bucket_declarations_shape. Qed.
Print Assumptions TIE_append_bucket_declarations_shape.

Theorem TIE_append_bucket_assignment_shape : forall bo rhs kt dims idxs e,
  BucketOutput_dimension_names bo = Some dims ->
  omap (fun layer => obind (py_getitem (Tensor_indexes (BucketOutput_output bo)) layer) (fun x => Some (Var x)))
       (BucketOutput_layers bo) = Some idxs ->
  BucketOutput_ravel_indexes bo dims idxs = Some e ->
  option_map sb_finalize (BucketOutput_write_assignment bo rhs kt)
  = Some (Block [Assignment (ArrayIndex (BucketOutput_name bo) e) (Add (ArrayIndex (BucketOutput_name bo) e) rhs)] None).
Proof. exact GenAppend_decl.gen_bucket_assignment_shape. Qed.
Print Assumptions TIE_append_bucket_assignment_shape.
