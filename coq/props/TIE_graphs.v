(** TIE "graphs": the iteration-graph enumeration regenerated from
    /repo/src/tensora/desugar/_to_iteration_graphs.py (gen/IterGraphs.v) against the hand model
    model/Graphs.v.  Statements only; proofs in proofs/GenGraphs_equiv.v; reading of generators /
    exceptions / itertools in model/GraphsIter.v; notes in design.d/TIE_graphs.md. *)
From Coq Require Import ZArith List Bool String.
From TV Require Import spec.Num spec.PyLib model.GraphsIter gen.ExhaustAst gen.Desugar gen.IterGraphs.
From TV Require model.Graphs model.OutputOrder.
From TV Require proofs.OutputOrderWalk.
From TV Require Import proofs.GenGraphs_total.
Import ListNotations.
Module M := TV.model.Graphs.
Module O := TV.model.OutputOrder.
Module W := TV.proofs.OutputOrderWalk.

(** legal_iteration_orders: same orders, same order of enumeration, never raises *)
Theorem TIE_graphs_legal_iteration_orders_equiv : forall f,
  legal_iteration_orders (up_format f) = (map upn (M.legal_iteration_orders f), None).
Proof. exact gen_legal_iteration_orders_equiv. Qed.
Print Assumptions TIE_graphs_legal_iteration_orders_equiv.

(** the order-merging core: all interleavings, in the same order *)
Theorem TIE_graphs_merge_add_equiv : forall fval l r,
  merge_add (up_graph fval l) (up_graph fval r) = (map (up_graph fval) (M.merge_add l r), None).
Proof. exact gen_merge_add_equiv. Qed.
Print Assumptions TIE_graphs_merge_add_equiv.

Theorem TIE_graphs_merge_multiply_equiv : forall fval l r,
  merge_multiply (up_graph fval l) (up_graph fval r) = (map (up_graph fval) (M.merge_multiply l r), None).
Proof. exact gen_merge_multiply_equiv. Qed.
Print Assumptions TIE_graphs_merge_multiply_equiv.

Theorem TIE_graphs_contains_contraction_equiv : forall fval e,
  contains_contraction (up_dexpr fval e) = M.contains_contraction e.
Proof. exact gen_contains_contraction_equiv. Qed.
Print Assumptions TIE_graphs_contains_contraction_equiv.

(** the filters: on a target chain whose layers are in [output_layers] and have a mode *)
Theorem TIE_graphs_pending_compressed_equiv : forall fval ol bottom tgt,
  tgt_ok ol tgt ->
  target_has_pending_compressed (tgt_graph fval bottom tgt) ol = POk (M.pending_compressed tgt).
Proof. exact gen_pending_compressed_equiv. Qed.
Print Assumptions TIE_graphs_pending_compressed_equiv.

(** [target_order_supported] (commit 601f2d3) is not in the hand model; [target_supported] is its
    reading on the model's representation of a target chain (proofs/GenGraphs_equiv.v) *)
Theorem TIE_graphs_target_order_supported_equiv : forall fval ol bottom tgt,
  tgt_ok ol tgt ->
  target_order_supported (tgt_graph fval bottom tgt) ol = POk (target_supported tgt).
Proof. exact gen_target_order_supported_equiv. Qed.
Print Assumptions TIE_graphs_target_order_supported_equiv.

Theorem TIE_graphs_simplify_add_equiv : forall fval name ts,
  simplify_add (S (ig_graph_size (IgSumNode sum_name (map (up_graph fval) ts))))
               (IgSumNode sum_name (map (up_graph fval) ts))
  = POk (up_graph fval (M.simplify_add name ts)).
Proof. exact gen_simplify_add_equiv. Qed.
Print Assumptions TIE_graphs_simplify_add_equiv.

Theorem TIE_graphs_merge_assignment_equiv : forall fval ol bottom e tgt, tgt_ok ol tgt ->
  merge_assignment (tgt_graph fval bottom tgt) (up_graph fval e) ol
  = (map (up_graph fval) (M.merge_assignment e tgt), None).
Proof. exact gen_merge_assignment_equiv. Qed.
Print Assumptions TIE_graphs_merge_assignment_equiv.

(** to_iteration_graphs_tensor: same chains in the same order; DiagonalAccessError exactly when the
    model says RDiagonal; another exception (KeyError / IndexError), raised before anything is
    yielded, exactly when the model says RIllFormed *)
Theorem TIE_graphs_tensor_graphs_equiv : forall fval t fs,
  rel fval (to_iteration_graphs_expression (up_dexpr fval (M.DTensor t)) (up_formats fs)) (M.tensor_graphs t fs).
Proof. exact gen_tensor_graphs_equiv. Qed.
Print Assumptions TIE_graphs_tensor_graphs_equiv.

(** the whole expression family (laziness of nested generators included: [M.for_both]) *)
Theorem TIE_graphs_expr_graphs_equiv : forall fval e fs c,
  rel fval (to_iteration_graphs_expression (up_dexpr fval e) (up_formats fs)) (M.expr_graphs e fs c).
Proof. exact gen_expr_graphs_equiv. Qed.
Print Assumptions TIE_graphs_expr_graphs_equiv.

(** the top level.  [to_iteration_graphs_src] (proofs/GenGraphs_equiv.v) is the model of TODAY's source:
    model/Graphs.v's to_iteration_graphs with the filter of commit 601f2d3 ([target_supported]) on the
    target chains.  [target_fmt_ok]: the output format has at least as many modes as ordering entries
    (guaranteed by Format.__post_init__). *)
Theorem TIE_graphs_to_iteration_graphs_equiv : forall fval a fs,
  target_fmt_ok a fs = true ->
  rel fval (to_iteration_graphs (up_assign fval a) (up_formats fs)) (to_iteration_graphs_src a fs).
Proof. exact to_iteration_graphs_equiv. Qed.
Print Assumptions TIE_graphs_to_iteration_graphs_equiv.

Example TIE_graphs_ex_fmt_ok :
  target_fmt_ok (M.mkDA (M.mkDT 0 "a" ["i"]) (M.DTensor (M.mkDT 1 "b" ["i"])))
                [("a", M.mkFormat [M.Compressed] [0]); ("b", M.mkFormat [M.Dense] [0])] = true.
Proof. reflexivity. Qed.

(** C08_internal_iff_first_graph_bad for the enumeration of today's source *)
Theorem TIE_graphs_internal_iff_first_graph_bad : forall a fs ks,
  generate_src a fs ks = O.InternalAppendNextOutput
  <-> (O.first_graph_bad_r a fs (to_iteration_graphs_src a fs) = true /\ ks <> []).
Proof. exact gen_internal_iff_first_graph_bad. Qed.
Print Assumptions TIE_graphs_internal_iff_first_graph_bad.

(** C08_generate_outcomes_typed_partial for the enumeration of today's source *)
Theorem TIE_graphs_generate_outcomes_typed_partial : forall a fs ks,
  O.wf_problem a fs = true -> W.typed_partial (generate_src a fs ks).
Proof. exact gen_generate_outcomes_typed_partial. Qed.
Print Assumptions TIE_graphs_generate_outcomes_typed_partial.

(** *** C08 at full strength for today's source: generation is TOTAL.
    Every graph of the filtered enumeration can be lowered (not even structurally bad) ... *)
Theorem TIE_graphs_src_graphs_not_bad : forall a fs gs modes,
  to_iteration_graphs_src a fs = M.ROk gs -> O.output_modes a fs = Some modes ->
  Forall (fun g => O.graph_bad_struct modes g = false) gs.
Proof. exact src_graphs_not_bad. Qed.
Print Assumptions TIE_graphs_src_graphs_not_bad.

(** ... so for a well-formed request the outcome is code or one of the documented refusals *)
Theorem TIE_graphs_generate_total : forall a fs ks,
  O.wf_problem a fs = true ->
  generate_src a fs ks = O.Code \/ generate_src a fs ks = O.Diagonal \/ generate_src a fs ks = O.NoKernel.
Proof. exact gen_generate_total. Qed.
Print Assumptions TIE_graphs_generate_total.

Theorem TIE_graphs_tensor_method_total : forall a fs,
  O.wf_problem a fs = true ->
  (tensor_method_src a fs = O.Code \/ tensor_method_src a fs = O.Diagonal \/ tensor_method_src a fs = O.NoKernel)
  \/ tensor_method_src a fs = O.BroadcastTarget.
Proof. exact gen_tensor_method_total. Qed.
Print Assumptions TIE_graphs_tensor_method_total.

(** instances: the witness of K-C08-1 (A(i,j,k) = B(j,i,k), A:dds, B:dss) is now a typed refusal, where the
    unfiltered hand model gives the internal error; a sparse matrix-vector product gives code *)
Example TIE_graphs_ex_k_c08_1 :
  let a := M.mkDA (M.mkDT 0 "A" ["i"; "j"; "k"]) (M.DTensor (M.mkDT 1 "B" ["j"; "i"; "k"])) in
  let fs := [("A", M.mkFormat [M.Dense; M.Dense; M.Compressed] [0; 1; 2]);
             ("B", M.mkFormat [M.Dense; M.Compressed; M.Compressed] [0; 1; 2])] in
  O.wf_problem a fs = true /\ generate_src a fs [O.Evaluate] = O.NoKernel
  /\ O.generate a fs [O.Evaluate] = O.InternalAppendNextOutput.
Proof. vm_compute. repeat split; reflexivity. Qed.

Example TIE_graphs_ex_code :
  let a := M.mkDA (M.mkDT 0 "a" ["i"])
             (M.DContract "j" (M.DMultiply (M.DTensor (M.mkDT 1 "B" ["i"; "j"])) (M.DTensor (M.mkDT 2 "c" ["j"])))) in
  let fs := [("a", M.mkFormat [M.Compressed] [0]); ("B", M.mkFormat [M.Dense; M.Compressed] [0; 1]);
             ("c", M.mkFormat [M.Dense] [0])] in
  O.wf_problem a fs = true /\ generate_src a fs [O.Assemble; O.Compute; O.Evaluate] = O.Code.
Proof. vm_compute. split; reflexivity. Qed.
