(* C13 — kernel-allocated storage is freed exactly once, after its last user.
   Statements about the protocol model model/Ownership.v (all histories, both reclamation disciplines:
   eager = true is CPython's immediate reference counting, eager = false reclaims only at gc.collect()).
   PARTIAL with respect to the running system: the model is tied to CPython / cffi / glibc by the
   interposer correspondence of tools/props/C13.py, not by proof. *)
From Coq Require Import List Arith PeanoNat.
From TV Require Import model.Ownership proofs.OwnershipThm.
Import ListNotations.

(* For every history: no operation ever uses a released array (outcome Fault); no block is released twice;
   free() is never called twice on the same address; every array reachable from a name - through a Tensor
   or through a name bound to the C structure itself - is live and has not been passed to free. *)
Theorem C13_ownership_safe : forall (eager : bool) (ops : list op),
  let t := run eager ops in
  ~ In Fault (t_outcomes t) /\
  (forall a b, In (a, b) (heap (t_state t)) -> b_status b = Live \/ b_status b = Freed 1) /\
  NoDup (t_frees t) /\
  (forall a, reaches (t_state t) a -> is_live (t_state t) a = true /\ ~ In a (t_frees t)).
Proof. exact ownership_safe. Qed.
Print Assumptions C13_ownership_safe.

(* A call (TensorMethod.__call__, before its result is bound to a name) in any reachable state calls free on
   nothing, leaves every existing block, structure and holder unchanged (so no input is freed or re-owned), and
   the holder it fills owns only blocks that did not exist before the call. *)
Theorem C13_eval_preserves_existing : forall (eager : bool) (ops : list op) (ins : list nat) (sh : shape),
  let st := t_state (run eager ops) in
  let '(st', w, fr, oc) := eval_call st ins sh in
  fr = [] /\ oc <> Fault /\
  (forall a b, In (a, b) (heap st) -> In (a, b) (heap st')) /\
  (forall s f, In (s, f) (structs st) -> In (s, f) (structs st')) /\
  (forall s h, In (s, h) (wkd st) -> In (s, h) (wkd st')) /\
  (forall s h e, In (s, h) (wkd st') -> In e h -> In (s, h) (wkd st) \/ ~ In (haddr e) (map fst (heap st))).
Proof. exact eval_preserves_existing. Qed.
Print Assumptions C13_eval_preserves_existing.

(* After gc.collect(), whatever the reclamation discipline: every kernel-allocated block is either still
   reachable from a name (live, free never called on it) or free() has been called on it exactly once. *)
Theorem C13_no_leak : forall (eager : bool) (ops : list op),
  let t := run eager (ops ++ [Collect]) in
  forall a b, In (a, b) (heap (t_state t)) -> b_kind b = Kernel ->
    (reaches (t_state t) a /\ b_status b = Live /\ count_occ Nat.eq_dec (t_frees t) a = 0) \/
    (~ reaches (t_state t) a /\ b_status b = Freed 1 /\ count_occ Nat.eq_dec (t_frees t) a = 1).
Proof. exact no_leak. Qed.
Print Assumptions C13_no_leak.

(* Under immediate reference counting the same holds after every operation, without gc.collect(). *)
Theorem C13_no_leak_refcounting : forall (ops : list op),
  let t := run true ops in
  forall a b, In (a, b) (heap (t_state t)) -> b_kind b = Kernel ->
    (reaches (t_state t) a /\ b_status b = Live /\ count_occ Nat.eq_dec (t_frees t) a = 0) \/
    (~ reaches (t_state t) a /\ b_status b = Freed 1 /\ count_occ Nat.eq_dec (t_frees t) a = 1).
Proof. exact no_leak_refcounting. Qed.
Print Assumptions C13_no_leak_refcounting.

(* The invariant: holders are aligned with structures (same key, the holder's entries own exactly the
   addresses in the structure's fields); no address occurs in two fields; a block is live iff some structure's
   field points to it; an ffi.gc entry owns a kernel block, an ffi.new entry a cffi block. *)
Theorem C13_unique_owner : forall (eager : bool) (ops : list op),
  let st := t_state (run eager ops) in
  Forall2 (fun p q => fst p = fst q /\ map haddr (snd q) = snd p) (structs st) (wkd st) /\
  NoDup (flat_map snd (structs st)) /\
  NoDup (map fst (structs st)) /\
  (forall a b, In (a, b) (heap st) -> (b_status b = Live <-> In a (flat_map snd (structs st)))) /\
  (forall s h e, In (s, h) (wkd st) -> In e h ->
     exists b, In (haddr e, b) (heap st) /\
               match e with HGc _ => b_kind b = Kernel | HNew _ => b_kind b = CffiNew end).
Proof. exact unique_owner. Qed.
Print Assumptions C13_unique_owner.
