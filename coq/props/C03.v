(** C03 -- sparse outputs store no phantom coordinates.

    Specification: spec/Support.v ([supportb]: tensors as stored sets, products as intersections,
    sums as unions, summation as projection per additive term, literals everywhere present;
    [level_support]: projection on the first k levels of the output's level order; [no_phantomb]:
    the checker over a stored output).

    What is PROVED here (unbounded, closed under the global context):
      - the checker decides exactly "every prefix stored by a compressed level of the output has
        structural support" (C03_checker_spec), and the booleans mean what they should
        (C03_support_spec, C03_level_support_spec);
      - theorems about the specification itself: monotone in the stored inputs, no support through
        an absent / empty operand, empty support for an all-empty right-hand side (so the checker
        then forces every compressed level to store nothing), and soundness for values: wherever the
        value semantics over Z is non-zero there is support, so the support never forbids an entry
        that is needed.
      - the mechanism: on a model of _exhaust_tensor.py and of the terminal's guard
        ([expression != Integer(0)]), flags are raised only where the original expression has
        boolean support with exactly the non-exhausted tensor occurrences present
        (C03_guard_sound), and exhausting a factor of a product keeps them down.
    What is NOT proved: that the generated kernels store only supported coordinates -- that is the
    sweep of tools/props/C03.py, which evaluates [no_phantomb] in Coq on the real outputs. *)
From Coq Require Import ZArith List Bool String. Import ListNotations.
From TV Require Import spec.Storage spec.Support proofs.SupportProofs model.ExhaustGuard proofs.SupportExhaust.
Open Scope Z_scope.

(** The checker run on every swept output: it returns true iff every level-order prefix stored by
    a COMPRESSED level of the output has structural support (dense output levels are not
    constrained: the format obliges them to store every coordinate). *)
Theorem C03_checker_spec : forall (V : Type) a ins sizes (out : tensor V),
  no_phantomb a ins sizes out = true <->
  (forall l pos crd, nth_error (levels out) l = Some (LCompressed pos crd) ->
     forall prefix, In prefix (stored_prefixes out (S l)) ->
       level_support a ins sizes (ordering out) (S l) prefix = true).
Proof. exact @no_phantomb_spec. Qed.
Print Assumptions C03_checker_spec.

(** [level_support] is the projection of [supportb]: some in-range completion of the prefix (in the
    output's level order) has support. *)
Theorem C03_level_support_spec : forall a ins sizes ordering k prefix,
  level_support a ins sizes ordering k prefix = true <->
  exists rest, Forall2 (fun x d => 0 <= x < d) rest (skipn k (level_sizes a sizes ordering))
               /\ supportb a ins sizes (to_dim_order ordering (prefix ++ rest)) = true.
Proof. exact level_support_spec. Qed.
Print Assumptions C03_level_support_spec.

(** [supportb]: some additive term, for some in-range values of the indexes it is summed over, finds
    every one of its tensor factors stored (literals are always present). *)
Theorem C03_support_spec : forall a ins sizes c,
  supportb a ins sizes c = true <->
  exists m r, In m (monomials (a_rhs a))
              /\ (List.map fst r = contracted (a_tidx a) m
                  /\ Forall (fun kv => 0 <= snd kv < lookup sizes (fst kv)) r)
              /\ forall f, In f (snd m) ->
                   match f with
                   | FLit _ => True
                   | FTen n ix => In (List.map (lookup (combine (a_tidx a) c ++ r)) ix) (ins n)
                   end.
Proof. exact support_spec_full. Qed.
Print Assumptions C03_support_spec.

(** More stored inputs, more support. *)
Theorem C03_support_monotone : forall a ins ins' sizes c,
  (forall n x, In x (ins n) -> In x (ins' n)) ->
  supportb a ins sizes c = true -> supportb a ins' sizes c = true.
Proof. exact support_monotone. Qed.
Print Assumptions C03_support_monotone.

(** A product with an operand that stores nothing has no support; more generally no support at [c]
    when every additive term has an operand storing nothing at the coordinates it would read; an
    all-empty right-hand side (every term has a tensor factor) has empty support, and the checker
    then forces every compressed output level to store nothing. *)
Theorem C03_support_empty_operand :
  (forall tgt tidx n ix e ins sizes c, ins n = [] ->
     supportb (mkAssignment tgt tidx (SMul (STensor n ix) e)) ins sizes c = false
     /\ supportb (mkAssignment tgt tidx (SMul e (STensor n ix))) ins sizes c = false)
  /\ (forall a ins sizes c,
        (forall m, In m (monomials (a_rhs a)) ->
           exists n ix, In (FTen n ix) (snd m)
                        /\ forall r, mem_coord (List.map (lookup (combine (a_tidx a) c ++ r)) ix) (ins n) = false) ->
        supportb a ins sizes c = false)
  /\ (forall a ins sizes c,
        every_term_has_tensor (a_rhs a) = true -> (forall n, ins n = []) -> supportb a ins sizes c = false)
  /\ (forall (V : Type) a ins sizes (out : tensor V),
        every_term_has_tensor (a_rhs a) = true -> (forall n, ins n = []) ->
        no_phantomb a ins sizes out = true ->
        forall l pos crd, nth_error (levels out) l = Some (LCompressed pos crd) ->
          stored_prefixes out (S l) = []).
Proof. exact support_empty_operand_all. Qed.
Print Assumptions C03_support_empty_operand.

(** Wherever the value semantics over Z is non-zero, there is structural support (reading each
    input as the set of coordinates it stores). *)
Theorem C03_support_sound_for_values : forall a vins sizes c,
  value a vins sizes c <> 0 -> supportb a (fun n => List.map fst (vins n)) sizes c = true.
Proof. exact support_sound_for_values. Qed.
Print Assumptions C03_support_sound_for_values.

(** The written-flag guard (model/ExhaustGuard.v: exhaust_tensor with Python's identity
    short-circuit, the terminal's test [expression != Integer(0)]): after exhausting ANY list of
    tensor occurrences in ANY order, the flags are raised only if the original (source) expression
    has boolean support when exactly the non-exhausted occurrences are present (literals present). *)
Theorem C03_guard_sound : forall (refs : list string) (e : iexpr),
  zfree e = true ->
  raises_flags (exhaust_all refs e) = true ->
  isupp (fun id => negb (mem_id id refs)) e = true.
Proof. exact guard_sound. Qed.
Print Assumptions C03_guard_sound.

(** Exhausting a factor of a product keeps the flags down, whatever the other factor is. *)
Theorem C03_guard_kills_product : forall ref e,
  raises_flags (fst (exhaust ref (IMul (ITen ref) e))) = false
  /\ raises_flags (fst (exhaust ref (IMul e (ITen ref)))) = false.
Proof. exact exhaust_kills_product. Qed.
Print Assumptions C03_guard_kills_product.
