(** C01 -- evaluate computes the mathematical meaning of the assignment, in every format.

    What is PROVED here (unbounded theorems, any commutative ring):
      A. the specification [spec] (coq/spec/Spec.v: sum of products, each additive term summed
         over its own indexes absent from the target, broadcast along target indexes it lacks)
         does not depend on association/commutation/regrouping/distribution, on the names of
         tensors and indexes, on how the inputs are stored, and broadcasts;
      B. desugaring (model/DesugarSem.v) preserves that meaning: [C01_desugar_correct] for the
         REPAIRED function [desugar ord true], for every set-iteration order [ord];
         [C01_desugar_correct_partial] for the function as it is in /repo today
         ([desugar ord false]) under the boolean guard [assignment_hoist_ok]; without the guard
         the statement is refuted (findings/K_C01_F2.v, known finding K-C01-F2);
      C. the algebra of the co-iteration lattice (model/Exhaust.v): zeroing a tensor in an
         expression is evaluating it with that leaf reading 0, and a sparse context is 0 wherever
         all its sparse leaves read 0.
      D. (stretch) the iteration graph is an untrusted certificate: a graph accepted by the
         checker [graph_ok] (model/DesugarSemGraph.v) denotes, as a loop nest, the desugared
         assignment, hence [spec]; the check runs [graph_ok] on the REAL first graph of every
         swept problem.
    What is NOT proved: that the loops emitted by iteration_graph/_generate_ir.py compute the
    loop-nest meaning [gdenote] of the graph.  That step is covered by testing only (the C01 check
    runs the real kernels against [spec] on a sweep of problems x formats x inputs).

    The models are tied to /repo on every run by correspondence (tools/props/C01.py). *)

From Coq Require Import ZArith List Bool String Permutation.
From TV Require Import spec.Storage spec.Spec model.DesugarSem model.Exhaust model.DesugarSemGraph
  proofs.SpecSums proofs.SpecInvariance proofs.SpecRename proofs.DesugarSemProofs
  proofs.ExhaustProofs proofs.DesugarSemGraphProofs.
Import ListNotations.
Open Scope Z_scope.

(** ** A. the specification *)

(** re-association and commutation of [+] and [*], regrouping of [-] as arithmetic dictates
    (a-(b-c) = (a-b)+c, a-(b+c) = (a-b)-c, a+(b-c) = (a+b)-c, a-b = a+(-1)*b), distribution:
    every rule of [rearr], applied anywhere in the expression, any number of times *)
Theorem C01_spec_assoc_comm :
  forall (O : ringops), ring_ok O ->
  forall (sizes : string -> Z) (E : env O) (tgt : list string) (e e' : expr O)
         (name : string) (c : list Z),
    rearr e e' ->
    spec (mkAssign name tgt e) E sizes c = spec (mkAssign name tgt e') E sizes c.
Proof. exact spec_assoc_comm. Qed.
Print Assumptions C01_spec_assoc_comm.

(** renaming tensors by [tn] and indexes by an injective [ti]: value and dimensions unchanged *)
Theorem C01_spec_rename :
  forall (O : ringops) (tn ti : string -> string),
    (forall x y, ti x = ti y -> x = y) ->
  forall (E E' : env O), (forall n cs, E' (tn n) cs = E n cs) ->
  forall (sizes sizes' : string -> Z), (forall k, sizes' (ti k) = sizes k) ->
  forall (a : assignment O) (c : list Z),
    spec (rename_assignment tn ti a) E' sizes' c = spec a E sizes c.
Proof. exact spec_rename. Qed.
Print Assumptions C01_spec_rename.

Theorem C01_spec_dims_rename :
  forall (O : ringops) (tn ti : string -> string) (sizes sizes' : string -> Z),
    (forall k, sizes' (ti k) = sizes k) ->
  forall (a : assignment O),
    spec_dims (rename_assignment tn ti a) sizes' = spec_dims a sizes.
Proof. exact spec_dims_rename. Qed.
Print Assumptions C01_spec_dims_rename.

(** the meaning reads the inputs only through their stored entries: two families of stored
    tensors -- whatever their formats and mode orderings -- with the same entries per tensor
    give the same result *)
Theorem C01_spec_format_independent :
  forall (O : ringops), ring_ok O ->
  forall (sizes : string -> Z) (a : assignment O) (ts ts' : list (string * tensor O)) (c : list Z),
    same_entries O ts ts' ->
    spec a (env_of_stored ts) sizes c = spec a (env_of_stored ts') sizes c.
Proof. exact spec_stored_format_independent. Qed.
Print Assumptions C01_spec_format_independent.

(** a target index that the right-hand side never mentions: the result is constant along it *)
Theorem C01_spec_broadcast :
  forall (O : ringops) (sizes : string -> Z) (E : env O) (a : assignment O)
         (p : nat) (j : string) (v : Z) (c : list Z),
    nth_error (tgt_idx a) p = Some j -> ~ In j (expr_idx (rhs a)) ->
    spec a E sizes (set_nth p v c) = spec a E sizes c.
Proof. exact spec_broadcast. Qed.
Print Assumptions C01_spec_broadcast.

(** per additive term: a term depends on the output coordinate only through its own indexes *)
Theorem C01_spec_broadcast_term :
  forall (O : ringops) (sizes : string -> Z) (E : env O) (tgt : list string) (m : monomial O)
         (c c' : list Z),
    (forall k, In k (midx m) -> bind tgt c k = bind tgt c' k) ->
    term_value tgt E sizes m c = term_value tgt E sizes m c'.
Proof. exact term_value_broadcast. Qed.
Print Assumptions C01_spec_broadcast_term.

(** ** B. desugaring *)

(** the repaired desugaring denotes the specification, for every set-iteration order *)
Theorem C01_desugar_correct :
  forall (O : ringops), ring_ok O ->
  forall (E : env O) (sizes : string -> Z) (ord : nat -> list string -> list string),
    (forall n l, Permutation (ord n l) l) ->
  forall (a : assignment O) (c : list Z),
    denote_at (tgt_idx a) E sizes (desugar_rhs ord true a) c = spec a E sizes c.
Proof. exact desugar_fixed_correct. Qed.
Print Assumptions C01_desugar_correct.

(** The full statement for the function as it is in /repo today.  It is FALSE
    (findings/K_C01_F2.v: [desugar_correct_today_refuted]); kept here as the target. *)
Definition C01_desugar_correct_today_full : Prop :=
  forall (O : ringops), ring_ok O ->
  forall (E : env O) (sizes : string -> Z) (ord : nat -> list string -> list string),
    (forall n l, Permutation (ord n l) l) ->
  forall (a : assignment O) (c : list Z),
    denote_at (tgt_idx a) E sizes (desugar_rhs ord false a) c = spec a E sizes c.

(** Today's function, under the guard "it never hoists a contraction over a term lacking the
    index" ([assignment_hoist_ok], boolean; satisfied e.g. by every assignment whose right-hand
    side is a single product, or a sum whose terms all carry the contracted indexes they share:
    proofs/DesugarSemExamples.v). GAP: assignments outside the guard (K-C01-F2). *)
Theorem C01_desugar_correct_partial :
  forall (O : ringops), ring_ok O ->
  forall (E : env O) (sizes : string -> Z) (ord : nat -> list string -> list string),
    (forall n l, Permutation (ord n l) l) ->
  forall (a : assignment O) (c : list Z),
    assignment_hoist_ok a = true ->
    denote_at (tgt_idx a) E sizes (desugar_rhs ord false a) c = spec a E sizes c.
Proof. exact desugar_cur_correct_when_hoist_ok. Qed.
Print Assumptions C01_desugar_correct_partial.

(** under the guard the two functions produce the very same tree (same ids) *)
Theorem C01_desugar_today_is_repaired_under_guard :
  forall (R : Type) (ord : nat -> list string -> list string) (e : expr R) (K : list string) (n : nat),
    hoist_ok e K = true -> desugar ord false e K n = desugar ord true e K n.
Proof. exact desugar_cur_eq_fixed. Qed.
Print Assumptions C01_desugar_today_is_repaired_under_guard.

(** ** C. the co-iteration lattice *)

Theorem C01_exhaust_sound :
  forall (O : ringops), ring_ok O ->
  forall (e : iexpr O) (t : string) (sigma : string -> O),
    evalE sigma (exhaust e t) = evalE (zeroed sigma t) e.
Proof. exact exhaust_sound. Qed.
Print Assumptions C01_exhaust_sound.

(** the zeroed tensor is gone and nothing new appears: each step down the lattice removes a leaf *)
Theorem C01_exhaust_removes :
  forall (O : ringops) (e : iexpr O) (t : string),
    ~ In t (tensor_ids (exhaust e t)) /\ incl (tensor_ids (exhaust e t)) (tensor_ids e).
Proof. exact exhaust_removes_and_incl. Qed.
Print Assumptions C01_exhaust_removes.

Theorem C01_sparse_context_sound :
  forall (O : ringops), ring_ok O ->
  forall (is_zero : O -> bool), (forall r, is_zero r = true -> r = r0) ->
  forall (e : iexpr O) (k : string) (ctx : context) (sigma : string -> O),
    extract_context is_zero e k = Some ctx ->
    is_sparse ctx = true ->
    (forall l, In l (sparse_leaves ctx) -> sigma (fst l) = r0) ->
    evalE sigma e = r0.
Proof. exact sparse_context_sound. Qed.
Print Assumptions C01_sparse_context_sound.

(** ** D (stretch). the iteration graph as a checked certificate *)

(** a graph accepted by the checker denotes, as a loop nest (an IterationNode without output layer
    sums over its index, one with an output layer leaves it free, a SumNode adds, a TerminalNode
    evaluates), exactly what the desugared expression denotes.  [ords] gives each tensor's mode
    ordering (graph leaves list their indexes in level order). *)
Theorem C01_graph_validator_sound :
  forall (O : ringops), ring_ok O ->
  forall (E : env O) (sizes : string -> Z) (ords : string -> list nat) (Reqb : O -> O -> bool),
    (forall x y, Reqb x y = true -> x = y) ->
  forall (d : dexpr O) (g : graph O),
    graph_ok ords Reqb d g = true ->
    forall rho, gdenote E sizes ords g rho = denote E sizes d rho.
Proof. exact graph_validator_sound. Qed.
Print Assumptions C01_graph_validator_sound.

(** the checker against the specification itself: an accepted graph computes the specification
    (this is the form the check runs on every real graph; it does not go through desugaring) *)
Theorem C01_graph_spec_validator_sound :
  forall (O : ringops), ring_ok O ->
  forall (E : env O) (sizes : string -> Z) (ords : string -> list nat) (Reqb : O -> O -> bool),
    (forall x y, Reqb x y = true -> x = y) ->
  forall (a : assignment O) (g : graph O),
    graph_ok_spec ords Reqb a g = true ->
    forall c, gdenote E sizes ords g (bind (tgt_idx a) c) = spec a E sizes c.
Proof. exact graph_spec_validator_sound. Qed.
Print Assumptions C01_graph_spec_validator_sound.

(** ... hence the specification: always for the repaired desugaring, under the guard for today's *)
Theorem C01_graph_pipeline_correct :
  forall (O : ringops), ring_ok O ->
  forall (E : env O) (sizes : string -> Z) (ords : string -> list nat) (Reqb : O -> O -> bool),
    (forall x y, Reqb x y = true -> x = y) ->
  forall (ord : nat -> list string -> list string),
    (forall n l, Permutation (ord n l) l) ->
  forall (fixed : bool) (a : assignment O) (g : graph O),
    (fixed = true \/ assignment_hoist_ok a = true) ->
    graph_ok ords Reqb (desugar_rhs ord fixed a) g = true ->
    forall c, gdenote E sizes ords g (bind (tgt_idx a) c) = spec a E sizes c.
Proof. exact graph_pipeline_correct. Qed.
Print Assumptions C01_graph_pipeline_correct.

(** the ring the checks execute in is a ring *)
Theorem C01_ZOps_ring : ring_ok ZOps.
Proof. exact ZOps_ok. Qed.
Print Assumptions C01_ZOps_ring.
