(** Property C05 -- generated kernels are memory-safe, leave inputs untouched and terminate.

    What is PROVED here holds for EVERY IR program on the abstract machine (spec/IRSem.v), which
    checks each load/store (block live, offset in range, cell initialised, element type), traps
    stores into inputs and signed 32-bit overflow, and has no other way to touch memory:
    a run that returns has, by construction, performed only safe accesses -- and these theorems say
    what that entails.  That a GIVEN real kernel returns on the machine for given inputs and initial
    capacity is observed by the sweep of tools/props/C05.py (exploration, not proof). *)

From Coq Require Import ZArith List String.
From TV Require Import spec.Num gen.IRAst spec.IRSem spec.IRRun
  proofs.MachineSafety proofs.InitState.

(** A kernel that returns never changed an input array or an input tensor structure. *)
Theorem C05_inputs_untouched :
  forall fuel f args st st' v tr,
    wf_heap st -> call fuel f args st = Returned st' v tr -> frame st st'.
Proof. exact call_preserves_inputs. Qed.
Print Assumptions C05_inputs_untouched.

(** ... for every statement, and the heap stays well-formed (fresh blocks get fresh ids). *)
Theorem C05_exec_preserves_inputs :
  forall n s st, wf_heap st -> outcome_ok st (exec n s st).
Proof. exact exec_ok. Qed.
Print Assumptions C05_exec_preserves_inputs.

(** The hypothesis is met by every initial state the harness builds from stored tensors. *)
Theorem C05_initial_states_wf : forall ts, wf_heap (fst (init_state ts)).
Proof. exact init_state_wf. Qed.
Print Assumptions C05_initial_states_wf.

(** What a successful load / store means. *)
Theorem C05_load_checked :
  forall st b o v, load st b o = Ok v ->
  exists blk, PM.find b (heap st) = Some blk /\ b_live blk = true /\ (0 <= o < b_len blk)%Z
              /\ PM.find (key o) (b_cells blk) = Some v.
Proof. exact load_checked. Qed.
Print Assumptions C05_load_checked.

Theorem C05_store_checked :
  forall st b o v st', store st b o v = Ok st' ->
  exists blk, PM.find b (heap st) = Some blk /\ b_live blk = true /\ b_input blk = false
              /\ (0 <= o < b_len blk)%Z.
Proof. exact store_checked. Qed.
Print Assumptions C05_store_checked.
