(** C01G -- the abstract kernel model G (coq/model/Kernel.v) and what is proved about it.

    G interprets an iteration graph (the REAL first graph tensora builds, dumped 1:1) directly on
    stored input tensors and produces the output as a trie; [encode] turns the trie into pos / crd /
    vals exactly as the emitted kernel appends them ([G_out cfg g]).  The tie to /repo is the exact
    raw-array correspondence of tools/props/_c01_kernel.py, run on every check of C01, C02, C03:
    real LLVM kernel output = [G_out] on every swept case (explicit zeros and flags included).

    Side conditions ([graph_okb], decidable, evaluated on every swept case): every leaf names a
    well-formed stored input of the declared order and modes; output description consistent; no
    index iterated twice on a path; a compressed layer of a tensor is iterated after its earlier
    layers; output layers appended in order by the node iterating their index, or all remaining
    layers dense (what the generator accepts).  Values are in the ring Z.

    Theorems (all unbounded: any graph, any dimensions, any stored inputs):
      C01G_G_computes_denotation_partial   on [in_fragment]: abs (G_out) = loop-nest denotation
      C01G_G_computes_spec_partial         ... = Spec.spec when the C01 validator accepts the graph
      C01G_G_output_wf                     G_out is a well-formed stored tensor (C02), every graph
      C01G_G_structure_value_independent   pos/crd of G_out depend only on the structure of the
                                           inputs (C04: written flags are structural), every graph
      C01G_G_no_phantoms_partial           on [in_fragment]: a prefix stored by a compressed level
                                           of G_out has structural support in the graph (C03)
    Examples of the hypotheses: proofs/KernelExamples.v. *)
From Coq Require Import ZArith List Bool String. Import ListNotations.
From TV Require Import spec.Storage spec.Spec model.DesugarSem model.Exhaust model.DesugarSemGraph
  model.Kernel proofs.KernelEncode proofs.KernelSound proofs.KernelStruct proofs.KernelSupport
  proofs.KernelTheorems.
Open Scope Z_scope.

(** G computes the loop-nest denotation [gdenote] of the graph (DesugarSemGraph.v: an iteration
    node without output layer sums its body over its index, one with an output layer leaves the
    index free, a sum node adds, a terminal evaluates its expression on the ABSTRACTION of the
    stored inputs).  [tgt]: target index names in dimension order; [c]: any coordinate of the
    output box.  PARTIAL: proved for graphs in [in_fragment] (the output layers 0,1,.. are appended
    in order by the outermost nodes; below them contractions, sum nodes, terminals -- i.e. copies
    and permutations, products, sums, contractions inside the output loops, sum nodes, for every
    format of every operand, sparse or dense nodes, the whole co-iteration lattice).  Not covered:
    graphs that fill dense output layers through a bucket because a contraction or a later
    output layer is iterated OUTSIDE them (example: proofs/KernelExamples.v,
    outside_fragment_instance); those are covered by the correspondence + the C01 sweep only. *)
Theorem C01G_G_computes_denotation_partial : forall (cfg : kcfg) (g : graph Z) (tgt : list string),
  k_leaves cfg = graph_leaves g ->
  graph_okb cfg g tgt = true -> in_fragment cfg g = true ->
  forall c, in_box cfg tgt c ->
    abs_tensor (O := ZOps) (G_out cfg g) c
    = gdenote (O := ZOps) (envE cfg) (k_sizes cfg) (ordsE cfg) g (bind tgt c).
Proof. exact G_computes_denotation_partial. Qed.
Print Assumptions C01G_G_computes_denotation_partial.

(** the statement at full strength (every graph the generator accepts), kept as a Definition *)
Definition C01G_G_computes_denotation_full : Prop := G_computes_denotation_full.

(** composed with the verified graph validator of C01 ([C01_graph_spec_validator_sound]): on an
    accepted graph G computes the SPECIFICATION of the assignment, in every format *)
Theorem C01G_G_computes_spec_partial : forall (cfg : kcfg) (g : graph Z) (a : assignment Z),
  k_leaves cfg = graph_leaves g ->
  graph_okb cfg g (tgt_idx a) = true -> in_fragment cfg g = true ->
  graph_ok_spec (ordsE cfg) Z.eqb a g = true ->
  forall c, in_box cfg (tgt_idx a) c ->
    abs_tensor (O := ZOps) (G_out cfg g) c = spec (O := ZOps) a (envE cfg) (k_sizes cfg) c.
Proof. exact G_computes_spec_partial. Qed.
Print Assumptions C01G_G_computes_spec_partial.

(** the output of G is a canonical stored tensor (C02's checker accepts it; with exactly one value
    per leaf position: the scratch element of the real kernels is not part of the model) -- for
    EVERY accepted graph, buckets included *)
Theorem C01G_G_output_wf : forall (cfg : kcfg) (g : graph Z) (tgt : list string),
  k_leaves cfg = graph_leaves g -> graph_okb cfg g tgt = true ->
  wf_tensorb true (G_out cfg g) = true /\ wf_tensorb false (G_out cfg g) = true.
Proof. exact G_output_wf. Qed.
Print Assumptions C01G_G_output_wf.

(** the structure of the output (dims, ordering, pos and crd of every level) depends only on the
    structure of the inputs, not on their values -- for EVERY graph, no side condition *)
Theorem C01G_G_structure_value_independent : forall (cfg : kcfg) (ins' : list (string * tensor Z)) (g : graph Z),
  same_ins (k_ins cfg) ins' ->
  dims (G_out cfg g) = dims (G_out (with_ins cfg ins') g)
  /\ ordering (G_out cfg g) = ordering (G_out (with_ins cfg ins') g)
  /\ levels (G_out cfg g) = levels (G_out (with_ins cfg ins') g).
Proof. intros cfg ins' g H. exact (G_structure_same cfg ins' H g). Qed.
Print Assumptions C01G_G_structure_value_independent.

(** no phantom coordinates (C03 for the model): every level-order prefix stored by a COMPRESSED
    level [l] of the output has structural support: for some in-range completion [rest] of the
    remaining output levels the loop nest of the graph, read in the boolean semiring of
    "is this coordinate stored in the input" ([gsupp]: a tensor leaf is present iff its coordinate
    can be located in its stored tensor, literals are everywhere present, product = and,
    sum / contraction / sum node = or / exists), is true.  [support_okb]: no index twice in a
    leaf, input dimensions are the sizes of their indexes, terminals sit below the loops of all
    their indexes (decidable, evaluated on every swept case).  PARTIAL: on [in_fragment]. *)
Theorem C01G_G_no_phantoms_partial : forall (cfg : kcfg) (g : graph Z) (tgt : list string),
  k_leaves cfg = graph_leaves g ->
  graph_okb cfg g tgt = true -> support_okb cfg g = true -> in_fragment cfg g = true ->
  forall (l : nat) (p : list Z),
    nth_error (k_omodes cfg) l = Some MCompressed ->
    In p (stored_prefixes (G_out cfg g) (S l)) ->
    exists rest, Forall2 (fun c x => 0 <= c < k_sizes cfg x) (p ++ rest) (k_oidx cfg)
                 /\ gsupp cfg g (bind_from (fun _ => 0) (k_oidx cfg) (p ++ rest)) = true.
Proof. exact G_no_phantoms_partial. Qed.
Print Assumptions C01G_G_no_phantoms_partial.

Definition C01G_G_no_phantoms_full : Prop := G_no_phantoms_full.
