(** C01G -- the abstract kernel model G (coq/model/Kernel.v) and what is proved about it.

    G interprets an iteration graph (the REAL first graph tensora builds, dumped 1:1) directly on
    stored input tensors and produces the output as a trie; [encode] turns the trie into pos / crd /
    vals exactly as the emitted kernel appends them ([G_out cfg g]).  The tie to /repo is the exact
    raw-array correspondence of tools/props/_c01_kernel.py, run on every check of C01, C02, C03:
    real LLVM kernel output = [G_out] on every swept case (explicit zeros and flags included).

    Side conditions ([graph_okb], decidable, evaluated on every swept case -- they hold for every
    real graph): every leaf names a well-formed stored input ([wf_tensorb]) of the declared order
    and modes, with distinct leaf ids; output description consistent; no index iterated twice on a
    path; a compressed layer of a tensor is iterated after its earlier layers; output discipline
    ([wellb], what the generator accepts): output layers appended in order by the node iterating
    their index, or all remaining layers dense and filled through a bucket.  Values: the ring Z.

    Theorems (all unbounded: any graph, any dimensions, any stored inputs; all "Closed under the
    global context"):
      C01G_G_computes_denotation           abs (G_out) = loop-nest denotation of the graph
      C01G_G_computes_spec                 ... = Spec.spec when the C01 validator accepts the graph
      C01G_G_output_wf                     G_out is a well-formed stored tensor (C02)
      C01G_G_structure_value_independent   pos/crd of G_out depend only on the structure of the
                                           inputs (C04: written flags are structural); every graph,
                                           no side condition
      C01G_G_no_phantoms                   a prefix stored by a compressed level of G_out has
                                           structural support in the graph (C03)
      C01G_G_passes_C03_checker            G_out passes C03's verified checker [Support.no_phantomb]
                                           against the specification spec/Support.v of the assignment
      C01G_G_sane                          the sanity bit of the model is true (no live leaf is read
                                           where it cannot be located)
      C01G_support_necessary               where the graph has no structural support its
                                           denotation is 0 (the support notion is not too small)
    Examples of the hypotheses: proofs/KernelExamples.v. *)
From Coq Require Import ZArith List Bool String. Import ListNotations.
From TV Require Import spec.Storage spec.Support.
From TV Require Import spec.Spec model.DesugarSem model.Exhaust model.DesugarSemGraph
  model.Kernel proofs.KernelEncode proofs.KernelSound proofs.KernelStruct proofs.KernelSupport
  proofs.KernelBucket proofs.KernelSane proofs.KernelTheorems proofs.KernelSupportSpec.
Open Scope Z_scope.

(** G computes the loop-nest denotation [gdenote] of the graph (DesugarSemGraph.v: an iteration
    node without output layer sums its body over its index, one with an output layer leaves the
    index free, a sum node adds, a terminal evaluates its expression on the ABSTRACTION
    [abs_tensor] of the stored inputs: 0 where nothing is stored).  [tgt]: target index names in
    dimension order; [c]: any coordinate of the output box.  Covers every graph shape the
    generator accepts: every format of every operand, sparse and dense nodes with the whole
    co-iteration lattice (exhaust_tensor / extract_context), written flags, dense output layers
    below compressed ones, contractions inside or outside the output loops (buckets), sum nodes,
    scalar outputs, zero-sized dimensions. *)
Theorem C01G_G_computes_denotation : forall (cfg : kcfg) (g : graph Z) (tgt : list string),
  k_leaves cfg = graph_leaves g ->
  graph_okb cfg g tgt = true ->
  forall c, in_box cfg tgt c ->
    abs_tensor (O := ZOps) (G_out cfg g) c
    = gdenote (O := ZOps) (envE cfg) (k_sizes cfg) (ordsE cfg) g (bind tgt c).
Proof. exact G_computes_denotation. Qed.
Print Assumptions C01G_G_computes_denotation.

(** composed with the verified graph validator of C01 ([C01_graph_spec_validator_sound]): on an
    accepted graph G computes the SPECIFICATION of the assignment, in every format *)
Theorem C01G_G_computes_spec : forall (cfg : kcfg) (g : graph Z) (a : assignment Z),
  k_leaves cfg = graph_leaves g ->
  graph_okb cfg g (tgt_idx a) = true ->
  graph_ok_spec (ordsE cfg) Z.eqb a g = true ->
  forall c, in_box cfg (tgt_idx a) c ->
    abs_tensor (O := ZOps) (G_out cfg g) c = spec (O := ZOps) a (envE cfg) (k_sizes cfg) c.
Proof. exact G_computes_spec. Qed.
Print Assumptions C01G_G_computes_spec.

(** the output of G is a canonical stored tensor (C02's checker accepts it; with exactly one value
    per leaf position: the scratch element of the real kernels is not part of the model) *)
Theorem C01G_G_output_wf : forall (cfg : kcfg) (g : graph Z) (tgt : list string),
  k_leaves cfg = graph_leaves g -> graph_okb cfg g tgt = true ->
  wf_tensorb true (G_out cfg g) = true /\ wf_tensorb false (G_out cfg g) = true.
Proof. exact G_output_wf. Qed.
Print Assumptions C01G_G_output_wf.

(** the structure of the output (dims, ordering, pos and crd of every level) depends only on the
    structure of the inputs, not on their values -- for EVERY graph, no side condition *)
Theorem C01G_G_structure_value_independent : forall (cfg : kcfg) (ins' : list (string * tensor Z)) (g : graph Z),
  same_ins (k_ins cfg) ins' ->
  dims (G_out cfg g) = dims (G_out (with_ins cfg ins') g)
  /\ ordering (G_out cfg g) = ordering (G_out (with_ins cfg ins') g)
  /\ levels (G_out cfg g) = levels (G_out (with_ins cfg ins') g).
Proof. exact G_structure_same. Qed.
Print Assumptions C01G_G_structure_value_independent.

(** no phantom coordinates (C03 for the model): every level-order prefix stored by a COMPRESSED
    level [l] of the output has structural support: for some in-range completion [rest] of the
    remaining output levels the loop nest of the graph, read in the boolean semiring of
    "is this coordinate stored in the input" ([gsupp]: a tensor leaf is present iff its coordinate
    can be located in its stored tensor, literals are everywhere present, product = and,
    sum / contraction / sum node = or / exists), is true.  [support_okb]: no index twice in a
    leaf, input dimensions are the sizes of their indexes, terminals sit below the loops of all
    their indexes (decidable, evaluated on every swept case). *)
Theorem C01G_G_no_phantoms : forall (cfg : kcfg) (g : graph Z) (tgt : list string),
  k_leaves cfg = graph_leaves g ->
  graph_okb cfg g tgt = true -> support_okb cfg g = true ->
  forall (l : nat) (p : list Z),
    nth_error (k_omodes cfg) l = Some MCompressed ->
    In p (stored_prefixes (G_out cfg g) (S l)) ->
    exists rest, Forall2 (fun c x => 0 <= c < k_sizes cfg x) (p ++ rest) (k_oidx cfg)
                 /\ gsupp cfg g (bind_from (fun _ => 0) (k_oidx cfg) (p ++ rest)) = true.
Proof. exact G_no_phantoms. Qed.
Print Assumptions C01G_G_no_phantoms.

(** the sanity bit: on accepted graphs the model never falls back on its totalised default (a live
    leaf that cannot be located, an undefined context, a sparse leaf without a coordinate list) *)
Theorem C01G_G_sane : forall (cfg : kcfg) (g : graph Z) (tgt : list string),
  k_leaves cfg = graph_leaves g ->
  graph_okb cfg g tgt = true -> support_okb cfg g = true -> snd (G cfg g) = true.
Proof. exact G_sane_bit. Qed.
Print Assumptions C01G_G_sane.

(** the structural support of C01G_G_no_phantoms is not vacuous in the other direction either:
    wherever the loop nest has no support its value is 0, so every non-zero output value lies in
    the support *)
Theorem C01G_support_necessary : forall (cfg : kcfg) (g : graph Z) (rho : val),
  leaves_okb cfg = true -> k_leaves cfg = graph_leaves g ->
  gsupp cfg g rho = false ->
  gdenote (O := ZOps) (envE cfg) (k_sizes cfg) (ordsE cfg) g rho = 0.
Proof. exact G_support_necessary. Qed.
Print Assumptions C01G_support_necessary.

(** C03 for the model, against C03's own specification (spec/Support.v): when the graph is accepted
    by C01's validator for the assignment [a], the output of G passes the verified checker
    [Support.no_phantomb] (C03_checker_spec: every prefix stored by a compressed level has
    [Support.level_support]) for the assignment translated to Support's syntax ([tr_assignment]:
    literals become [SLit], everything else 1:1), the inputs read as the sets of coordinates they
    store ([stored_set] = [Support.stored_of] of each stored input) and the same index sizes. *)
Theorem C01G_G_passes_C03_checker : forall (cfg : kcfg) (senv : Support.env),
  (forall k, Support.lookup senv k = k_sizes cfg k) ->
  forall (g : graph Z) (a : Spec.assignment Z),
  k_leaves cfg = graph_leaves g ->
  graph_okb cfg g (tgt_idx a) = true -> support_okb cfg g = true ->
  graph_ok_spec (ordsE cfg) Z.eqb a g = true ->
  no_phantomb (tr_assignment a) (stored_set cfg) senv (G_out cfg g) = true.
Proof. exact G_out_no_phantomb. Qed.
Print Assumptions C01G_G_passes_C03_checker.
