(** Per-kernel certificates (deepening of properties C04, C05, C16).

    Each certificate is a decidable syntactic check on an IR function ([function_definition] of
    gen/IRAst.v, regenerated from /repo on every run).  Its soundness is a theorem about the IR
    abstract machine (spec/IRSem.v), stated here.  The checks evaluate the certificates by
    vm_compute on the REAL IR of every swept kernel (tools/props/_certs.py), so that for each such
    kernel the conclusion holds for ALL inputs, not just the swept ones.

    What stays unproved: that the generator emits a passing kernel for every problem (the
    certificates are evaluated per kernel), and termination / in-bounds accesses. *)

From Coq Require Import ZArith Bool List String FMapPositive.
From TV Require Import spec.Num gen.IRAst spec.IRSem spec.IRRun
  proofs.MachineSafety proofs.Certs proofs.Certs2Base proofs.Certs2Input proofs.Certs2Sim
  proofs.Certs2Store proofs.Certs2Init proofs.Certs2Hist proofs.Certs2Examples.
Import ListNotations.
Open Scope Z_scope.

(** * C05 -- inputs untouched, statically *)

(** A kernel that passes [input_safe_cert] can never even ATTEMPT a write into an input -- no store
    into an input array, no realloc of one, no store into a field of an input tensor -- on any
    arguments, with any fuel, from any state in which the first argument is a clean (output)
    tensor; on return the first argument is clean again (so the theorem applies to the next kernel
    of a history), and every input block / input tensor struct is exactly what it was. *)
Theorem CERT_input_safe_sound :
  forall f, input_safe_cert f = true ->
  forall fuel args st, out_clean st args ->
    call fuel f args st <> Fail EWriteInput /\
    forall st' v tr, call fuel f args st = Returned st' v tr ->
      out_clean st' args /\ (wf_heap st -> frame st st').
Proof. exact input_safe_cert_sound. Qed.
Print Assumptions CERT_input_safe_sound.

(** statement level: the invariant "every variable outside the tainted set [T] holds a clean
    value" is preserved, and the only errors possible are not [EWriteInput] *)
Theorem CERT_safe_stmt_sound :
  forall T st0 n s st, safe_stmt T s = true -> P0 T st0 st ->
    good (P0 T st0) safe_err (exec n s st).
Proof. exact safe_stmt_sound. Qed.
Print Assumptions CERT_safe_stmt_sound.

(** the hypothesis holds in the initial states the harness builds (output tensor first) *)
Theorem CERT_init_state_out_clean :
  forall t ts, ti_output t = true ->
    out_clean (fst (init_state (t :: ts))) (snd (init_state (t :: ts))).
Proof. exact init_state_out_clean. Qed.
Print Assumptions CERT_init_state_out_clean.

(** histories of certified kernels -- what the C04 / C05 sweeps run: assemble; compute; compute on
    re-valued inputs -- can never attempt a write into an input either *)
Theorem CERT_history_never_writes_input :
  forall fuel steps args st,
    Forall (fun p => input_safe_cert (fst p) = true) steps -> out_clean st args ->
    run_steps fuel steps args st <> RBad (VFail EWriteInput).
Proof. exact history_never_writes_input. Qed.
Print Assumptions CERT_history_never_writes_input.

Corollary CERT_run_history_never_writes_input :
  forall fuel steps t ts exp vals exact,
    Forall (fun p => input_safe_cert (fst p) = true) steps -> ti_output t = true ->
    run_history fuel steps (t :: ts) exp vals exact <> VFail EWriteInput.
Proof. exact run_history_never_writes_input. Qed.
Print Assumptions CERT_run_history_never_writes_input.

Example CERT_input_safe_instance :
  input_safe_cert ex_good = true /\ input_safe_cert ex_writes_input = false.
Proof. split; [apply ex_good_certified | apply ex_writes_input_rejected]. Qed.

(** * C04 -- compute writes only into the value array *)

(** On every run of a kernel that passes [compute_store_cert] and returns, every block other than
    the one [out->vals] pointed to at entry is cell-for-cell unchanged (pos / crd arrays of the
    output included), no block was allocated, freed or resized, no tensor field re-pointed. *)
Theorem CERT_compute_store_sound :
  forall f, compute_store_cert f = true ->
  forall fuel tout args st st' v tr,
    call fuel f (VTensor tout :: args) st = Returned st' v tr ->
    (forall b, ~ vals_block st tout b -> PM.find b (heap st') = PM.find b (heap st))
    /\ same_shape st st' /\ tensors st' = tensors st.
Proof. exact compute_store_sound. Qed.
Print Assumptions CERT_compute_store_sound.

Example CERT_compute_store_instance :
  compute_store_cert ex_good = true /\
  compute_store_cert ex_reassembles = false /\ compute_cert ex_reassembles = true.
Proof.
  split; [apply ex_good_certified|]. split; apply ex_reassembles_rejected.
Qed.

(** * C16 -- an unread variable / an unread dimension is irrelevant *)

(** If [x] is never read by [s], two runs from states that differ at most in the value bound to
    [x] proceed in lock-step: same kind of outcome, same error, same returned value and trace, and
    final states that again differ at most in [x] (same heap, same iteration counter). *)
Theorem CERT_unread_var_irrelevant :
  forall x s, reads_var x s = false ->
  forall n st1 st2, same_except x st1 st2 ->
    osim (same_except x) (exec n s st1) (exec n s st2).
Proof. exact unread_var_irrelevant. Qed.
Print Assumptions CERT_unread_var_irrelevant.

Corollary CERT_unread_var_same_iters :
  forall x s, reads_var x s = false ->
  forall n st1 st2, same_except x st1 st2 ->
    match exec n s st1, exec n s st2 with
    | Normal a _, Normal b _ => iters a = iters b /\ heap a = heap b
    | Returned a v _, Returned b w _ => iters a = iters b /\ heap a = heap b /\ v = w
    | Fail e1, Fail e2 => e1 = e2
    | OutOfFuel, OutOfFuel => True
    | _, _ => False
    end.
Proof. exact unread_var_same_iters. Qed.
Print Assumptions CERT_unread_var_same_iters.

(** [dim_unread_cert f DSi]: the dimension entries [DSi] = [(tensor-parameter index, position)]
    are read only as the right-hand side of declarations of variables that are never read.  Then
    two calls on the same distinct tensor handles, from states that differ only in those entries
    (same heap = same stored arrays; the entries fit in int32), proceed in lock-step: same outcome,
    same returned value, same final heap (every output array), same loop-iteration counter. *)
Theorem CERT_dim_irrelevant :
  forall f DSi, dim_unread_cert f DSi = true ->
  forall fuel ids st1 st2, NoDup ids -> dims_differ ids DSi st1 st2 ->
    osim (dims_differ ids DSi)
         (call fuel f (map VTensor ids) st1) (call fuel f (map VTensor ids) st2).
Proof. exact dim_unread_sound. Qed.
Print Assumptions CERT_dim_irrelevant.

(** on the initial states of the harness: what the C16 sweep measures ([run_iters]) is the same
    for EVERY pair of inputs that differ only in the listed dimension entries *)
Theorem CERT_dim_irrelevant_runs :
  forall f DSi, dim_unread_cert f DSi = true ->
  forall fuel ts1 ts2, tins_sim DSi 0 ts1 ts2 ->
    run_iters fuel f ts1 = run_iters fuel f ts2.
Proof. exact dim_unread_runs. Qed.
Print Assumptions CERT_dim_irrelevant_runs.

Theorem CERT_dim_irrelevant_runs_heap :
  forall f DSi, dim_unread_cert f DSi = true ->
  forall fuel ts1 ts2, tins_sim DSi 0 ts1 ts2 ->
    match call fuel f (snd (init_state ts1)) (fst (init_state ts1)),
          call fuel f (snd (init_state ts2)) (fst (init_state ts2)) with
    | Returned a v _, Returned b w _ => heap a = heap b /\ iters a = iters b /\ v = w
    | Normal _ _, Normal _ _ => True
    | Fail x, Fail y => x = y
    | OutOfFuel, OutOfFuel => True
    | _, _ => False
    end.
Proof. exact dim_unread_runs_heap. Qed.
Print Assumptions CERT_dim_irrelevant_runs_heap.

(** the verdict of the C16 comparison [same_iters] is never "iteration counts differ" *)
Corollary CERT_dim_same_iters_verdict :
  forall f DSi, dim_unread_cert f DSi = true ->
  forall fuel ts1 ts2, tins_sim DSi 0 ts1 ts2 ->
    same_iters fuel f ts1 ts2 = VOk \/
    (run_iters fuel f ts1 = None /\ run_iters fuel f ts2 = None).
Proof. exact dim_unread_same_iters. Qed.
Print Assumptions CERT_dim_same_iters_verdict.

Example CERT_dim_unread_instance :
  dim_unread_cert ex_good [(1%nat, 0)] = true /\ dim_unread_cert ex_reads_dim [(1%nat, 0)] = false.
Proof. split; [apply ex_good_certified | apply ex_reads_dim_rejected]. Qed.
