(** TIE target "genir": statements about the loop generator regenerated from
    /repo/src/tensora/iteration_graph/_generate_ir.py (gen/GenerateIR.v).  design.d/TIE_genir.md *)
From Coq Require Import ZArith Bool List String Permutation Sorted.
From TV Require Import spec.Num spec.PyBase spec.PyLib model.GraphsIter.
From TV Require Import gen.IRAst gen.Names gen.ExhaustAst gen.Exhaust gen.IterGraphs gen.GlueGen.
From TV Require Import gen.AppendGen gen.GenerateIR.
From TV Require proofs.Certs.
From TV Require Import proofs.GenGenIR_equiv.
Import ListNotations.

(** (a) for EVERY definition, EVERY graph, every initial capacity: the regenerated compute kernel contains no allocation
    form and no store into a tensor field (the hypotheses of CERT_compute's soundness theorem, proofs/Certs.v) *)
Theorem TIE_genir_compute_cert : forall cap d g f,
  generate_ir cap d g GlueGen.KernelType_compute = Some f -> Certs.compute_cert f = true.
Proof. exact gen_compute_cert. Qed.
Print Assumptions TIE_genir_compute_cert.

Theorem TIE_genir_compute_cert_fuel : forall cap fuel d g f,
  generate_ir_fuel cap fuel d g KernelType_compute = Some f -> Certs.compute_cert f = true.
Proof. exact gen_compute_cert_fuel. Qed.
Print Assumptions TIE_genir_compute_cert_fuel.

Theorem TIE_genir_compute_cert_pres : forall cap d g f,
  generate_ir_pres cap d g GlueGen.KernelType_compute = POk f -> Certs.compute_cert f = true.
Proof. exact gen_compute_cert_pres. Qed.
Print Assumptions TIE_genir_compute_cert_pres.

Theorem TIE_genir_family_compute_fragments : forall fuel n g o s,
  to_ir_iteration_graph fuel n g o KernelType_compute = Some s ->
  Certs.no_alloc (sb_finalize s) = true /\ Certs.no_field_store (sb_finalize s) = true.
Proof. exact gen_family_compute_fragments. Qed.
Print Assumptions TIE_genir_family_compute_fragments.

Theorem TIE_genir_dense_assemble_emits_nothing : forall fuel rec_ iv nxt o,
  Output_has_sparse_layer o = false ->
  to_ir_iteration_variable fuel rec_ (IgIterationNode iv None nxt) o KernelType_assemble
  = Some (MkSB [] (Some ("*** Iteration over " ++ iv ++ " ***")%string)).
Proof. exact gen_dense_assemble_emits_nothing. Qed.
Print Assumptions TIE_genir_dense_assemble_emits_nothing.

(** generate_subgraphs' sorted(..., key=..., reverse=True): a permutation, by decreasing key, stable *)
Theorem TIE_genir_sorted_perm : forall (A : Type) (l : list (Z * A)), Permutation (py_sorted_desc l) l.
Proof. exact (@gen_sorted_desc_perm). Qed.
Print Assumptions TIE_genir_sorted_perm.

Theorem TIE_genir_sorted_sorted : forall (A : Type) (l : list (Z * A)), Sorted ge_key (py_sorted_desc l).
Proof. exact (@gen_sorted_desc_sorted). Qed.
Print Assumptions TIE_genir_sorted_sorted.

Theorem TIE_genir_sorted_stable : forall (A : Type) (k : Z) (l : list (Z * A)),
  filter (fun y => Z.eqb (fst y) k) (py_sorted_desc l) = filter (fun y => Z.eqb (fst y) k) l.
Proof. exact (@gen_sorted_desc_stable). Qed.
Print Assumptions TIE_genir_sorted_stable.

(** (c) ALIGNMENT, for EVERY definition, EVERY graph, every capacity: the assemble kernel and the compute kernel are the
    evaluate kernel with statements dropped -- same parameters, same return type, and [Sub body_evaluate body_kind]: every
    statement of the kind's body is the IDENTICAL statement of evaluate's body at the corresponding place (blocks, branches
    and loops matched recursively with identical conditions), evaluate's other statements are dropped, or a whole statement
    faces an empty block.  (The role / taint side conditions of Certs3Defs.alignA / alignC are NOT part of this statement.) *)
Theorem TIE_genir_assemble_aligned : forall cap d g fe fa,
  generate_ir cap d g GlueGen.KernelType_evaluate = Some fe ->
  generate_ir cap d g GlueGen.KernelType_assemble = Some fa -> aligned fe fa.
Proof. exact gen_assemble_aligned. Qed.
Print Assumptions TIE_genir_assemble_aligned.

Theorem TIE_genir_compute_aligned : forall cap d g fe fc,
  generate_ir cap d g GlueGen.KernelType_evaluate = Some fe ->
  generate_ir cap d g GlueGen.KernelType_compute = Some fc -> aligned fe fc.
Proof. exact gen_compute_aligned. Qed.
Print Assumptions TIE_genir_compute_aligned.

(** every fragment of the dispatch family, any node / output / depth *)
Theorem TIE_genir_family_assemble_aligned : forall fuel n g o,
  wp2 (to_ir_iteration_graph fuel n g o KernelType_evaluate) (to_ir_iteration_graph fuel n g o KernelType_assemble) rel_sb.
Proof. exact family_EA. Qed.
Print Assumptions TIE_genir_family_assemble_aligned.

Theorem TIE_genir_family_compute_aligned : forall fuel n g o,
  wp2 (to_ir_iteration_graph fuel n g o KernelType_evaluate) (to_ir_iteration_graph fuel n g o KernelType_compute) rel_sb.
Proof. exact family_EC. Qed.
Print Assumptions TIE_genir_family_compute_aligned.

(** a registered function returns a builder that carries its comment (it is appended as ONE block) *)
Theorem TIE_genir_iteration_comment : forall fuel rec_ iv out nxt o k,
  wp (to_ir_iteration_variable fuel rec_ (IgIterationNode iv out nxt) o k) (hasc ("*** Iteration over " ++ iv ++ " ***")).
Proof. exact iteration_comment. Qed.
Print Assumptions TIE_genir_iteration_comment.
