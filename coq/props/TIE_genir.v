(** TIE target "genir": statements about the loop generator regenerated from
    /repo/src/tensora/iteration_graph/_generate_ir.py (gen/GenerateIR.v).  design.d/TIE_genir.md *)
From Coq Require Import ZArith Bool List String Permutation Sorted.
From TV Require Import spec.Num spec.PyBase spec.PyLib model.GraphsIter.
From TV Require Import gen.IRAst gen.Names gen.ExhaustAst gen.Exhaust gen.IterGraphs gen.GlueGen.
From TV Require Import gen.AppendGen gen.GenerateIR.
From TV Require proofs.Certs proofs.Certs3Defs model.Graphs proofs.GenGraphs_base proofs.GenGraphs_equiv.
From TV Require Import proofs.GenGenIR_equiv.
From TV Require spec.IRSem proofs.Certs2Base proofs.Certs2Input proofs.GenGenIR_sound.
Import ListNotations.

(** (a) for EVERY definition, EVERY graph, every initial capacity: the regenerated compute kernel contains no allocation
    form and no store into a tensor field (the hypotheses of CERT_compute's soundness theorem, proofs/Certs.v) *)
Theorem TIE_genir_compute_cert : forall cap d g f,
  generate_ir cap d g GlueGen.KernelType_compute = Some f -> Certs.compute_cert f = true.
Proof. exact gen_compute_cert. Qed.
Print Assumptions TIE_genir_compute_cert.

Theorem TIE_genir_compute_cert_fuel : forall cap fuel d g f,
  generate_ir_fuel cap fuel d g KernelType_compute = Some f -> Certs.compute_cert f = true.
Proof. exact gen_compute_cert_fuel. Qed.
Print Assumptions TIE_genir_compute_cert_fuel.

Theorem TIE_genir_compute_cert_pres : forall cap d g f,
  generate_ir_pres cap d g GlueGen.KernelType_compute = POk f -> Certs.compute_cert f = true.
Proof. exact gen_compute_cert_pres. Qed.
Print Assumptions TIE_genir_compute_cert_pres.

Theorem TIE_genir_family_compute_fragments : forall fuel n g o s,
  to_ir_iteration_graph fuel n g o KernelType_compute = Some s ->
  Certs.no_alloc (sb_finalize s) = true /\ Certs.no_field_store (sb_finalize s) = true.
Proof. exact gen_family_compute_fragments. Qed.
Print Assumptions TIE_genir_family_compute_fragments.

Theorem TIE_genir_dense_assemble_emits_nothing : forall fuel rec_ iv nxt o,
  Output_has_sparse_layer o = false ->
  to_ir_iteration_variable fuel rec_ (IgIterationNode iv None nxt) o KernelType_assemble
  = Some (MkSB [] (Some ("*** Iteration over " ++ iv ++ " ***")%string)).
Proof. exact gen_dense_assemble_emits_nothing. Qed.
Print Assumptions TIE_genir_dense_assemble_emits_nothing.

(** generate_subgraphs' sorted(..., key=..., reverse=True): a permutation, by decreasing key, stable *)
Theorem TIE_genir_sorted_perm : forall (A : Type) (l : list (Z * A)), Permutation (py_sorted_desc l) l.
Proof. exact (@gen_sorted_desc_perm). Qed.
Print Assumptions TIE_genir_sorted_perm.

Theorem TIE_genir_sorted_sorted : forall (A : Type) (l : list (Z * A)), Sorted ge_key (py_sorted_desc l).
Proof. exact (@gen_sorted_desc_sorted). Qed.
Print Assumptions TIE_genir_sorted_sorted.

Theorem TIE_genir_sorted_stable : forall (A : Type) (k : Z) (l : list (Z * A)),
  filter (fun y => Z.eqb (fst y) k) (py_sorted_desc l) = filter (fun y => Z.eqb (fst y) k) l.
Proof. exact (@gen_sorted_desc_stable). Qed.
Print Assumptions TIE_genir_sorted_stable.

(** (c) ALIGNMENT, for EVERY definition, EVERY graph, every capacity: the assemble kernel and the compute kernel are the
    evaluate kernel with statements dropped -- same parameters, same return type, and [Sub body_evaluate body_kind]: every
    statement of the kind's body is the IDENTICAL statement of evaluate's body at the corresponding place (blocks, branches
    and loops matched recursively with identical conditions), evaluate's other statements are dropped, or a whole statement
    faces an empty block.  (The role / taint side conditions of Certs3Defs.alignA / alignC are NOT part of this statement.) *)
Theorem TIE_genir_assemble_aligned : forall cap d g fe fa,
  generate_ir cap d g GlueGen.KernelType_evaluate = Some fe ->
  generate_ir cap d g GlueGen.KernelType_assemble = Some fa -> aligned fe fa.
Proof. exact gen_assemble_aligned. Qed.
Print Assumptions TIE_genir_assemble_aligned.

Theorem TIE_genir_compute_aligned : forall cap d g fe fc,
  generate_ir cap d g GlueGen.KernelType_evaluate = Some fe ->
  generate_ir cap d g GlueGen.KernelType_compute = Some fc -> aligned fe fc.
Proof. exact gen_compute_aligned. Qed.
Print Assumptions TIE_genir_compute_aligned.

(** every fragment of the dispatch family, any node / output / depth *)
Theorem TIE_genir_family_assemble_aligned : forall fuel n g o,
  wp2 (to_ir_iteration_graph fuel n g o KernelType_evaluate) (to_ir_iteration_graph fuel n g o KernelType_assemble) rel_sb.
Proof. exact family_EA. Qed.
Print Assumptions TIE_genir_family_assemble_aligned.

Theorem TIE_genir_family_compute_aligned : forall fuel n g o,
  wp2 (to_ir_iteration_graph fuel n g o KernelType_evaluate) (to_ir_iteration_graph fuel n g o KernelType_compute) rel_sb.
Proof. exact family_EC. Qed.
Print Assumptions TIE_genir_family_compute_aligned.

(** a registered function returns a builder that carries its comment (it is appended as ONE block) *)
Theorem TIE_genir_iteration_comment : forall fuel rec_ iv out nxt o k,
  wp (to_ir_iteration_variable fuel rec_ (IgIterationNode iv out nxt) o k) (hasc ("*** Iteration over " ++ iv ++ " ***")).
Proof. exact iteration_comment. Qed.
Print Assumptions TIE_genir_iteration_comment.

(** THE BRIDGE to proofs/Certs3Defs.v.  [aligned0 fe fk]: both parameter lists are tensor pointers, [same_params], [ty_same] of
    the return types, and Certs3Defs.align on the two bodies returns [Some] -- with the phase [unit] and the role / taint side
    conditions (cok, keep_atomic, drop_atomic) made trivial.  For EVERY definition, graph and capacity. *)
Theorem TIE_genir_assemble_aligned0 : forall cap d g fe fa,
  generate_ir cap d g GlueGen.KernelType_evaluate = Some fe ->
  generate_ir cap d g GlueGen.KernelType_assemble = Some fa -> aligned0 fe fa = true.
Proof. exact gen_assemble_aligned0. Qed.
Print Assumptions TIE_genir_assemble_aligned0.

Theorem TIE_genir_compute_aligned0 : forall cap d g fe fc,
  generate_ir cap d g GlueGen.KernelType_evaluate = Some fe ->
  generate_ir cap d g GlueGen.KernelType_compute = Some fc -> aligned0 fe fc = true.
Proof. exact gen_compute_aligned0. Qed.
Print Assumptions TIE_genir_compute_aligned0.

(** the unary fact behind it: in EVERY kernel kind every atomic statement is an Assignment, a DeclarationAssignment
    (Declaration ...) or a Return (what Certs3Defs.atom_same can keep), and every parameter is a tensor pointer *)
Theorem TIE_genir_atoms_wf : forall cap d g k f,
  generate_ir cap d g k = Some f -> wfS (fd_body f) = true /\ forallb param_form (fd_params f) = true.
Proof. exact gen_atoms_wf. Qed.
Print Assumptions TIE_genir_atoms_wf.

(** the general bridge: the declarative relation implies the decision procedure (trivial side conditions) *)
Theorem TIE_genir_sub_align0 : forall sE sK, Sub sE sK -> wfS sE = true -> align0 sE sK = Some tt.
Proof. exact sub_align0. Qed.
Print Assumptions TIE_genir_sub_align0.

(** (b) input_safe_cert is NOT proved.  Its unrestricted form is false: a graph carrying an output layer of an input tensor
    (never produced by to_iteration_graphs) yields a kernel that fails the certificate.  The statement that remains is
    [gen_input_safe_full] (three hypotheses, each shown necessary by a witness). *)
Theorem TIE_genir_input_safe_unrestricted_fails :
  exists f, generate_ir None ex_d ex_g_foreign GlueGen.KernelType_evaluate = Some f
            /\ proofs.Certs2Input.input_safe_cert f = false /\ graph_outputs_of ex_d ex_g_foreign = false.
Proof. exact gen_input_safe_unrestricted_fails. Qed.
Print Assumptions TIE_genir_input_safe_unrestricted_fails.

Theorem TIE_genir_input_safe_needs_output_first :
  exists f, generate_ir None ex_d_out_second ex_g GlueGen.KernelType_evaluate = Some f
            /\ proofs.Certs2Input.input_safe_cert f = false /\ graph_outputs_of ex_d_out_second ex_g = true /\ output_first ex_d_out_second = false.
Proof. exact gen_input_safe_needs_output_first. Qed.
Print Assumptions TIE_genir_input_safe_needs_output_first.

Theorem TIE_genir_input_safe_needs_distinct_names :
  exists f, generate_ir None ex_d3 ex_g3 GlueGen.KernelType_evaluate = Some f
            /\ proofs.Certs2Input.input_safe_cert f = false /\ graph_outputs_of ex_d3 ex_g3 = true /\ output_first ex_d3 = true.
Proof. exact gen_input_safe_needs_distinct_names. Qed.
Print Assumptions TIE_genir_input_safe_needs_distinct_names.

(** (2) the first hypothesis is DISCHARGED for the graphs the library produces: every graph of today's enumeration
    (to_iteration_graphs_src, proved to be what the regenerated to_iteration_graphs yields: TIE graphs) carries output layers of
    the identified target tensor only -- which is definition.output_variable (TIE glue: gen_to_identifiable_identify) *)
Theorem TIE_genir_library_graphs_outputs : forall fval a fs gs tr,
  proofs.GenGraphs_equiv.to_iteration_graphs_src a fs = model.Graphs.ROk gs ->
  model.Graphs.identify (model.Graphs.a_target a) fs = Some tr ->
  Forall (fun g => graph_outputs_of_t (proofs.GenGraphs_base.up_tref tr) (proofs.GenGraphs_base.up_graph fval g) = true) gs.
Proof. exact gen_library_graphs_outputs. Qed.
Print Assumptions TIE_genir_library_graphs_outputs.

(** (b), the closure-free route: the conclusion of CERT_input (Certs2Input.input_safe_sound) holds for ANY explicit taint set
    [T] that contains the input parameters and for which [safe_stmt T body = true] -- no taint closure, no fixpoint iteration.
    What remains for the generator is therefore [safe_stmt T1 body] for the explicit T1 of design.d/TIE_genir.md. *)
Theorem TIE_genir_input_safe_sound_T : forall T name ps rt body,
  (forall x, In x (proofs.Certs2Base.param_names (tl ps)) -> In x T) -> proofs.Certs2Input.safe_stmt T body = true ->
  forall fuel args st, proofs.Certs2Input.out_clean st args ->
    match spec.IRSem.call fuel (FunctionDefinition name ps rt body) args st with
    | spec.IRSem.Fail x => x <> spec.Num.EWriteInput
    | spec.IRSem.Returned st' _ _ => proofs.Certs2Input.out_clean st' args
    | _ => True
    end.
Proof. exact proofs.GenGenIR_sound.input_safe_sound_T. Qed.
Print Assumptions TIE_genir_input_safe_sound_T.

(** (b) FINAL: for EVERY definition, graph, capacity and kernel kind -- under the two boolean hypotheses [names_ok d g]
    (no identifier collision with the explicit taint set T1 d; false on K-C08-3's witness, true on ordinary problems:
    names_ok_k_c08_3, names_ok_ordinary) and [graph_outputs_of d g] (discharged for library graphs by
    TIE_genir_library_graphs_outputs) -- the generated kernel never writes an input and returns with the output clean. *)
Theorem TIE_genir_inputs_untouched : forall cap d g k f,
  names_ok d g = true -> graph_outputs_of d g = true -> generate_ir cap d g k = Some f ->
  forall fuel args st, proofs.Certs2Input.out_clean st args ->
    match spec.IRSem.call fuel f args st with
    | spec.IRSem.Fail x => x <> spec.Num.EWriteInput
    | spec.IRSem.Returned st' _ _ => proofs.Certs2Input.out_clean st' args
    | _ => True
    end.
Proof. exact gen_inputs_untouched. Qed.
Print Assumptions TIE_genir_inputs_untouched.

Theorem TIE_genir_safe_names_ok : forall T cap d g k f,
  names_ok_T T d = true -> graph_outputs_of d g = true ->
  generate_ir cap d g k = Some f -> gen_input_safe_semantic T f.
Proof. exact gen_safe_names_ok. Qed.
Print Assumptions TIE_genir_safe_names_ok.

(** names_ok for well-formed definitions: when the output is the first key of `formats`, does not reappear, and every index is
    sized by a tensor that has a format ([struct_ok]), three conjuncts of names_ok hold BY CONSTRUCTION of T1 and names_ok is the
    hygiene proper: the output's name, the reserved prefixes and the output's index names against the generated set *)
Theorem TIE_genir_names_ok_struct : forall d g, struct_ok d = true -> names_ok d g = hygienic d.
Proof. exact names_ok_struct. Qed.
Print Assumptions TIE_genir_names_ok_struct.

(** fuel matters and ig_fuel is enough on a matrix-vector product; the hypotheses of the theorems hold there *)
Theorem TIE_genir_fuel_example :
  ig_fuel ex_g_mv = 7%nat
  /\ generate_ir_fuel None 2 ex_d_mv ex_g_mv KernelType_evaluate = None
  /\ (exists f, generate_ir_fuel None 3 ex_d_mv ex_g_mv KernelType_evaluate = Some f
                /\ generate_ir None ex_d_mv ex_g_mv GlueGen.KernelType_evaluate = Some f
                /\ generate_ir_fuel None 20 ex_d_mv ex_g_mv KernelType_evaluate = Some f)
  /\ names_ok ex_d_mv ex_g_mv = true /\ graph_outputs_of ex_d_mv ex_g_mv = true.
Proof. exact fuel_example. Qed.
Print Assumptions TIE_genir_fuel_example.

(** FUEL, the [Some] half of fuel sufficiency -- for EVERY definition, graph, capacity, kind: an answer obtained with the fuel
    [ig_fuel g] that [generate_ir] supplies is the answer for every larger fuel (both the depth of the recursion and the rounds of
    generate_subgraphs' `while`); more generally the answer is monotone in the fuel. *)
Theorem TIE_genir_fuel_stable : forall cap d g k f,
  generate_ir_fuel cap (ig_fuel g) d g k = Some f -> forall m, (ig_fuel g <= m)%nat -> generate_ir_fuel cap m d g k = Some f.
Proof. exact fuel_stable. Qed.
Print Assumptions TIE_genir_fuel_stable.

Theorem TIE_genir_family_fuel_mono : forall fuel fuel' k, (fuel <= fuel')%nat -> forall n n', (n <= n')%nat -> forall g o,
  ole (to_ir_iteration_graph fuel n g o k) (to_ir_iteration_graph fuel' n' g o k).
Proof. exact family_mono. Qed.
Print Assumptions TIE_genir_family_fuel_mono.

(** input safety for LIBRARY graphs: for every graph g of today's enumeration (to_iteration_graphs_src = what the regenerated
    to_iteration_graphs yields, TIE graphs) and the definition whose output variable is to_identifiable(target) = up_tref tr (TIE glue),
    the hypothesis about the graph is discharged; what remains are two booleans on the definition, evaluated per problem:
    [struct_ok] (the output is the first key of formats, not repeated; every index is sized by a tensor with a format -- what
    make_problem / module_plan provide, NOT linked formally) and [hygienic] (no identifier collision). *)
Theorem TIE_genir_inputs_untouched_library : forall fval a fs gs tr fmts dims g cap k f,
  proofs.GenGraphs_equiv.to_iteration_graphs_src a fs = model.Graphs.ROk gs ->
  model.Graphs.identify (model.Graphs.a_target a) fs = Some tr -> In g gs ->
  struct_ok (MkDefinition (proofs.GenGraphs_base.up_tref tr) fmts dims) = true ->
  hygienic (MkDefinition (proofs.GenGraphs_base.up_tref tr) fmts dims) = true ->
  generate_ir cap (MkDefinition (proofs.GenGraphs_base.up_tref tr) fmts dims) (proofs.GenGraphs_base.up_graph fval g) k = Some f ->
  forall fuel args st, proofs.Certs2Input.out_clean st args ->
    match spec.IRSem.call fuel f args st with
    | spec.IRSem.Fail x => x <> spec.Num.EWriteInput
    | spec.IRSem.Returned st' _ _ => proofs.Certs2Input.out_clean st' args
    | _ => True
    end.
Proof. exact gen_inputs_untouched_library. Qed.
Print Assumptions TIE_genir_inputs_untouched_library.
