(** K-C12-3 (known finding, property C12 "printing the tree and parsing again yields the tree").
    Witness: "a() = 1e999".  The implementation reads the literal with float(), which overflows to
    inf; Float(inf).deparse() prints "inf"; the printed text "a() = inf" is not an assignment:
    [inf] lexes as a NAME, and a name that is not followed by "(" is no factor.
    The model carries literals exactly (the literal codec is outside the model), so in the model
    the literal round-trips; the refuted statement is about the implementation's codec:
    "the text Python prints for the parsed literal parses back". *)
From Coq Require Import String Ascii List NArith ZArith Bool.
From TV Require Import model.Parser.
Import ListNotations.
Open Scope string_scope.

Lemma K_C12_3_printed_text_refuted :
  exists printed : string, printed = "a() = inf" /\ ~ (exists a, parse_assignment printed = POk a).
Proof.
  exists "a() = inf". split; [reflexivity|].
  intros [a H]. vm_compute in H. discriminate.
Qed.

(** in the model the literal itself is unproblematic (exact decimal), which is why the finding is
    classified on the implementation side: "a float spelling whose float() is infinite". *)
Lemma K_C12_3_model_literal :
  parse_assignment "a() = 1e999" = POk (Assign "a" [] (EFloat (Dec 1 999))).
Proof. vm_compute. reflexivity. Qed.
