(** K-C08-3: with the two names of outputs/_bucket.py the generated names are no longer injective:
    BucketOutput.name() for an output called "pos" (id 0, no remaining layer) is the pos array of
    level 0 of a tensor called "bucket".  `tensora 'pos() = bucket(j) * c(j)' -f bucket:s`
    redeclares bucket_0_pos in C and raises TypeError in the LLVM back end. *)
From Coq Require Import List String Bool Arith.
From TV Require Import model.Names.
Import ListNotations.
Open Scope string_scope.

Lemma C08_names_with_bucket_injective_refuted :
  exists tensor layer id out layers,
    identb tensor = true /\ identb out = true /\
    pos_name tensor layer = bucket_name (reference id out) layers.
Proof. exists "bucket", 0, 0, "pos", []. vm_compute. repeat split; reflexivity. Qed.

Lemma C08_names_with_bucket_injective_refuted_crd :
  crd_name "bucket" 0 = bucket_name (reference 0 "crd") [].
Proof. vm_compute. reflexivity. Qed.
