(** Informational finding K-C11-1 (not a violation of C11, which restricts the format rule to
    operands stored in natural mode order): for operands in a NON-natural order the operator
    layer pairs the operands' modes BY LEVEL ([zip(left.format.modes, right.format.modes)]) and
    requests the result in natural order, so the documented per-dimension rule
    ("dense where either operand is dense") does not hold.  Only the requested format differs;
    the value does not (C11_request_denotes_pointwise holds for every ordering).

    Witness: both operands in format d1s0 (level 0 = dimension 1, dense; level 1 = dimension 0,
    compressed).  By dimension both are compressed in dimension 0 and dense in dimension 1, so the
    rule gives "sd"; the code asks for "ds".

    If this file stops compiling because /repo was changed to pair modes by dimension, that is
    good news (FINDING-NO-LONGER-REPRODUCES), not a violation. *)

From Coq Require Import ZArith String List Bool.
From TV Require Import spec.Storage model.Operators.
Import ListNotations.
Open Scope Z_scope.

Definition format_rule_any_ordering : Prop :=
  forall (l r : operand) (o : op) (q : request),
    wf_operand l = true -> wf_operand r = true ->
    binary_operator_request l r o = Ok q ->
    forall d : nat, (d < length (pointwise_dims l r))%nat ->
      format_mode_of_dim (rq_format q) d = rule_mode o (mode_of_dim l d) (mode_of_dim r d).

Lemma format_rule_any_ordering_refuted : ~ format_rule_any_ordering.
Proof.
  intros H.
  pose (t := OTensor [2; 2] [MDense; MCompressed] [1%nat; 0%nat]).
  destruct (binary_operator_request t t OpAdd) as [q|e] eqn:E; [|vm_compute in E; discriminate].
  specialize (H t t OpAdd q eq_refl eq_refl E 0%nat).
  vm_compute in E. inversion E; subst q; clear E.
  vm_compute in H. specialize (H (le_S _ _ (le_n _))). discriminate.
Qed.
