(** K-C12-2 (known finding, property C12 "parsing never raises").
    Witnesses: 100 nested parentheses around a literal; a flat sum of 1200 terms.
    The proved model parses both (its fuel is proved sufficient for every input).  The
    implementation lets RecursionError escape: parsita's combinators recurse about 14 Python
    frames per parenthesis level (fails from depth 70), and Assignment.__post_init__ calls the
    recursive Expression.variables() on the left-nested tree of a long sum (fails from 990
    terms).  Classifier in the check: builtin RecursionError and
    14 * (parenthesis depth) + (number of operators) >= 900. *)
From Coq Require Import String Ascii List NArith ZArith Bool.
From TV Require Import model.Parser.
Import ListNotations.

Definition k_c12_2_nested : string :=
  string_of_list_ascii (list_ascii_of_string "a() = " ++ repeat "("%char 100 ++ ["1"%char] ++ repeat ")"%char 100).

Lemma K_C12_2_model_answers_nested :
  parse_assignment k_c12_2_nested = POk (Assign "a" [] (EInt 1)).
Proof. vm_compute. reflexivity. Qed.

Definition k_c12_2_sum : string :=
  string_of_list_ascii (list_ascii_of_string "a() = 1" ++ flat_map (fun _ => list_ascii_of_string " + 1") (seq 0 1199)).

Fixpoint left_sum (n : nat) : expr :=
  match n with O => EInt 1 | S n' => EAdd (left_sum n') (EInt 1) end.

Lemma K_C12_2_model_answers_sum :
  parse_assignment k_c12_2_sum = POk (Assign "a" [] (left_sum 1199)).
Proof. vm_compute. reflexivity. Qed.
