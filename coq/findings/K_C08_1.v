(** K-C08-1: the full statement of C08 (no internal error escapes) is refuted on today's tree.
    Witness: tensor_method('A(i,j,k) = B(j,i,k)', {'A':'dds','B':'dss'}) raises NotImplementedError
    from outputs/_append.py::AppendOutput.next_output.  The only legal order of the output that is
    compatible with B(j,i,k):dss visits output layer 1 (j) before layer 0 (i) while the compressed
    layer 2 (k) is still to come. *)
From Coq Require Import List String Bool Arith.
From TV Require Import model.Graphs model.OutputOrder.
Import ListNotations.
Open Scope string_scope.

Definition k1_assign := mkDA (mkDT 0 "A" ["i"; "j"; "k"]) (DTensor (mkDT 1 "B" ["j"; "i"; "k"])).
Definition k1_formats := [("A", mkFormat [Dense; Dense; Compressed] [0; 1; 2]);
                          ("B", mkFormat [Dense; Compressed; Compressed] [0; 1; 2])].

Lemma C08_generate_total_refuted :
  exists a fs ks, wf_problem a fs = true /\
    ~ (generate a fs ks = Code \/ generate a fs ks = Diagonal \/ generate a fs ks = NoKernel).
Proof.
  exists k1_assign, k1_formats, [Evaluate]. split; [vm_compute; reflexivity|].
  assert (E : generate k1_assign k1_formats [Evaluate] = InternalAppendNextOutput) by (vm_compute; reflexivity).
  rewrite E. intros [H|[H|H]]; discriminate.
Qed.

Lemma C08_tensor_method_total_refuted :
  exists a fs, wf_problem a fs = true /\ tensor_method a fs = InternalAppendNextOutput.
Proof. exists k1_assign, k1_formats. vm_compute. split; reflexivity. Qed.

(** the repaired enumeration answers NoKernel here (no other graph exists) *)
Lemma k1_filtered : generate_filtered k1_assign k1_formats [Evaluate] = NoKernel.
Proof. vm_compute. reflexivity. Qed.
