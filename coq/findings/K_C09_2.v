(** Known finding K-C09-2 (F5): a coordinate outside the dimensions is silently dropped by the
    constructors when the first level (in storage order) at which it is out of range is dense;
    it is rejected when that level is compressed. *)
From Coq Require Import ZArith List. Import ListNotations.
From TV Require Import spec.Storage model.TensorBuild proofs.TensorBuildTop.
Open Scope Z_scope.

Lemma out_of_range_rejected_refuted :
  exists fmt dims es t,
    valid_formatb fmt = true /\ all_in_rangeb dims es = false /\
    build fmt dims es = Ok t /\ to_dok_spec t = [] /\ to_dok_impl t = [].
Proof.
  exists (mkFormat [MDense] [0%nat]), [2], [([5], 1)].
  eexists. repeat split; vm_compute; reflexivity.
Qed.

(** negative coordinate, and a dense level below a compressed one (a trace is left: an all-zero row) *)
Lemma out_of_range_rejected_refuted_negative :
  exists t, build (mkFormat [MDense] [0%nat]) [2] [([-1], 1)] = Ok t /\ to_dok_spec t = [].
Proof. eexists. split; vm_compute; reflexivity. Qed.

Lemma out_of_range_rejected_refuted_below_compressed :
  exists t, build (mkFormat [MCompressed; MDense] [0; 1]%nat) [2; 2] [([0; 5], 1)] = Ok t /\
            to_dok_spec t = [] /\ levels t = [LCompressed [0; 1] [0]; LDense] /\ vals t = [0; 0].
Proof. eexists. repeat split; vm_compute; reflexivity. Qed.

(** the compressed counterpart is rejected *)
Lemma out_of_range_compressed_rejected :
  build (mkFormat [MCompressed] [0%nat]) [2] [([5], 1)] = Err EValue.
Proof. vm_compute. reflexivity. Qed.

(** the full statement of props/C09.v ([C09_out_of_range_rejected_full]) is false for [build] *)
Lemma C09_out_of_range_rejected_refuted :
  ~ (forall fmt dims es,
       valid_formatb fmt = true -> dims_okb fmt dims = true ->
       all_in_rangeb dims es = false -> exists err, build fmt dims es = Err err).
Proof.
  intros H. destruct (H (mkFormat [MDense] [0%nat]) [2] [([5], 1)] eq_refl eq_refl eq_refl) as [err E].
  vm_compute in E. discriminate.
Qed.
