(** Known finding K-C09-1 (F1): Tensor.items, as written in /repo today ([items_impl]), applies
    mode_ordering where its inverse is needed.  The round trip through from_dok / to_dok is therefore
    refuted for orderings that are not their own inverse; the stored arrays are right
    ([items_spec] = Storage.entries reads the same tensor back correctly). *)
From Coq Require Import ZArith List. Import ListNotations.
From TV Require Import spec.Storage model.TensorBuild.
Open Scope Z_scope.

Definition k1_fmt : format := mkFormat [MDense; MDense; MDense] [2; 0; 1]%nat.
Definition k1_dims : list Z := [2; 3; 4].
Definition k1_entries : list entry := [([0; 1; 2], 1)].

(** the full-strength statement for a reading function [rd] *)
Definition roundtrip_statement (rd : tensor Z -> list entry) : Prop :=
  forall fmt dims es t,
    valid_formatb fmt = true -> all_in_rangeb dims es = true ->
    build fmt dims es = Ok t ->
    forall c v, In (c, v) (rd t) -> In (c, v) es \/ v <> 1.

Lemma items_roundtrip_refuted :
  exists fmt dims es t,
    valid_formatb fmt = true /\ all_in_rangeb dims es = true /\ build fmt dims es = Ok t /\
    to_dok_impl t = [([1; 2; 0], 1)] /\        (* what comes back today *)
    to_dok_spec t = es /\                       (* what is stored *)
    to_dok_impl t <> es.
Proof.
  exists k1_fmt, k1_dims, k1_entries.
  eexists. repeat split; try (vm_compute; reflexivity).
  vm_compute. discriminate.
Qed.

Lemma items_roundtrip_statement_refuted : ~ roundtrip_statement to_dok_impl.
Proof.
  intro H.
  destruct (build k1_fmt k1_dims k1_entries) as [t|] eqn:E; [|vm_compute in E; discriminate].
  specialize (H k1_fmt k1_dims k1_entries t eq_refl eq_refl E [1; 2; 0] 1).
  vm_compute in E. injection E as <-.
  destruct H as [H|H].
  - vm_compute. left. reflexivity.
  - vm_compute in H. destruct H as [H|[]]. discriminate.
  - apply H. reflexivity.
Qed.

(** to_format loses the entry on the same witness: the wrongly permuted coordinate (1,2,0) is then
    also outside ... here inside the dimensions (2,3,4), so it is stored at the wrong place. *)
Lemma to_format_refuted :
  exists t t', build k1_fmt k1_dims k1_entries = Ok t /\
    to_format_impl (mkFormat [MCompressed; MCompressed; MCompressed] [0; 1; 2]%nat) t = Ok t' /\
    to_dok_spec t' = [([1; 2; 0], 1)] /\ to_dok_spec t = [([0; 1; 2], 1)].
Proof. eexists. eexists. repeat split; vm_compute; reflexivity. Qed.
