(** Known finding K-C09-1 (F1): Tensor.items, as written in /repo before the repair ([items_impl]),
    applies mode_ordering where its inverse is needed.  The round trip through from_dok / to_dok is
    refuted for orderings that are not their own inverse; the stored arrays are right
    ([items_spec] = Storage.entries reads the same tensor back correctly).
    Witness: format d2d0d1, dimensions (2,3,4), entry (0,1,2) -> 1 reads back as (1,2,0). *)
From Coq Require Import ZArith List. Import ListNotations.
From TV Require Import spec.Storage model.TensorBuild proofs.TensorBuildLemmas proofs.TensorBuildTop.
Open Scope Z_scope.

Definition k1_fmt : format := mkFormat [MDense; MDense; MDense] [2; 0; 1]%nat.
Definition k1_dims : list Z := [2; 3; 4].
Definition k1_entries : list entry := [([0; 1; 2], 1)].

Lemma items_roundtrip_refuted :
  exists fmt dims es t,
    valid_formatb fmt = true /\ dims_okb fmt dims = true /\ all_in_rangeb dims es = true /\
    build fmt dims es = Ok t /\
    to_dok_impl t = [([1; 2; 0], 1)] /\        (* what comes back *)
    to_dok_spec t = es /\                       (* what is stored *)
    ~ (forall c v, In (c, v) (to_dok_impl t) <-> v = sum_at c es /\ v <> 0).
Proof.
  exists k1_fmt, k1_dims, k1_entries. eexists.
  split; [reflexivity|]. split; [reflexivity|]. split; [reflexivity|].
  split; [vm_compute; reflexivity|]. split; [vm_compute; reflexivity|]. split; [vm_compute; reflexivity|].
  intros H. specialize (H [1; 2; 0] 1). destruct H as [H _].
  destruct H as [H _]; [vm_compute; left; reflexivity|]. vm_compute in H. discriminate.
Qed.

(** the full-strength round-trip statement for the reading implemented before the repair
    (props/C09.v, [C09_roundtrip_impl_full]) is false *)
Lemma C09_roundtrip_impl_refuted :
  ~ (forall fmt dims es,
       valid_formatb fmt = true -> dims_okb fmt dims = true -> all_in_rangeb dims es = true ->
       exists t, build fmt dims es = Ok t
         /\ (forall c v, In (c, v) (to_dok_impl t) <-> v = sum_at c es /\ v <> 0)).
Proof.
  intros H. destruct (H k1_fmt k1_dims k1_entries eq_refl eq_refl eq_refl) as (t & B & R).
  vm_compute in B. inversion B; subst t. clear B.
  specialize (R [1; 2; 0] 1). destruct R as [R _].
  destruct R as [R _]; [vm_compute; left; reflexivity|]. vm_compute in R. discriminate.
Qed.

(** to_format loses the entry on the same witness: it is stored under the wrongly permuted
    coordinate (1,2,0) in the target *)
Lemma to_format_refuted :
  exists t t', build k1_fmt k1_dims k1_entries = Ok t /\
    to_format_impl (mkFormat [MCompressed; MCompressed; MCompressed] [0; 1; 2]%nat) t = Ok t' /\
    to_dok_spec t' = [([1; 2; 0], 1)] /\ to_dok_spec t = [([0; 1; 2], 1)].
Proof. eexists. eexists. repeat split; vm_compute; reflexivity. Qed.
