(** Known finding K-C07-1: the FULL statement of C07 is refuted by the faithful model.
    [(x * 1.0) * y] with x = y = 2^20 (int32 variables): binary64 product 2^40 before optimisation,
    int32 overflow after ([x * 1.0] is rewritten to [x], which demotes the outer product).
    Outcomes are observed through booleans so that no float normal form is ever computed. *)

From Coq Require Import ZArith List String.
From TV Require Import spec.Num gen.IRAst gen.Peephole spec.IRSem proofs.PeepholeExpr props.C07.
Import ListNotations.

Definition k_c07_1_body : stmt :=
  Block [DeclarationAssignment (Declaration (Var "x") TInteger) (IntegerLiteral 1048576);
         DeclarationAssignment (Declaration (Var "y") TInteger) (IntegerLiteral 1048576);
         DeclarationAssignment (Declaration (Var "r") TFloat)
           (Multiply (Multiply (Var "x") (FloatLiteral F1)) (Var "y"));
         Return (IntegerLiteral 0)] None.

Definition k_c07_1_f : function_definition := FunctionDefinition (Var "k") [] TInteger k_c07_1_body.

Definition st0 : state := mkState [] (PM.empty _) 1%positive (PM.empty _) 0%Z.

Definition is_overflow (o : outcome) : bool :=
  match o with Fail EOverflow => true | _ => false end.

Lemma k_c07_1_original_completes : returns_zero (call 10 k_c07_1_f [] st0) = true.
Proof. vm_compute. reflexivity. Qed.

Lemma k_c07_1_optimised_overflows :
  is_overflow (call 10 (peephole_function_definition k_c07_1_f) [] st0) = true.
Proof. vm_compute. reflexivity. Qed.

Theorem C07_peephole_sound_refuted : ~ C07_peephole_sound_full.
Proof.
  intros H. pose proof k_c07_1_original_completes as E. pose proof k_c07_1_optimised_overflows as O.
  destruct (call 10 k_c07_1_f [] st0) as [| st' v tr | |] eqn:E1; try discriminate.
  destruct (H _ _ _ _ _ _ _ E1) as (tr' & E' & _).
  rewrite E' in O. discriminate.
Qed.
