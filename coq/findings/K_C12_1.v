(** K-C12-1 (known finding, property C12 "parsing never raises").
    Witness: an assignment whose right-hand side is a run of 4301 decimal digits.
    The proved model parses it (totality, C12_parse_total): the answer is a tree carrying the
    4301-digit number.  The implementation raises ValueError from int() (CPython's 4300-digit
    conversion limit) inside expression/_parser.py `integer` -- and the same in
    format/_parser.py `integer` for "d" followed by the digits.  So "implementation = model" is
    refuted on this input by the implementation; the check classifies it by
    (ValueError, message "Exceeds the limit (4300 digits)...", digit run > 4300). *)
From Coq Require Import String Ascii List NArith ZArith Bool.
From TV Require Import model.Parser model.FormatParser.
Import ListNotations.

Definition k_c12_1_digits : list ascii := repeat "1"%char 4301.
Definition k_c12_1_witness : string :=
  string_of_list_ascii (list_ascii_of_string "a() = " ++ k_c12_1_digits).

Lemma K_C12_1_model_answers :
  exists n : N, parse_assignment k_c12_1_witness = POk (Assign "a" [] (EInt n)) /\ (10 ^ 4300 <= n)%N.
Proof.
  exists (digits_val k_c12_1_digits). split.
  - vm_compute. reflexivity.
  - vm_compute. discriminate.
Qed.

Lemma K_C12_1_model_answers_format :
  parse_format (string_of_list_ascii ("d"%char :: k_c12_1_digits)) = FInvalid.
Proof. vm_compute. reflexivity. Qed.
