(** Known finding K-C06-1: codegen/_ir_to_c.py::ir_to_c_add prints no parentheses around either
    operand and ::ir_to_c_multiply none around a Multiply operand, so a right operand of the same
    precedence class is re-associated to the left by the C compiler.  The full statement
    [C06_cprint_derives_full] is refuted on the model (which the token correspondence ties to the
    real printer); the re-association changes the binary64 value. *)

From Coq Require Import ZArith Bool List String Lia.
From Flocq Require Import Core BinarySingleNaN.
From TV Require Import spec.Num gen.IRAst spec.IRSem spec.CGrammar model.CPrint
  proofs.CPrintDerives proofs.CPrintFacts proofs.CPrintParse.
Import ListNotations.
Local Open Scope nat_scope.

Definition k_c06_1_add : expr := Add (Var "x") (Add (Var "y") (Var "z")).
Definition k_c06_1_sub : expr := Add (Var "x") (Subtract (Var "y") (Var "z")).
Definition k_c06_1_mul : expr := Multiply (Var "x") (Multiply (Var "y") (Var "z")).

(** a well-typed tree whose printed text does not derive its own tree *)
Lemma not_exact e :
  wt_expr e = true -> alloc_ok e = true -> embed (rotate e) <> embed e ->
  ~ Derives (level_of e) (cprint e) (embed e).
Proof.
  intros Hw Ha Hne D. apply Hne.
  exact (derives_unique _ _ _ _ (cprint_derives_wt e Hw Ha) D).
Qed.

Theorem cprint_derives_exact_refuted :
  exists e, wt_expr e = true /\ alloc_ok e = true /\ ~ Derives (level_of e) (cprint e) (embed e).
Proof.
  exists k_c06_1_add. split; [reflexivity |]. split; [reflexivity |].
  apply not_exact; [reflexivity | reflexivity |]. vm_compute. discriminate.
Qed.

Theorem cprint_derives_exact_refuted_sub :
  ~ Derives (level_of k_c06_1_sub) (cprint k_c06_1_sub) (embed k_c06_1_sub).
Proof. apply not_exact; [reflexivity | reflexivity |]. vm_compute. discriminate. Qed.

Theorem cprint_derives_exact_refuted_mul :
  ~ Derives (level_of k_c06_1_mul) (cprint k_c06_1_mul) (embed k_c06_1_mul).
Proof. apply not_exact; [reflexivity | reflexivity |]. vm_compute. discriminate. Qed.

(** the computational reading: the parser reads the left-nested tree from [x + y + z] *)
Theorem cparse_left_nests :
  cprint k_c06_1_add = [TId "x"; TPlus; TId "y"; TPlus; TId "z"] /\
  cparse (cprint k_c06_1_add)
    = Some (CBin OAdd (CBin OAdd (CVar "x") (CVar "y")) (CVar "z")) /\
  embed k_c06_1_add = CBin OAdd (CVar "x") (CBin OAdd (CVar "y") (CVar "z")).
Proof. vm_compute. repeat split. Qed.

(** and it matters: 0.1 + (0.2 + 0.3) and (0.1 + 0.2) + 0.3 are different binary64 numbers, so the
    IR machine gives the rotated tree a different value *)
Definition f01 : F := Fmake false 3602879701896397 (-55).   (* 0.1 *)
Definition f02 : F := Fmake false 3602879701896397 (-54).   (* 0.2 *)
Definition f03 : F := Fmake false 5404319552844595 (-54).   (* 0.3 *)
Definition k_c06_1_float : expr :=
  Add (FloatLiteral f01) (Add (FloatLiteral f02) (FloatLiteral f03)).
Definition st0 : state := mkState [] (PM.empty block) 1%positive (PM.empty tensor_s) 0%Z.

Definition value_of (r : res (value * list event)) : option F :=
  match r with Ok (VFloat f, _) => Some f | _ => None end.

Definition both_finite_and_different (r1 r2 : res (value * list event)) : bool :=
  match value_of r1, value_of r2 with
  | Some a, Some b => is_finite a && is_finite b && negb (Feqb a b)
  | _, _ => false
  end.

Theorem rotate_changes_binary64_value :
  both_finite_and_different (eval st0 k_c06_1_float) (eval st0 (rotate k_c06_1_float)) = true.
Proof. vm_compute. reflexivity. Qed.

(** Outside the typing guard the printer is wrong in other ways (no finding: such trees are
    ill-typed for the IR machine and for the LLVM back end): [a == (b == c)] prints as
    [a == b == c], [a * (b == c)] as [a * b == c]. *)
Lemma not_top_derives e t' :
  cparse (cprint e) = Some t' -> t' <> embed e -> ~ Derives (level_of e) (cprint e) (embed e).
Proof.
  intros Hp Hne D. apply Hne. apply cparse_sound in Hp.
  apply (derives_unique 0 (cprint e)); [exact Hp |].
  apply derives_sub with (l := level_of e); [exact D | lia].
Qed.

Theorem guard_needed_equal :
  let e := Equal (Var "a") (Equal (Var "b") (Var "c")) in
  wt_expr e = false /\ ~ Derives (level_of e) (cprint e) (embed e).
Proof.
  split; [reflexivity |]. eapply not_top_derives; [vm_compute; reflexivity | discriminate].
Qed.

Theorem guard_needed_multiply :
  let e := Multiply (Var "a") (Equal (Var "b") (Var "c")) in
  wt_expr e = false /\ ~ Derives (level_of e) (cprint e) (embed e).
Proof.
  split; [reflexivity |]. eapply not_top_derives; [vm_compute; reflexivity | discriminate].
Qed.
