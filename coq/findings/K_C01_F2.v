(** Known finding K-C01-F2 (DESIGN section 5, F2): desugar_add / desugar_subtract /
    desugar_multiply of /repo hoist every contraction index shared by their two operands,
    although some additive term below may lack that index; such a term is then summed
    [size k] times.  [desugar ord false] is the model of the function as it is today
    (model/DesugarSem.v; the C01 check decides by correspondence that /repo implements it).

    The full-strength statement for today's function is refuted, for the sorted oracle (which is a
    legal oracle: [ord_sorted_perm]) and therefore for the universally quantified statement.
    Witnesses (computed by vm_compute, replayed on the implementation by the check):
      o() = X() + Y(k) + Z(k)          X=2, Y=[1,2,3], Z=[10,20,30]     72 instead of 68
      o() = (Y(k) + X()) * (Z(k) + E())    ... E=5                      320 instead of 300  *)

From Coq Require Import ZArith List String Permutation.
From TV Require Import spec.Storage spec.Spec model.DesugarSem proofs.DesugarSemProofs.
Import ListNotations.
Open Scope string_scope.
Open Scope Z_scope.

Definition f2_add : assignment ZOps :=
  mkAssign "o" [] (EAdd (EAdd (ETensor "X" []) (ETensor "Y" ["k"])) (ETensor "Z" ["k"])).

Definition f2_add_commuted : assignment ZOps :=
  mkAssign "o" [] (EAdd (EAdd (ETensor "Y" ["k"]) (ETensor "Z" ["k"])) (ETensor "X" [])).

Definition f2_mul : assignment ZOps :=
  mkAssign "o" []
    (EMul (EAdd (ETensor "Y" ["k"]) (ETensor "X" [])) (EAdd (ETensor "Z" ["k"]) (ETensor "E" []))).

Definition f2_inputs : list (string * tensor Z) :=
  [("X", mkTensor [] [] [] [2]);
   ("Y", mkTensor [3] [0%nat] [LDense] [1; 2; 3]);
   ("Z", mkTensor [3] [0%nat] [LDense] [10; 20; 30]);
   ("E", mkTensor [] [] [] [5])].

Definition f2_env : env ZOps := env_of_stored (O := ZOps) f2_inputs.
Definition f2_sizes : string -> Z := sizes_of [("k", 3)].

(** what today's desugaring denotes, and what the assignment means *)
Definition today (a : assignment ZOps) : Z :=
  denote_at (O := ZOps) (tgt_idx a) f2_env f2_sizes (desugar_rhs ord_sorted false a) [].
Definition meaning (a : assignment ZOps) : Z := spec (O := ZOps) a f2_env f2_sizes [].

Lemma f2_values :
  (today f2_add, meaning f2_add) = (72, 68)
  /\ (today f2_add_commuted, meaning f2_add_commuted) = (68, 68)
  /\ (today f2_mul, meaning f2_mul) = (320, 300).
Proof. vm_compute. repeat split. Qed.

(** the statement [C01_desugar_correct] would make about today's function *)
Definition desugar_correct_today : Prop :=
  forall (ord : nat -> list string -> list string),
    (forall n l, Permutation (ord n l) l) ->
    forall (a : assignment ZOps) (E : env ZOps) (sizes : string -> Z) (c : list Z),
      denote_at (O := ZOps) (tgt_idx a) E sizes (desugar_rhs ord false a) c
      = spec (O := ZOps) a E sizes c.

Lemma desugar_correct_refuted :
  exists (a : assignment ZOps) (E : env ZOps) (sizes : string -> Z) (c : list Z),
    denote_at (O := ZOps) (tgt_idx a) E sizes (desugar_rhs ord_sorted false a) c
    <> spec (O := ZOps) a E sizes c.
Proof.
  exists f2_add, f2_env, f2_sizes, []. vm_compute. discriminate.
Qed.

Lemma desugar_correct_refuted_multiply :
  exists (a : assignment ZOps) (E : env ZOps) (sizes : string -> Z) (c : list Z),
    denote_at (O := ZOps) (tgt_idx a) E sizes (desugar_rhs ord_sorted false a) c
    <> spec (O := ZOps) a E sizes c.
Proof.
  exists f2_mul, f2_env, f2_sizes, []. vm_compute. discriminate.
Qed.

Lemma desugar_correct_today_refuted : ~ desugar_correct_today.
Proof.
  intro H. specialize (H ord_sorted ord_sorted_perm f2_add f2_env f2_sizes []).
  vm_compute in H. discriminate.
Qed.

(** meaning of the assignment is the same for the two orders of the operands; today's result
    is not (the observable symptom: 72 vs 68) *)
Lemma commutation_not_respected_today : today f2_add <> today f2_add_commuted.
Proof. vm_compute. discriminate. Qed.

(** the witnesses are outside the guard of [C01_desugar_correct_partial] ... *)
Lemma f2_witnesses_not_hoist_ok :
  assignment_hoist_ok f2_add = false /\ assignment_hoist_ok f2_mul = false
  /\ assignment_hoist_ok f2_add_commuted = true.
Proof. vm_compute. repeat split. Qed.

(** ... and the repaired function gets them right *)
Lemma f2_repaired :
  denote_at (O := ZOps) [] f2_env f2_sizes (desugar_rhs ord_sorted true f2_add) [] = 68
  /\ denote_at (O := ZOps) [] f2_env f2_sizes (desugar_rhs ord_sorted true f2_mul) [] = 300.
Proof. vm_compute. split; reflexivity. Qed.

Print Assumptions desugar_correct_refuted.
Print Assumptions desugar_correct_today_refuted.
