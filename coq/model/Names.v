(** * Names: transcription of /repo/src/tensora/iteration_graph/_names.py (property C08)

    Every function is the Python f-string, written with string concatenation.  [nat_str] is
    Python's [str(int)] for a non-negative layer number (decimal, no sign, no leading zeros).
    Tensor ids are the strings ["<id>_<name>"] built in desugar/_to_identifiable.py and
    _to_iteration_graphs.py ([reference] below).

    The two names built in outputs/_bucket.py (BucketOutput.name / loop_name) are transcribed too,
    because they are declared in the same C scope / LLVM [locals] dictionary.

    No proofs in this file. *)

From Coq Require Import String Ascii List Arith Bool DecimalNat DecimalString Decimal.
Import ListNotations.
Open Scope string_scope.
Open Scope bool_scope.

Definition nat_str (n : nat) : string := NilEmpty.string_of_uint (Nat.to_uint n).

(** f"{id}_{name}" *)
Definition reference (id : nat) (name : string) : string := nat_str id ++ "_" ++ name.

Definition dimension_name (index_variable : string) : string := index_variable ++ "_dim".
Definition pos_name (tensor : string) (layer : nat) : string := tensor ++ "_" ++ nat_str layer ++ "_pos".
Definition crd_name (tensor : string) (layer : nat) : string := tensor ++ "_" ++ nat_str layer ++ "_crd".
Definition vals_name (tensor : string) : string := tensor ++ "_vals".
Definition pos_capacity_name (tensor : string) (layer : nat) : string :=
  tensor ++ "_" ++ nat_str layer ++ "_pos_capacity".
Definition crd_capacity_name (tensor : string) (layer : nat) : string :=
  tensor ++ "_" ++ nat_str layer ++ "_crd_capacity".
Definition vals_capacity_name (tensor : string) : string := tensor ++ "_vals_capacity".
Definition layer_pointer (ref : string) (layer : nat) : string := "p_" ++ ref ++ "_" ++ nat_str layer.
Definition sparse_end_name (ref : string) (layer : nat) : string :=
  "p_" ++ ref ++ "_" ++ nat_str layer ++ "_end".
Definition value_from_crd (ref : string) (layer : nat) : string := "i_" ++ ref ++ "_" ++ nat_str layer.
Definition written_name (tensor : string) (layer : nat) : string :=
  "written_" ++ tensor ++ "_" ++ nat_str layer.

(** outputs/_bucket.py: f"bucket_{self.output.id}{''.join(f'_{x}' for x in self.layers)}" *)
Fixpoint layer_suffix (layers : list nat) : string :=
  match layers with
  | [] => ""
  | x :: r => "_" ++ nat_str x ++ layer_suffix r
  end.
Definition bucket_name (ref : string) (layers : list nat) : string := "bucket_" ++ ref ++ layer_suffix layers.
Definition bucket_loop_name (ref : string) (layers : list nat) : string :=
  "i_bucket_" ++ ref ++ layer_suffix layers.

(** ** The generated names as a datatype: which function, applied to what *)
Inductive gname :=
| NDim (index : string)
| NPos (tensor : string) (layer : nat)
| NCrd (tensor : string) (layer : nat)
| NVals (tensor : string)
| NPosCap (tensor : string) (layer : nat)
| NCrdCap (tensor : string) (layer : nat)
| NValsCap (tensor : string)
| NLayerPtr (id : nat) (tensor : string) (layer : nat)
| NSparseEnd (id : nat) (tensor : string) (layer : nat)
| NValueFromCrd (id : nat) (tensor : string) (layer : nat)
| NWritten (tensor : string) (layer : nat).

Definition render (g : gname) : string :=
  match g with
  | NDim i => dimension_name i
  | NPos t l => pos_name t l
  | NCrd t l => crd_name t l
  | NVals t => vals_name t
  | NPosCap t l => pos_capacity_name t l
  | NCrdCap t l => crd_capacity_name t l
  | NValsCap t => vals_capacity_name t
  | NLayerPtr id t l => layer_pointer (reference id t) l
  | NSparseEnd id t l => sparse_end_name (reference id t) l
  | NValueFromCrd id t l => value_from_crd (reference id t) l
  | NWritten t l => written_name t l
  end.

(** the identifier the name is built from *)
Definition gname_ident (g : gname) : string :=
  match g with
  | NDim i => i
  | NPos t _ | NCrd t _ | NVals t | NPosCap t _ | NCrdCap t _ | NValsCap t
  | NLayerPtr _ t _ | NSparseEnd _ t _ | NValueFromCrd _ t _ | NWritten t _ => t
  end.

(** ** Legal identifiers: the parser's [name] regex [A-Za-z][A-Za-z0-9]* *)
Definition is_letter (c : ascii) : bool :=
  let n := nat_of_ascii c in
  ((65 <=? n)%nat && (n <=? 90)%nat) || ((97 <=? n)%nat && (n <=? 122)%nat).
Definition is_digit (c : ascii) : bool :=
  let n := nat_of_ascii c in ((48 <=? n)%nat && (n <=? 57)%nat).

Fixpoint all_chars (p : ascii -> bool) (s : string) : bool :=
  match s with
  | EmptyString => true
  | String c r => p c && all_chars p r
  end.

Definition identb (s : string) : bool :=
  match s with
  | EmptyString => false
  | String c r => is_letter c && all_chars (fun c => is_letter c || is_digit c) r
  end.
