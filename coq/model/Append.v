(** The output-assembly protocol of tensora's kernels as a small state machine (shared by C02 and
    C05).  Hand transcription of

      outputs/_append.py::AppendOutput.write_declarations   -> [decl_level], [decl_vals]
      _write_sparse_ir.py::write_crd_assembly               -> [crd_assembly] (+ cursor: [append])
      _write_sparse_ir.py::write_pos_allocation             -> [grow_double] / [grow_max]
                                                               ([pos_allocation], [vals_allocation])
      _write_sparse_ir.py::write_pos_assembly               -> [pos_assembly]
      outputs/_append.py::AppendOutput.write_cleanup        -> [cleanup], [cleanup_vals]

    for ONE compressed output level (its pos / crd arrays and its cursor p_<out>_<l>) and for the
    value array.  Arrays are lists of cells, a cell is [None] until it is stored to; a store
    outside the CURRENT allocation is an error ([None] result), never a silent success.  Capacity
    variables are kept separately from the allocation, as in the generated code.

    How the generated loops drive these operations (iteration_graph/_generate_ir.py, IterationNode):
    the node of the compressed level runs once per parent position; for each coordinate it visits
    whose subtree raised the level's written flag it appends the coordinate ([append]); when its
    loop ends it closes the parent ([pos_assembly]).  If a compressed level lies above, that
    level's node calls write_pos_allocation before running the subtree of each of ITS coordinates
    ([pos_allocation], target = our pos array), then runs our node for the D parent positions
    below that coordinate (D = product of the dense dimensions in between; D = 1 when there are
    none), and afterwards advances its own cursor only if something was written below; when it
    does not advance, the same parent positions are visited again by its next coordinate and the
    pos cells are overwritten ("scratch").  A [visit] is one such group.

    No proofs here (proofs/AppendProofs.v). *)

From Coq Require Import ZArith List Bool Lia.
From TV Require Import spec.Storage.
Import ListNotations.
Open Scope Z_scope.

(** * Arrays *)

Definition arr := list (option Z).

Definition alloc (n : Z) : arr := repeat None (Z.to_nat n).

(** [realloc a n]: the first [min n (len a)] cells survive, new cells are uninitialised. *)
Definition realloc (a : arr) (n : Z) : arr :=
  firstn (Z.to_nat n) a ++ repeat None (Z.to_nat n - length a).

(** A store outside the allocation is an error. *)
Definition store (a : arr) (i v : Z) : option arr :=
  if (0 <=? i) && (i <? zlen a)
  then Some (firstn (Z.to_nat i) a ++ Some v :: skipn (S (Z.to_nat i)) a)
  else None.

(** All cells initialised? *)
Fixpoint contents (a : arr) : option (list Z) :=
  match a with
  | [] => Some []
  | Some v :: r => match contents r with Some l => Some (v :: l) | None => None end
  | None :: _ => None
  end.

(** A growable array: capacity variable + allocation. *)
Record buf : Type := mkBuf { b_cap : Z; b_arr : arr }.

(** [if (minimum >= capacity) { capacity = capacity * 2; a = realloc(a, capacity); }] *)
Definition grow_double (b : buf) (minimum : Z) : buf :=
  if minimum >=? b_cap b
  then let c := b_cap b * 2 in mkBuf c (realloc (b_arr b) c)
  else b.

(** [if (minimum >= capacity) { capacity = max(capacity * 2, minimum); a = realloc(a, capacity); }] *)
Definition grow_max (b : buf) (minimum : Z) : buf :=
  if minimum >=? b_cap b
  then let c := Z.max (b_cap b * 2) minimum in mkBuf c (realloc (b_arr b) c)
  else b.

Definition bstore (b : buf) (i v : Z) : option buf :=
  match store (b_arr b) i v with
  | Some a => Some (mkBuf (b_cap b) a)
  | None => None
  end.

(** * One compressed output level *)

Record lstate : Type := mkL { s_pos : buf; s_crd : buf; s_cur : Z }.

(** What lies above the level. *)
Inductive parent_kind : Type :=
  | PFixed                (* only dense levels above: pos is allocated with its exact size *)
  | PDouble               (* a compressed level directly above: pos grows by doubling *)
  | PMax (D : Z).         (* a compressed level above, dense levels of total size D in between *)

(** write_declarations, compressed branch (assemble):
      pos_capacity = pos_size; pos = alloc(pos_capacity); pos[0] = 0;
      crd_capacity = c0;       crd = alloc(crd_capacity);  p = 0;
    [pos_size] is (product of the dense dimensions above) + 1 for [PFixed], the initial capacity
    [c0] otherwise. *)
Definition decl_level (pos_size c0 : Z) : option lstate :=
  match store (alloc pos_size) 0 0 with
  | Some p => Some (mkL (mkBuf pos_size p) (mkBuf c0 (alloc c0)) 0)
  | None => None
  end.

(** write_crd_assembly:  if (p >= crd_capacity) { double }  crd[p] = i; *)
Definition crd_assembly (st : lstate) (c : Z) : option lstate :=
  match bstore (grow_double (s_crd st) (s_cur st)) (s_cur st) c with
  | Some crd => Some (mkL (s_pos st) crd (s_cur st))
  | None => None
  end.

(** crd assembly followed by the cursor increment ([if (written) { crd assembly; p++; }]) *)
Definition append (st : lstate) (c : Z) : option lstate :=
  match crd_assembly st c with
  | Some st' => Some (mkL (s_pos st') (s_crd st') (s_cur st' + 1))
  | None => None
  end.

Fixpoint append_all (st : lstate) (s : list Z) : option lstate :=
  match s with
  | [] => Some st
  | c :: r => match append st c with Some st' => append_all st' r | None => None end
  end.

(** write_pos_assembly:  pos[parent + 1] = p; *)
Definition pos_assembly (st : lstate) (parent : Z) : option lstate :=
  match bstore (s_pos st) (parent + 1) (s_cur st) with
  | Some pos => Some (mkL pos (s_crd st) (s_cur st))
  | None => None
  end.

(** write_pos_allocation emitted by the compressed level above (cursor [pp]) for our pos array
    (bonus 1):  no dense levels in between: minimum = pp + 1, doubling;
                otherwise: minimum = (pp + 1) * D + 1, capacity = max(2 * capacity, minimum). *)
Definition pos_allocation (k : parent_kind) (st : lstate) (pp : Z) : lstate :=
  match k with
  | PFixed => st
  | PDouble => mkL (grow_double (s_pos st) (pp + 1)) (s_crd st) (s_cur st)
  | PMax D => mkL (grow_max (s_pos st) ((pp + 1) * D + 1)) (s_crd st) (s_cur st)
  end.

(** The level's node, run for consecutive parent positions [parent, parent+1, ...], one segment of
    appended coordinates each. *)
Fixpoint run_segs (st : lstate) (parent : Z) (segs : list (list Z)) : option lstate :=
  match segs with
  | [] => Some st
  | s :: r =>
      match append_all st s with
      | Some st1 =>
          match pos_assembly st1 parent with
          | Some st2 => run_segs st2 (parent + 1) r
          | None => None
          end
      | None => None
      end
  end.

(** One coordinate of the level above: the segments appended under its parent positions, and
    whether the level above then advanced its cursor. *)
Record visit : Type := mkVisit { v_segs : list (list Z); v_adv : bool }.

Definition group_size (k : parent_kind) : Z :=
  match k with PFixed => 0 | PDouble => 1 | PMax D => D end.

Fixpoint run_visits (k : parent_kind) (st : lstate) (pp : Z) (vs : list visit) : option (lstate * Z) :=
  match vs with
  | [] => Some (st, pp)
  | v :: r =>
      match run_segs (pos_allocation k st pp) (pp * group_size k) (v_segs v) with
      | Some st' => run_visits k st' (if v_adv v then pp + 1 else pp) r
      | None => None
      end
  end.

(** write_cleanup for the level: pos -> previous_size + 1 (not when everything above is dense),
    crd -> cursor. *)
Definition cleanup (k : parent_kind) (st : lstate) (previous_size : Z) : lstate :=
  let pos := match k with
             | PFixed => s_pos st
             | _ => mkBuf (b_cap (s_pos st)) (realloc (b_arr (s_pos st)) (previous_size + 1))
             end in
  mkL pos (mkBuf (b_cap (s_crd st)) (realloc (b_arr (s_crd st)) (s_cur st))) (s_cur st).

(** Number of parent positions of the level at the end. *)
Definition advances (vs : list visit) : Z := zlen (filter v_adv vs).

Definition parents_of (k : parent_kind) (vs : list visit) : Z :=
  match k with
  | PFixed => zlen (flat_map v_segs vs)
  | _ => advances vs * group_size k
  end.

(** The whole life of the level: declarations, all visits, cleanup; the returned arrays. *)
Definition run_level (k : parent_kind) (c0 : Z) (vs : list visit) : option (list Z * list Z) :=
  let pos_size := match k with PFixed => zlen (flat_map v_segs vs) + 1 | _ => c0 end in
  match decl_level pos_size c0 with
  | None => None
  | Some st0 =>
      match run_visits k st0 0 vs with
      | None => None
      | Some (st, pp) =>
          let st' := cleanup k st (match k with PFixed => zlen (flat_map v_segs vs) | _ => pp * group_size k end) in
          match contents (b_arr (s_pos st')), contents (b_arr (s_crd st')) with
          | Some pos, Some crd => Some (pos, crd)
          | _, _ => None
          end
      end
  end.

(** Traces that the generated loops can produce. *)
Definition is_nil {A} (l : list A) : bool := match l with [] => true | _ => false end.

Definition seg_okb (d : Z) (s : list Z) : bool :=
  strictly_increasing s && forallb (fun c => (0 <=? c) && (c <? d)) s.

Definition visit_okb (k : parent_kind) (v : visit) : bool :=
  match k with
  | PFixed => true
  | _ => (zlen (v_segs v) =? group_size k) && (v_adv v || forallb is_nil (v_segs v))
  end.

Definition trace_okb (k : parent_kind) (d : Z) (vs : list visit) : bool :=
  forallb (visit_okb k) vs
  && forallb (seg_okb d) (flat_map v_segs vs)
  && match k with PFixed => (zlen vs =? 1) | PDouble => true | PMax D => 0 <=? D end.

(** The segments that end up stored. *)
Definition stored_segs (k : parent_kind) (vs : list visit) : list (list Z) :=
  match k with
  | PFixed => flat_map v_segs vs
  | _ => flat_map v_segs (filter v_adv vs)
  end.

Fixpoint offsets (start : Z) (segs : list (list Z)) : list Z :=
  match segs with
  | [] => []
  | s :: r => (start + zlen s) :: offsets (start + zlen s) r
  end.

Definition pos_of_segs (segs : list (list Z)) : list Z := 0 :: offsets 0 segs.

(** * The value array *)

(** The value array is grown by write_pos_allocation of the LAST compressed level (bonus 0):
    no dense levels below: minimum = p, doubling; otherwise minimum = (p + 1) * Dv with
    Dv = product of the trailing dense dimensions.  Under the coordinate being visited (cursor p)
    the kernel stores values at p * Dv + j, 0 <= j < Dv -- before it knows whether the coordinate
    will be kept, hence one block of scratch space at the end. *)
Definition vals_allocation (k : parent_kind) (b : buf) (p : Z) : buf :=
  match k with
  | PFixed => b
  | PDouble => grow_double b p
  | PMax Dv => grow_max b ((p + 1) * Dv)
  end.

Fixpoint store_all (b : buf) (idx : list Z) : option buf :=
  match idx with
  | [] => Some b
  | i :: r => match bstore b i 0 with Some b' => store_all b' r | None => None end
  end.

(** [advs]: for every coordinate visited by the last compressed level, whether it was kept. *)
Fixpoint run_vals (k : parent_kind) (b : buf) (p : Z) (advs : list bool) : option (buf * Z) :=
  match advs with
  | [] => Some (b, p)
  | adv :: r =>
      let dv := group_size k in
      match store_all (vals_allocation k b p) (map (fun j => p * dv + j) (zrange dv)) with
      | Some b' => run_vals k b' (if adv then p + 1 else p) r
      | None => None
      end
  end.

(** write_cleanup: vals -> padded_size = (cursor + 1) * Dv; returns the final allocation length. *)
Definition run_vals_level (k : parent_kind) (c0 : Z) (advs : list bool) : option Z :=
  match run_vals k (mkBuf c0 (alloc c0)) 0 advs with
  | Some (b, p) => Some (zlen (realloc (b_arr b) ((p + 1) * group_size k)))
  | None => None
  end.
