(* TIE "ownership" — the abstract cffi / CPython interface over which the storage-ownership functions of
     compile/_cffi_ownership.py, compile/_tensor_method.py (TensorMethod.__call__, tail), tensor.py
   are REGENERATED as effect programs (coq/gen/OwnershipGen.v, by tools/py2coq/extra_ownership.py).

   This file is hand-written and fixed: it says what each interface call does to a small machine state
   (C structures, dict objects, the weak dictionary, the heap of Ownership.v, the trace of free() calls).
   It is the MODELLED part: ffi.new / ffi.gc / ffi.cast, field reads and writes of taco_tensor_t, Python
   lists / dicts / tuples of dynamically typed values, the kernel.  CPython's reference counting of the
   structures and wrappers themselves ("a weak-dictionary entry lives as long as its key") is NOT here:
   that is Ownership.sweep.  What IS here is the one reference-counting fact the ownership functions rely
   on: storing a new value in a slot of a holder drops the value that was there (its destructor runs).

   Executable, total, no proofs (proofs: proofs/GenOwnership_equiv.v). *)
From Coq Require Import List Arith Bool PeanoNat ZArith String.
From TV Require Import model.Ownership.
Import ListNotations.
Open Scope string_scope.
Open Scope list_scope.

(* ------------------------------------------------------------------ values *)

Inductive ptr :=
| Null
| Arr (a : nat)     (* a pos / crd / vals array: a block of Ownership.heap *)
| Meta (n : nat)    (* a metadata block (dimensions, mode_ordering, mode_types, indices, indices[i]): not in Ownership.v *)
| SPtr (s : nat).   (* the taco_tensor_t itself *)

(* dynamically typed Python values *)
Inductive pv :=
| PUnbound                          (* a local that has not been assigned (reading it: NameError) *)
| PNone
| PBool (b : bool)
| PInt (z : Z)
| PStr (s : string)
| PMode (z : Z)                     (* a format.Mode; .c_int = z *)
| PList (l : list pv)               (* list / tuple, by value *)
| PDictV (l : list (string * pv))   (* a dict that is only read (arguments), by value, insertion order *)
| PDict (h : nat)                   (* a dict OBJECT (a memory holder): by reference *)
| PPtr (p : ptr)                    (* a cdata pointer that owns nothing (field read, cast, ffi.NULL) *)
| PGc (p : ptr)                     (* ffi.gc(p, free): its destructor calls free(p) *)
| PNewArr (a : nat)                 (* ffi.new("T[]", data) for a pos / crd / vals array: owns block a *)
| PNewMeta (n : nat) (c : list pv)  (* ffi.new for a metadata array, with the values it was initialised from *)
| PStruct (s : nat)                 (* the cdata taco_tensor_t* *)
| PCField (s : nat) (f : string)    (* s.f for a metadata field: a view of C memory (read when subscripted) *)
| PCLevel (s : nat) (i : nat)       (* s.indices[i] *)
| PTensor (w : nat).                (* a tensora.Tensor *)

Inductive exc := KeyError | IndexError | ValueError | TypeError | NameError | AttributeError | RuntimeError
| CFault        (* a C read / write outside what the structure description covers *)
| Unmodelled.   (* a Python behaviour this interface does not describe (negative index, == on containers, …) *)

Inductive res (A : Type) := Ret (a : A) | Raise (e : exc).
Arguments Ret {A} a.
Arguments Raise {A} e.

(* the C structure as the ownership code sees it *)
Record sdesc := {
  sd_order : Z;
  sd_dims_p : ptr;
  sd_ordering_p : ptr;
  sd_types_p : ptr;
  sd_modes : list Z;                    (* mode_types[0..]: 0 dense, 1 compressed *)
  sd_indices_p : ptr;
  sd_levels : list (ptr * list ptr);    (* indices[i] and the pointers stored in it (none / pos, crd) *)
  sd_vals : ptr
}.

Definition sd_empty : sdesc :=
  {| sd_order := 0; sd_dims_p := Null; sd_ordering_p := Null; sd_types_p := Null; sd_modes := [];
     sd_indices_p := Null; sd_levels := []; sd_vals := Null |}.

Record mstate := {
  m_tensors : list (oid * oid);                 (* Tensor wrapper -> its cffi_tensor *)
  m_structs : list (oid * sdesc);
  m_dicts : list (nat * list (string * pv));    (* dict objects *)
  m_wkd : list (oid * nat);                     (* global_weakkeydict: structure -> dict object *)
  m_heap : list (addr * block);                 (* Ownership.heap *)
  m_frees : list addr;                          (* free() calls on array blocks, in order *)
  m_meta_frees : list ptr;                      (* free() calls on anything else *)
  m_gc_log : list ptr;                          (* the pointers ffi.gc was called on, in order *)
  m_next : nat;                                 (* Ownership.next: structures, wrappers, array blocks *)
  m_next_meta : nat                             (* metadata blocks and dict objects *)
}.

Definition m_init : mstate :=
  {| m_tensors := []; m_structs := []; m_dicts := []; m_wkd := []; m_heap := []; m_frees := [];
     m_meta_frees := []; m_gc_log := []; m_next := 0; m_next_meta := 0 |}.

(* what the (already compiled) kernel will do: which of its parameters is the output, whether the result
   has no stored entry (then realloc(crd, 0) leaves NULL), the value it returns *)
Record kenv := { k_out : nat; k_empty : bool; k_ret : Z }.

Definition M (A : Type) := kenv -> mstate -> mstate * res A.

Definition ret {A} (a : A) : M A := fun _ m => (m, Ret a).
Definition raise {A} (e : exc) : M A := fun _ m => (m, Raise e).
Definition mbind {A B} (x : M A) (f : A -> M B) : M B :=
  fun k m => match x k m with
             | (m', Ret a) => f a k m'
             | (m', Raise e) => (m', Raise e)
             end.

Notation "x <- e ;; k" := (mbind e (fun x => k)) (at level 61, e at next level, right associativity).
Notation "' p <- e ;; k" := (mbind e (fun p => k)) (at level 61, p pattern, e at next level, right associativity).

Definition get : M mstate := fun _ m => (m, Ret m).
Definition put (m : mstate) : M unit := fun _ _ => (m, Ret tt).
Definition env : M kenv := fun k m => (m, Ret k).
Definition lift {A} (o : option A) (e : exc) : M A := match o with Some a => ret a | None => raise e end.

Fixpoint mfold {A} (f : A -> pv -> M A) (l : list pv) (a : A) : M A :=
  match l with
  | [] => ret a
  | x :: r => a' <- f a x ;; mfold f r a'
  end.

Fixpoint mmap (f : pv -> M pv) (l : list pv) : M (list pv) :=
  match l with
  | [] => ret []
  | x :: r => y <- f x ;; ys <- mmap f r ;; ret (y :: ys)
  end.

(* ------------------------------------------------------------------ ownership of values *)

(* the array blocks a value owns (what is released when the last reference to it goes away) *)
Fixpoint owned (v : pv) : list hentry :=
  match v with
  | PGc (Arr a) => [HGc a]
  | PNewArr a => [HNew a]
  | PList l => (fix go (l : list pv) : list hentry :=
                  match l with [] => [] | x :: r => owned x ++ go r end) l
  | _ => []
  end.

(* free() calls on other things than array blocks (free(NULL) does nothing) *)
Fixpoint owned_meta (v : pv) : list ptr :=
  match v with
  | PGc (Meta n) => [Meta n]
  | PGc (SPtr s) => [SPtr s]
  | PList l => (fix go (l : list pv) : list ptr :=
                  match l with [] => [] | x :: r => owned_meta x ++ go r end) l
  | _ => []
  end.

Definition set_heap (m : mstate) (h : list (addr * block)) (fr : list addr) (mf : list ptr) : mstate :=
  {| m_tensors := m_tensors m; m_structs := m_structs m; m_dicts := m_dicts m; m_wkd := m_wkd m;
     m_heap := h; m_frees := fr; m_meta_frees := mf; m_gc_log := m_gc_log m;
     m_next := m_next m; m_next_meta := m_next_meta m |}.

(* the last reference to v goes away *)
Definition drop_value (v : pv) (m : mstate) : mstate :=
  set_heap m (release_all (map haddr (owned v)) (m_heap m))
             (m_frees m ++ gc_frees (owned v)) (m_meta_frees m ++ owned_meta v).

Definition drop (v : pv) : M unit := fun _ m => (drop_value v m, Ret tt).

(* ------------------------------------------------------------------ pure Python *)

Definition py_bound (v : pv) : M pv := match v with PUnbound => raise NameError | _ => ret v end.

Definition py_eq (a b : pv) : M bool :=
  match a, b with
  | PInt x, PInt y => ret (Z.eqb x y)
  | PStr x, PStr y => ret (String.eqb x y)
  | PBool x, PBool y => ret (Bool.eqb x y)
  | PNone, PNone => ret true
  | _, _ => raise Unmodelled
  end.

Definition py_lt (a b : pv) : M bool :=
  match a, b with PInt x, PInt y => ret (Z.ltb x y) | _, _ => raise TypeError end.

Definition py_len (v : pv) : M pv :=
  match v with
  | PList l => ret (PInt (Z.of_nat (List.length l)))
  | PDictV l => ret (PInt (Z.of_nat (List.length l)))
  | _ => raise TypeError
  end.

Definition py_iter (v : pv) : M (list pv) :=
  match v with
  | PList l => ret l
  | PDictV l => ret (map (fun p => PStr (fst p)) l)
  | _ => raise TypeError
  end.

Definition py_keys (v : pv) : M pv :=
  match v with PDictV l => ret (PList (map (fun p => PStr (fst p)) l)) | _ => raise AttributeError end.

Definition py_range (v : pv) : M pv :=
  match v with
  | PInt z => ret (PList (map (fun i => PInt (Z.of_nat i)) (seq 0 (Z.to_nat z))))
  | _ => raise TypeError
  end.

Fixpoint ints_of (l : list pv) : option (list Z) :=
  match l with
  | [] => Some []
  | PInt z :: r => option_map (cons z) (ints_of r)
  | _ => None
  end.

Definition zmem (z : Z) (l : list Z) : bool := existsb (Z.eqb z) l.
Definition zsubset (a b : list Z) : bool := forallb (fun x => zmem x b) a.

(* set(a) == set(b), for lists of int *)
Definition py_set_eq (a b : pv) : M bool :=
  match a, b with
  | PList x, PList y =>
      match ints_of x, ints_of y with
      | Some x', Some y' => ret (zsubset x' y' && zsubset y' x')
      | _, _ => raise Unmodelled
      end
  | _, _ => raise TypeError
  end.

(* x in (tuple of int) *)
Definition py_in (x l : pv) : M bool :=
  match x, l with
  | PInt z, PList y => match ints_of y with Some y' => ret (zmem z y') | None => raise Unmodelled end
  | _, _ => raise Unmodelled
  end.

Definition py_append (l x : pv) : M pv :=
  match l with PList y => ret (PList (y ++ [x])) | PUnbound => raise NameError | _ => raise AttributeError end.

Fixpoint enum_from (i : nat) (l : list pv) : list pv :=
  match l with [] => [] | x :: r => PList [PInt (Z.of_nat i); x] :: enum_from (S i) r end.

Definition py_enumerate (v : pv) : M pv := l <- py_iter v ;; ret (PList (enum_from 0 l)).

Fixpoint zip_strict (a b : list pv) : option (list pv) :=
  match a, b with
  | [], [] => Some []
  | x :: a', y :: b' => option_map (cons (PList [x; y])) (zip_strict a' b')
  | _, _ => None
  end.

Definition py_zip_strict (a b : pv) : M pv :=
  x <- py_iter a ;; y <- py_iter b ;; l <- lift (zip_strict x y) ValueError ;; ret (PList l).

Definition py_unpack2 (v : pv) : M (pv * pv) :=
  match v with
  | PList [a; b] => ret (a, b)
  | PList _ => raise ValueError
  | _ => raise TypeError
  end.

Definition py_attr (v : pv) (f : string) : M pv :=
  match v with
  | PMode z => if String.eqb f "c_int" then ret (PInt z) else raise AttributeError
  | _ => raise AttributeError
  end.

(* {k: v, **d} *)
Fixpoint sdict_set (k : string) (v : pv) (l : list (string * pv)) : list (string * pv) :=
  match l with
  | [] => [(k, v)]
  | (k', v') :: r => if String.eqb k' k then (k, v) :: r else (k', v') :: sdict_set k v r
  end.

Fixpoint sdict_get (k : string) (l : list (string * pv)) : option pv :=
  match l with
  | [] => None
  | (k', v) :: r => if String.eqb k' k then Some v else sdict_get k r
  end.

Definition py_dict_star (k v d : pv) : M pv :=
  match k, d with
  | PStr k', PDictV l => ret (PDictV (fold_left (fun acc p => sdict_set (fst p) (snd p) acc) l [(k', v)]))
  | _, _ => raise TypeError
  end.

(* ------------------------------------------------------------------ machine updates *)

Definition with_next (m : mstate) (n nm : nat) : mstate :=
  {| m_tensors := m_tensors m; m_structs := m_structs m; m_dicts := m_dicts m; m_wkd := m_wkd m;
     m_heap := m_heap m; m_frees := m_frees m; m_meta_frees := m_meta_frees m; m_gc_log := m_gc_log m;
     m_next := n; m_next_meta := nm |}.

Definition with_structs (m : mstate) (s : list (oid * sdesc)) : mstate :=
  {| m_tensors := m_tensors m; m_structs := s; m_dicts := m_dicts m; m_wkd := m_wkd m;
     m_heap := m_heap m; m_frees := m_frees m; m_meta_frees := m_meta_frees m; m_gc_log := m_gc_log m;
     m_next := m_next m; m_next_meta := m_next_meta m |}.

Definition with_dicts (m : mstate) (d : list (nat * list (string * pv))) : mstate :=
  {| m_tensors := m_tensors m; m_structs := m_structs m; m_dicts := d; m_wkd := m_wkd m;
     m_heap := m_heap m; m_frees := m_frees m; m_meta_frees := m_meta_frees m; m_gc_log := m_gc_log m;
     m_next := m_next m; m_next_meta := m_next_meta m |}.

Definition with_wkd (m : mstate) (w : list (oid * nat)) : mstate :=
  {| m_tensors := m_tensors m; m_structs := m_structs m; m_dicts := m_dicts m; m_wkd := w;
     m_heap := m_heap m; m_frees := m_frees m; m_meta_frees := m_meta_frees m; m_gc_log := m_gc_log m;
     m_next := m_next m; m_next_meta := m_next_meta m |}.

Definition with_tensors (m : mstate) (t : list (oid * oid)) : mstate :=
  {| m_tensors := t; m_structs := m_structs m; m_dicts := m_dicts m; m_wkd := m_wkd m;
     m_heap := m_heap m; m_frees := m_frees m; m_meta_frees := m_meta_frees m; m_gc_log := m_gc_log m;
     m_next := m_next m; m_next_meta := m_next_meta m |}.

Definition with_gc_log (m : mstate) (g : list ptr) : mstate :=
  {| m_tensors := m_tensors m; m_structs := m_structs m; m_dicts := m_dicts m; m_wkd := m_wkd m;
     m_heap := m_heap m; m_frees := m_frees m; m_meta_frees := m_meta_frees m; m_gc_log := g;
     m_next := m_next m; m_next_meta := m_next_meta m |}.

Definition update {A} (k : nat) (v : A) (l : list (nat * A)) : list (nat * A) :=
  map (fun p => if Nat.eqb (fst p) k then (fst p, v) else p) l.

(* the structure a cdata taco_tensor_t* denotes *)
Definition struct_key (v : pv) : M oid :=
  match v with
  | PStruct s => ret s
  | PPtr (SPtr s) => ret s
  | _ => raise TypeError
  end.

Definition get_struct (v : pv) : M (oid * sdesc) :=
  s <- struct_key v ;; m <- get ;; d <- lift (lookup s (m_structs m)) CFault ;; ret (s, d).

Definition put_struct (s : oid) (d : sdesc) : M unit :=
  m <- get ;; put (with_structs m (update s d (m_structs m))).

(* ------------------------------------------------------------------ cffi *)

(* tensor_cdefs.new("taco_tensor_t*") *)
Definition new_struct : M pv :=
  m <- get ;;
  _ <- put (with_next (with_structs m ((m_next m, sd_empty) :: m_structs m)) (S (m_next m)) (m_next_meta m)) ;;
  ret (PStruct (m_next m)).

Inductive role := RMeta | RArr.

(* tensor_cdefs.new(ctype, init).  The role is what the translator found the new cdata to be used for:
   RArr when it is stored in indices[i][j] or vals, RMeta when it is stored in another field / another array. *)
Definition ffi_new (r : role) (ctype : string) (init : pv) : M pv :=
  match init with
  | PList l =>
      m <- get ;;
      match r with
      | RMeta => _ <- put (with_next m (m_next m) (S (m_next_meta m))) ;; ret (PNewMeta (m_next_meta m) l)
      | RArr =>
          _ <- put (with_next (set_heap m (m_heap m ++ [(m_next m, {| b_kind := CffiNew; b_status := Live |})])
                                           (m_frees m) (m_meta_frees m))
                              (S (m_next m)) (m_next_meta m)) ;;
          ret (PNewArr (m_next m))
      end
  | _ => raise TypeError
  end.

Definition ffi_cast (ctype : string) (v : pv) : M pv := ret v.

Definition level_ptr (d : sdesc) (i : nat) : option ptr := option_map fst (nth_error (sd_levels d) i).

(* the address a pointer-valued cdata holds *)
Definition ptr_of (v : pv) : M ptr :=
  match v with
  | PPtr p => ret p
  | PNewArr a => ret (Arr a)
  | PNewMeta n _ => ret (Meta n)
  | PGc p => ret p
  | PStruct s => ret (SPtr s)
  | PCField s f =>
      '(_, d) <- get_struct (PStruct s) ;;
      if String.eqb f "dimensions" then ret (sd_dims_p d)
      else if String.eqb f "mode_ordering" then ret (sd_ordering_p d)
      else if String.eqb f "mode_types" then ret (sd_types_p d)
      else if String.eqb f "indices" then ret (sd_indices_p d)
      else raise TypeError
  | PCLevel s i => '(_, d) <- get_struct (PStruct s) ;; lift (level_ptr d i) CFault
  | _ => raise TypeError
  end.

(* tensor_cdefs.gc(v, tensor_lib.free) *)
Definition ffi_gc (v : pv) : M pv :=
  p <- ptr_of v ;; m <- get ;; _ <- put (with_gc_log m (m_gc_log m ++ [p])) ;; ret (PGc p).

(* cffi_tensor.f *)
Definition cs_get (v : pv) (f : string) : M pv :=
  '(s, d) <- get_struct v ;;
  if String.eqb f "order" then ret (PInt (sd_order d))
  else if String.eqb f "vals" then ret (PPtr (sd_vals d))
  else if String.eqb f "dimensions" || String.eqb f "mode_ordering" || String.eqb f "mode_types"
          || String.eqb f "indices" then ret (PCField s f)
  else raise AttributeError.

Fixpoint ptrs_of_plain (l : list pv) : option (list ptr) :=
  match l with
  | [] => Some []
  | PPtr p :: r => option_map (cons p) (ptrs_of_plain r)
  | PNewArr a :: r => option_map (cons (Arr a)) (ptrs_of_plain r)
  | _ => None
  end.

Fixpoint levels_of (l : list pv) : option (list (ptr * list ptr)) :=
  match l with
  | [] => Some []
  | PNewMeta n c :: r =>
      match ptrs_of_plain c, levels_of r with
      | Some ps, Some ls => Some ((Meta n, ps) :: ls)
      | _, _ => None
      end
  | _ => None
  end.

(* cffi_tensor.f = v *)
Definition cs_set (t : pv) (f : string) (v : pv) : M unit :=
  '(s, d) <- get_struct t ;;
  if String.eqb f "order" then
    match v with
    | PInt z => put_struct s {| sd_order := z; sd_dims_p := sd_dims_p d; sd_ordering_p := sd_ordering_p d;
                                sd_types_p := sd_types_p d; sd_modes := sd_modes d; sd_indices_p := sd_indices_p d;
                                sd_levels := sd_levels d; sd_vals := sd_vals d |}
    | _ => raise TypeError
    end
  else if String.eqb f "dimensions" then
    p <- ptr_of v ;;
    put_struct s {| sd_order := sd_order d; sd_dims_p := p; sd_ordering_p := sd_ordering_p d;
                    sd_types_p := sd_types_p d; sd_modes := sd_modes d; sd_indices_p := sd_indices_p d;
                    sd_levels := sd_levels d; sd_vals := sd_vals d |}
  else if String.eqb f "mode_ordering" then
    p <- ptr_of v ;;
    put_struct s {| sd_order := sd_order d; sd_dims_p := sd_dims_p d; sd_ordering_p := p;
                    sd_types_p := sd_types_p d; sd_modes := sd_modes d; sd_indices_p := sd_indices_p d;
                    sd_levels := sd_levels d; sd_vals := sd_vals d |}
  else if String.eqb f "mode_types" then
    match v with
    | PNewMeta n c =>
        zs <- lift (ints_of c) TypeError ;;
        put_struct s {| sd_order := sd_order d; sd_dims_p := sd_dims_p d; sd_ordering_p := sd_ordering_p d;
                        sd_types_p := Meta n; sd_modes := zs; sd_indices_p := sd_indices_p d;
                        sd_levels := sd_levels d; sd_vals := sd_vals d |}
    | _ => raise Unmodelled
    end
  else if String.eqb f "indices" then
    match v with
    | PNewMeta n c =>
        ls <- lift (levels_of c) TypeError ;;
        put_struct s {| sd_order := sd_order d; sd_dims_p := sd_dims_p d; sd_ordering_p := sd_ordering_p d;
                        sd_types_p := sd_types_p d; sd_modes := sd_modes d; sd_indices_p := Meta n;
                        sd_levels := ls; sd_vals := sd_vals d |}
    | _ => raise Unmodelled
    end
  else if String.eqb f "vals" then
    p <- ptr_of v ;;
    put_struct s {| sd_order := sd_order d; sd_dims_p := sd_dims_p d; sd_ordering_p := sd_ordering_p d;
                    sd_types_p := sd_types_p d; sd_modes := sd_modes d; sd_indices_p := sd_indices_p d;
                    sd_levels := sd_levels d; sd_vals := p |}
  else raise AttributeError.

Definition nat_index (v : pv) : M nat :=
  match v with
  | PInt z => if Z.ltb z 0 then raise Unmodelled else ret (Z.to_nat z)
  | _ => raise TypeError
  end.

Fixpoint replace_nth {A} (i : nat) (x : A) (l : list A) : list A :=
  match l, i with
  | [], _ => []
  | _ :: r, 0 => x :: r
  | y :: r, S j => y :: replace_nth j x r
  end.

Definition set_level_array (d : sdesc) (i j : nat) (p : ptr) : option sdesc :=
  match nth_error (sd_levels d) i with
  | Some (lp, arrs) =>
      if Nat.ltb j (List.length arrs) then
        Some {| sd_order := sd_order d; sd_dims_p := sd_dims_p d; sd_ordering_p := sd_ordering_p d;
                sd_types_p := sd_types_p d; sd_modes := sd_modes d; sd_indices_p := sd_indices_p d;
                sd_levels := replace_nth i (lp, replace_nth j p arrs) (sd_levels d); sd_vals := sd_vals d |}
      else None
  | None => None
  end.

(* ------------------------------------------------------------------ dict objects and the weak dictionary *)

Definition new_dict_with (l : list (string * pv)) : M pv :=
  m <- get ;;
  _ <- put (with_next (with_dicts m ((m_next_meta m, l) :: m_dicts m)) (m_next m) (S (m_next_meta m))) ;;
  ret (PDict (m_next_meta m)).

Definition new_dict : M pv := new_dict_with [].

(* {k: v}: a new dict object *)
Definition py_dict1 (k v : pv) : M pv :=
  match k with PStr s => new_dict_with [(s, v)] | _ => raise Unmodelled end.

(* replace the element at the end of an index path; returns the new container and the element that was there *)
Fixpoint upd_path (v : pv) (idxs : list nat) (new : pv) : res (pv * pv) :=
  match idxs with
  | [] => Ret (new, v)
  | i :: r =>
      match v with
      | PList l =>
          match nth_error l i with
          | Some x =>
              match upd_path x r new with
              | Ret (x', old) => Ret (PList (replace_nth i x' l), old)
              | Raise e => Raise e
              end
          | None => Raise IndexError
          end
      | _ => Raise TypeError
      end
  end.

Fixpoint nat_indexes (l : list pv) : M (list nat) :=
  match l with
  | [] => ret []
  | x :: r => i <- nat_index x ;; is <- nat_indexes r ;; ret (i :: is)
  end.

(* d[k] = v  /  d[k][i][j] = v  for a dict object d: the value that was in the slot is dropped *)
Definition dict_store (h : nat) (k : string) (idxs : list nat) (v : pv) : M unit :=
  m <- get ;;
  l <- lift (lookup h (m_dicts m)) CFault ;;
  match idxs with
  | [] =>
      _ <- put (with_dicts m (update h (sdict_set k v l) (m_dicts m))) ;;
      match sdict_get k l with Some old => drop old | None => ret tt end
  | _ =>
      match sdict_get k l with
      | None => raise KeyError
      | Some c =>
          match upd_path c idxs v with
          | Ret (c', old) => _ <- put (with_dicts m (update h (sdict_set k c' l) (m_dicts m))) ;; drop old
          | Raise e => raise e
          end
      end
  end.

(* base[i1]...[in] = v *)
Definition py_store (base : pv) (path : list pv) (v : pv) : M unit :=
  match base, path with
  | PDict h, PStr k :: r => is <- nat_indexes r ;; dict_store h k is v
  | PCField s f, [i; j] =>
      if String.eqb f "indices" then
        i' <- nat_index i ;; j' <- nat_index j ;; p <- ptr_of v ;;
        '(_, d) <- get_struct (PStruct s) ;;
        d' <- lift (set_level_array d i' j' p) CFault ;;
        put_struct s d'
      else raise TypeError
  | _, _ => raise TypeError
  end.

(* v[i] *)
Definition py_getitem (v i : pv) : M pv :=
  match v, i with
  | PUnbound, _ => raise NameError
  | PList l, _ => n <- nat_index i ;; lift (nth_error l n) IndexError
  | PDictV l, PStr k => lift (sdict_get k l) KeyError
  | PDict h, PStr k =>
      m <- get ;; l <- lift (lookup h (m_dicts m)) CFault ;; lift (sdict_get k l) KeyError
  | PCField s f, _ =>
      if String.eqb f "indices" then
        n <- nat_index i ;; '(_, d) <- get_struct (PStruct s) ;;
        if Nat.ltb n (List.length (sd_levels d)) then ret (PCLevel s n) else raise CFault
      else raise Unmodelled
  | PCLevel s l, _ =>
      n <- nat_index i ;; '(_, d) <- get_struct (PStruct s) ;;
      '(_, arrs) <- lift (nth_error (sd_levels d) l) CFault ;;
      p <- lift (nth_error arrs n) CFault ;; ret (PPtr p)
  | _, _ => raise TypeError
  end.

(* v[0:hi] *)
Definition py_slice0 (v hi : pv) : M pv :=
  match v with
  | PList l => n <- nat_index hi ;; ret (PList (firstn n l))
  | PCField s f =>
      if String.eqb f "mode_types" then
        n <- nat_index hi ;; '(_, d) <- get_struct (PStruct s) ;;
        if Nat.leb n (List.length (sd_modes d)) then ret (PList (map PInt (firstn n (sd_modes d)))) else raise CFault
      else raise Unmodelled
  | _ => raise TypeError
  end.

(* global_weakkeydict[k] *)
Definition wkd_getitem (k : pv) : M pv :=
  s <- struct_key k ;; m <- get ;; h <- lift (lookup s (m_wkd m)) KeyError ;; ret (PDict h).

(* global_weakkeydict.get(k, default) *)
Definition wkd_get (k default : pv) : M pv :=
  s <- struct_key k ;; m <- get ;;
  match lookup s (m_wkd m) with Some h => ret (PDict h) | None => ret default end.

Definition drop_all (l : list (string * pv)) : M unit := drop (PList (map snd l)).

(* global_weakkeydict[k] = v.  When the key had ANOTHER dict object, that object loses its reference from the
   weak dictionary and everything in it is dropped (modelled: nothing else refers to a memory holder). *)
Definition wkd_setitem (k v : pv) : M unit :=
  s <- struct_key k ;;
  match v with
  | PDict h =>
      m <- get ;;
      match lookup s (m_wkd m) with
      | None => put (with_wkd m ((s, h) :: m_wkd m))
      | Some h' =>
          _ <- put (with_wkd m (update s h (m_wkd m))) ;;
          if Nat.eqb h' h then ret tt
          else l <- lift (lookup h' (m_dicts m)) CFault ;; drop_all l
      end
  | _ => raise Unmodelled
  end.

(* ------------------------------------------------------------------ Tensor *)

(* Tensor(cffi_tensor): __init__ stores the argument in self.cffi_tensor (checked by the translator) *)
Definition new_tensor (v : pv) : M pv :=
  s <- struct_key v ;; m <- get ;;
  _ <- put (with_next (with_tensors m ((m_next m, s) :: m_tensors m)) (S (m_next m)) (m_next_meta m)) ;;
  ret (PTensor (m_next m)).

(* t.cffi_tensor *)
Definition tensor_cffi (t : pv) : M pv :=
  match t with
  | PTensor w => m <- get ;; s <- lift (lookup w (m_tensors m)) AttributeError ;; ret (PStruct s)
  | _ => raise AttributeError
  end.

(* self.cffi_tensor = v *)
Definition tensor_set_cffi (t v : pv) : M unit :=
  match t with
  | PTensor w =>
      s <- struct_key v ;; m <- get ;;
      put (with_tensors m ((w, s) :: remove_key w (m_tensors m)))
  | _ => raise Unmodelled
  end.

(* ------------------------------------------------------------------ the kernel *)

(* the kernel mallocs pos and crd for every compressed level (crd ends as NULL when nothing is stored) and
   vals, and stores the addresses in the output structure; a = next fresh address *)
Fixpoint kernel_levels (empty : bool) (modes : list Z) (levels : list (ptr * list ptr)) (a : nat)
  : list (ptr * list ptr) * nat :=
  match modes, levels with
  | md :: mr, (lp, arrs) :: lr =>
      if Z.eqb md 1 then
        let '(lr', a') := kernel_levels empty mr lr (if empty then S a else S (S a)) in
        ((lp, [Arr a; if empty then Null else Arr (S a)]) :: lr', a')
      else
        let '(lr', a') := kernel_levels empty mr lr a in ((lp, arrs) :: lr', a')
  | _, _ => (levels, a)
  end.

Definition kernel_struct (empty : bool) (d : sdesc) (a : nat) : sdesc * nat :=
  let '(ls, a') := kernel_levels empty (sd_modes d) (sd_levels d) a in
  ({| sd_order := sd_order d; sd_dims_p := sd_dims_p d; sd_ordering_p := sd_ordering_p d;
      sd_types_p := sd_types_p d; sd_modes := sd_modes d; sd_indices_p := sd_indices_p d;
      sd_levels := ls; sd_vals := Arr a' |}, S a').

Fixpoint all_structs (l : list pv) : bool :=
  match l with
  | [] => true
  | PStruct _ :: r => all_structs r
  | _ => false
  end.

(* self._evaluate( *cffi_args ) *)
Definition call_kernel (args : pv) : M pv :=
  match args with
  | PList l =>
      if negb (all_structs l) then raise TypeError else
      k <- env ;;
      out <- lift (nth_error l (k_out k)) CFault ;;
      '(s, d) <- get_struct out ;;
      m <- get ;;
      let '(d', a') := kernel_struct (k_empty k) d (m_next m) in
      let new := seq (m_next m) (a' - m_next m) in
      _ <- put (with_next (set_heap (with_structs m (update s d' (m_structs m)))
                                     (m_heap m ++ map (fun x => (x, {| b_kind := Kernel; b_status := Live |})) new)
                                     (m_frees m) (m_meta_frees m))
                          a' (m_next_meta m)) ;;
      ret (PInt (k_ret k))
  | _ => raise TypeError
  end.

(* ------------------------------------------------------------------ the view Ownership.v has of a machine state *)

Fixpoint arr_addrs (l : list ptr) : list addr :=
  match l with
  | [] => []
  | Arr a :: r => a :: arr_addrs r
  | _ :: r => arr_addrs r
  end.

(* the non-NULL addresses in indices[l][0], indices[l][1], ..., vals *)
Definition sd_fields (d : sdesc) : list addr := arr_addrs (flat_map snd (sd_levels d) ++ [sd_vals d]).

(* the entries of a memory holder that own arrays: the slots "**indices" and "vals" *)
Definition holder_entries (l : list (string * pv)) : list hentry :=
  match sdict_get "**indices" l with Some v => owned v | None => [] end ++
  match sdict_get "vals" l with Some v => owned v | None => [] end.

Definition holder_of (m : mstate) (h : nat) : list hentry :=
  match lookup h (m_dicts m) with Some l => holder_entries l | None => [] end.

Definition abs (nm : list (name * value)) (m : mstate) : state :=
  {| names := nm;
     tensors := m_tensors m;
     structs := map (fun p => (fst p, sd_fields (snd p))) (m_structs m);
     wkd := map (fun p => (fst p, holder_of m (snd p))) (m_wkd m);
     heap := m_heap m;
     next := m_next m |}.

Definition mrun {A} (x : M A) (k : kenv) (m : mstate) : mstate * res A := x k m.
