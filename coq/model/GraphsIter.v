(** * GraphsIter: the reading of Python generators, exceptions and itertools used by the regenerated
    iteration-graph enumeration (coq/gen/IterGraphs.v, produced by tools/py2coq/extra_graphs.py).

    - [pres A]  : result of a Python function that may raise; the exception CLASS NAME is kept
                  ("DiagonalAccessError" is a documented refusal, "KeyError" is not).
    - [pgen A]  : a generator run to completion: the items it yields, in order, and how it stops
                  ([None] = StopIteration, [Some e] = the exception [e] escapes AFTER these items).
                  A consumer that only takes the first item ([next(g, None)]) is [g_first].
    - nested [for] over generators is [g_for]: the inner generator is created once per item of the
      outer one, so it is not created at all when the outer one yields nothing (laziness that matters
      for which exception escapes).
    - itertools.permutations / product: explicit lists in itertools' documented order (lexicographic in
      positions; the first factor of a product varies slowest).  That this IS itertools' order is
      tested by the self-check (tools/harness/tie_gen_graphs.py), not proved.

    No proofs in this file. *)
From Coq Require Import List String Bool ZArith.
From TV Require Import spec.PyLib.
Import ListNotations.
Local Open Scope list_scope.

Inductive pres (A : Type) : Type :=
| POk (x : A)
| PRaise (e : string).
Arguments POk {A} x.
Arguments PRaise {A} e.

Definition r_bind {A B} (r : pres A) (f : A -> pres B) : pres B :=
  match r with POk x => f x | PRaise e => PRaise e end.

Definition r_of_opt {A} (e : string) (o : option A) : pres A :=
  match o with Some x => POk x | None => PRaise e end.

(** [[f x for x in xs]] with an [f] that may raise: left to right, stops at the first exception *)
Definition r_map {A B} (f : A -> pres B) : list A -> pres (list B) :=
  fix go (xs : list A) : pres (list B) :=
  match xs with
  | [] => POk []
  | x :: r =>
      match f x with
      | PRaise e => PRaise e
      | POk y => match go r with PRaise e => PRaise e | POk ys => POk (y :: ys) end
      end
  end.

(** a [for] loop that updates local variables [acc] and may raise *)
Definition r_fold {A S} (f : S -> A -> pres S) : list A -> S -> pres S :=
  fix go (xs : list A) (acc : S) : pres S :=
  match xs with
  | [] => POk acc
  | x :: r => match f acc x with PRaise e => PRaise e | POk acc' => go r acc' end
  end.

(** ** generators *)
Definition pgen (A : Type) : Type := (list A * option string)%type.

Definition g_done {A} : pgen A := ([], None).
Definition g_raise {A} (e : string) : pgen A := ([], Some e).
Definition g_yield {A} (x : A) : pgen A := ([x], None).
Definition g_of_list {A} (l : list A) : pgen A := (l, None).

(** statement sequencing inside a generator body *)
Definition g_seq {A} (a b : pgen A) : pgen A :=
  match a with
  | (xs, None) => (xs ++ fst b, snd b)
  | (xs, Some e) => (xs, Some e)
  end.

(** [v = <expression that may raise>; rest] inside a generator body *)
Definition g_bind {A B} (r : pres B) (f : B -> pgen A) : pgen A :=
  match r with POk x => f x | PRaise e => g_raise e end.

Fixpoint g_for_items {A B} (body : B -> pgen A) (items : list B) (stop : option string) : pgen A :=
  match items with
  | [] => ([], stop)
  | x :: r => g_seq (body x) (g_for_items body r stop)
  end.

(** [for x in src: body] where [src] is a generator: the bodies of the items it yields, then its own
    exception (if any) *)
Definition g_for {A B} (src : pgen B) (body : B -> pgen A) : pgen A :=
  g_for_items body (fst src) (snd src).

(** consuming a generator completely ([tuple(g)], what itertools.product does with each argument) *)
Definition g_collect {A} (g : pgen A) : pres (list A) :=
  match g with (xs, None) => POk xs | (_, Some e) => PRaise e end.

(** [next(g, None)] *)
Definition g_first {A} (g : pgen A) : pres (option A) :=
  match g with
  | (x :: _, _) => POk (Some x)
  | ([], None) => POk None
  | ([], Some e) => PRaise e
  end.

(** ** itertools *)
Fixpoint it_pick {A} (k : nat) (l : list A) : option (A * list A) :=
  match l, k with
  | [], _ => None
  | x :: r, O => Some (x, r)
  | x :: r, S k' => match it_pick k' r with Some (y, r') => Some (y, x :: r') | None => None end
  end.

Fixpoint it_perms_fuel {A} (n : nat) (l : list A) : list (list A) :=
  match n with
  | O => [[]]
  | S n' =>
      flat_map (fun k => match it_pick k l with
                         | Some (x, rest) => map (cons x) (it_perms_fuel n' rest)
                         | None => []
                         end) (seq 0 (List.length l))
  end.

(** itertools.permutations(l) *)
Definition it_permutations {A} (l : list A) : list (list A) := it_perms_fuel (List.length l) l.

(** itertools.product( *ls ) *)
Fixpoint it_product {A} (ls : list (list A)) : list (list A) :=
  match ls with
  | [] => [[]]
  | choices :: r => flat_map (fun c => map (cons c) (it_product r)) choices
  end.

(** ** list / dict helpers with Python's exceptions *)

(** [xs[-1].append(v)] on a list of lists; IndexError when [xs] is empty *)
Fixpoint append_to_last {A} (xs : list (list A)) (v : A) : pres (list (list A)) :=
  match xs with
  | [] => PRaise "IndexError"
  | [g] => POk [g ++ [v]]
  | g :: r => match append_to_last r v with POk r' => POk (g :: r') | PRaise e => PRaise e end
  end.

(** [d[k].append(v)] on a [defaultdict(list)] (insertion-ordered) *)
Fixpoint dd_append {K V} (eqb : K -> K -> bool) (k : K) (v : V) (d : list (K * list V))
  : list (K * list V) :=
  match d with
  | [] => [(k, [v])]
  | (k', vs) :: r => if eqb k k' then (k', vs ++ [v]) :: r else (k', vs) :: dd_append eqb k v r
  end.

(** xs[n:] (a slice) *)
Definition py_slice_from {A} (xs : list A) (n : Z) : list A :=
  if (0 <=? n)%Z then skipn (Z.to_nat n) xs
  else skipn (Z.to_nat (Z.of_nat (List.length xs) + n)) xs.
