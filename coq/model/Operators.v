(** C11 -- hand model of the operator layer of tensora ([/repo/src/tensora/tensor.py]:
    [evaluate_binary_operator], [evaluate_matrix_multiplication_operator] and the
    [Tensor.__add__ ... __rmatmul__] methods), of the checks that stand between the synthesised
    request and the kernel ([Assignment.__post_init__], [make_problem]/[Problem.__post_init__],
    [TensorMethod.__init__]'s broadcast check, [TensorMethod.__call__]'s argument validation and
    output-dimension computation) and a small tensor-algebra reading of assignments.

    No proofs in this file (CONVENTIONS 1): everything here is executable; the lemmas are in
    [proofs/Operators*.v], the statements in [props/C11.v].

    What is transcribed and how:
    - a [Tensor] operand is described by what the operator layer reads of it: [dimensions],
      [format.modes] (indexed by LEVEL) and [format.ordering] (level -> dimension); [order] is
      [length dimensions] (all three come from the same cffi struct, sliced [0:order]);
    - a Python number ([isinstance(x, Real)]) is [OScalar]; anything else is [OOther];
    - the assignment handed to [evaluate_tensora] is a string built with f-strings and parsed
      again; the model builds the AST directly and [deparse_assignment] gives the string (the
      harness compares both the string and the real parser's tree);
    - the output format is a string too: [format_deparse] of the model's [format];
    - the keyword arguments ([left=..., right=...]) are the [bindings]; a Python number is bound
      as [Tensor.from_lol(float(x))], an order-0 tensor ([BScalarTensor]). *)

From Coq Require Import ZArith String Ascii List Bool.
From Coq Require Import Decimal DecimalString DecimalNat.
From TV Require Import spec.Storage spec.PyBase.
Import ListNotations.
Open Scope Z_scope.
Open Scope string_scope.
Open Scope list_scope.

(** * Formats ([format/_format.py]) *)

Inductive mode : Type := MDense | MCompressed.

Definition mode_eqb (a b : mode) : bool :=
  match a, b with
  | MDense, MDense | MCompressed, MCompressed => true
  | _, _ => false
  end.

Definition is_dense (m : mode) : bool := mode_eqb m MDense.

(** [Mode.character] *)
Definition mode_char (m : mode) : string :=
  match m with MDense => "d" | MCompressed => "s" end.

Record format : Type := mkFormat { f_modes : list mode; f_ordering : list nat }.

Definition format_eqb (a b : format) : bool :=
  list_eqb mode_eqb (f_modes a) (f_modes b) && list_eqb Nat.eqb (f_ordering a) (f_ordering b).

(** [str(n)] for a non-negative integer *)
Definition nat_str (n : nat) : string := NilEmpty.string_of_uint (Nat.to_uint n).

Definition natural (n : nat) : list nat := seq 0 n.

(** [Format.deparse]: plain mode characters when the ordering is [0..n-1], otherwise each mode
    followed by its ordering entry. ([zip(strict=True)]: both tuples have length [order].) *)
Definition format_deparse (f : format) : string :=
  if list_eqb Nat.eqb (f_ordering f) (natural (length (f_modes f)))
  then String.concat "" (map mode_char (f_modes f))
  else String.concat ""
         (map (fun mo => (mode_char (fst mo) ++ nat_str (snd mo))%string)
              (combine (f_modes f) (f_ordering f))).

(** [Format.__post_init__]: [set(ordering) == set(range(len(modes)))] *)
Definition valid_format (f : format) : bool :=
  forallb (fun o => (o <? length (f_modes f))%nat) (f_ordering f)
  && forallb (fun k => existsb (Nat.eqb k) (f_ordering f)) (seq 0 (length (f_modes f))).

(** * Operands *)

Inductive operand : Type :=
  | OTensor (dims : list Z) (modes : list mode) (ordering : list nat)
  | OScalar          (* a Python number: isinstance(x, numbers.Real) and not a Tensor *)
  | OOther.          (* any other Python object (str, list, None, complex ...) *)

Definition operand_dims (o : operand) : list Z :=
  match o with OTensor d _ _ => d | _ => [] end.

Definition operand_format (o : operand) : format :=
  match o with OTensor _ m r => mkFormat m r | _ => mkFormat [] [] end.

Definition operand_order (o : operand) : nat := length (operand_dims o).

(** The invariant of a [Tensor] object: [dimensions], [modes], [mode_ordering] all have length
    [order] and the format is one [Format.__post_init__] accepts. *)
Definition wf_operand (o : operand) : bool :=
  match o with
  | OTensor d m r =>
      (length m =? length d)%nat && (length r =? length d)%nat && valid_format (mkFormat m r)
  | _ => true
  end.

Definition natural_operand (o : operand) : bool :=
  match o with
  | OTensor d m r => list_eqb Nat.eqb r (natural (length d))
  | _ => true
  end.

(** * Expression AST ([expression/ast.py]) -- the fragment the parser can produce, without float
    literals (the operator layer never writes a literal: a Python number is bound as an order-0
    tensor). *)

Inductive expr : Type :=
  | EInteger (z : Z)
  | ETensor (name : string) (indexes : list string)
  | EAdd (l r : expr)
  | ESub (l r : expr)
  | EMul (l r : expr).

Record assignment : Type := mkAssignment {
  a_target_name : string;
  a_target_indexes : list string;
  a_rhs : expr
}.

Fixpoint expr_eqb (a b : expr) : bool :=
  match a, b with
  | EInteger x, EInteger y => Z.eqb x y
  | ETensor n i, ETensor m j => String.eqb n m && list_eqb String.eqb i j
  | EAdd l r, EAdd l' r' | ESub l r, ESub l' r' | EMul l r, EMul l' r' =>
      expr_eqb l l' && expr_eqb r r'
  | _, _ => false
  end.

Definition assignment_eqb (a b : assignment) : bool :=
  String.eqb (a_target_name a) (a_target_name b)
  && list_eqb String.eqb (a_target_indexes a) (a_target_indexes b)
  && expr_eqb (a_rhs a) (a_rhs b).

Definition deparse_tensor (name : string) (indexes : list string) : string :=
  (name ++ "(" ++ String.concat "," indexes ++ ")")%string.

Definition is_add_sub (e : expr) : bool :=
  match e with EAdd _ _ | ESub _ _ => true | _ => false end.

Definition is_add_sub_mul (e : expr) : bool :=
  match e with EAdd _ _ | ESub _ _ | EMul _ _ => true | _ => false end.

Definition paren (b : bool) (s : string) : string := if b then ("(" ++ s ++ ")")%string else s.

(** [Expression.deparse] *)
Fixpoint deparse (e : expr) : string :=
  match e with
  | EInteger z => NilEmpty.string_of_uint (N.to_uint (Z.to_N z))
  | ETensor n i => deparse_tensor n i
  | EAdd l r => (deparse l ++ " + " ++ paren (is_add_sub r) (deparse r))%string
  | ESub l r => (deparse l ++ " - " ++ paren (is_add_sub r) (deparse r))%string
  | EMul l r => (paren (is_add_sub l) (deparse l) ++ " * " ++ paren (is_add_sub_mul r) (deparse r))%string
  end.

Definition deparse_assignment (a : assignment) : string :=
  (deparse_tensor (a_target_name a) (a_target_indexes a) ++ " = " ++ deparse (a_rhs a))%string.

(** * Requests *)

Inductive op : Type := OpAdd | OpSub | OpMul.

Definition op_char (o : op) : string :=
  match o with OpAdd => "+" | OpSub => "-" | OpMul => "*" end.

Definition op_expr (o : op) : expr -> expr -> expr :=
  match o with OpAdd => EAdd | OpSub => ESub | OpMul => EMul end.

Inductive side : Type := SLeft | SRight.

(** What a keyword argument of [evaluate_tensora] is bound to: the operand itself, or
    [Tensor.from_lol(float(x))] for a Python number [x]. *)
Inductive binding : Type :=
  | BOperand (s : side)
  | BScalarTensor (s : side).

Record request : Type := mkRequest {
  rq_assignment : assignment;
  rq_format : format;                       (* parse_format(output_format) *)
  rq_bindings : list (string * binding)     (* keyword arguments, in call order *)
}.

Inductive error : Type :=
  | EShape            (* ValueError "Cannot apply operator ... between tensor with dimensions" *)
  | EMatmulOrder      (* ValueError "Matrix multiply is only defined between tensors of orders 1 and 2" *)
  | ENotImplemented   (* the function returns NotImplemented (Python then raises TypeError) *)
  | EIllFormed.       (* an index lookup on an operand that breaks the Tensor invariant: IndexError;
                         excluded from every theorem by [wf_operand] *)

Inductive result (A : Type) : Type :=
  | Ok (a : A)
  | Err (e : error).
Arguments Ok {A}.
Arguments Err {A}.

(** [",".join(f"i{i}" for i in range(tensor.order))] as the list of index names *)
Definition index_name (i : nat) : string := ("i" ++ nat_str i)%string.
Definition index_names (n : nat) : list string := map index_name (seq 0 n).

(** ["d" if mode1 == dense and mode2 == dense else "s"] over [zip(left.modes, right.modes)] *)
Definition modes_intersection (a b : list mode) : list mode :=
  map (fun p => if is_dense (fst p) && is_dense (snd p) then MDense else MCompressed)
      (combine a b).

(** ["d" if mode1 == dense or mode2 == dense else "s"] *)
Definition modes_union (a b : list mode) : list mode :=
  map (fun p => if is_dense (fst p) || is_dense (snd p) then MDense else MCompressed)
      (combine a b).

(** a string of mode characters parses to those modes with the natural ordering *)
Definition natural_format (m : list mode) : format := mkFormat m (natural (length m)).

Definition lr_bindings : list (string * binding) :=
  [("left", BOperand SLeft); ("right", BOperand SRight)].

(** [evaluate_binary_operator(left, right, operator)] up to the call of [evaluate_tensora] *)
Definition binary_operator_request (left right : operand) (o : op) : result request :=
  match left, right with
  | OTensor ld lm lo, OTensor rd rm ro =>
      if negb (list_eqb Z.eqb ld rd) then Err EShape
      else
        let out_modes :=
          match o with
          | OpMul => modes_intersection lm rm
          | OpAdd | OpSub => modes_union lm rm
          end in
        let idx := index_names (length ld) in
        Ok (mkRequest
              (mkAssignment "output" idx (op_expr o (ETensor "left" idx) (ETensor "right" idx)))
              (natural_format out_modes)
              lr_bindings)
  | OTensor ld lm lo, OScalar =>
      let out :=
        match o with
        | OpMul => mkFormat lm lo                                 (* left.format.deparse() *)
        | OpAdd | OpSub => natural_format (repeat MDense (length ld))   (* "d" * left.order *)
        end in
      let idx := index_names (length ld) in
      Ok (mkRequest
            (mkAssignment "output" idx (op_expr o (ETensor "left" idx) (ETensor "right" [])))
            out
            [("left", BOperand SLeft); ("right", BScalarTensor SRight)])
  | OScalar, OTensor rd rm ro =>
      let out :=
        match o with
        | OpMul => mkFormat rm ro
        | OpAdd | OpSub => natural_format (repeat MDense (length rd))
        end in
      let idx := index_names (length rd) in
      Ok (mkRequest
            (mkAssignment "output" idx (op_expr o (ETensor "left" []) (ETensor "right" idx)))
            out
            [("left", BScalarTensor SLeft); ("right", BOperand SRight)])
  | _, _ => Err ENotImplemented
  end.

(** [fmt.modes[fmt.ordering[k]]] (Python indexing; out of range = IndexError = [EIllFormed]) *)
Definition mode_at_ordering (m : list mode) (r : list nat) (k : nat) : option mode :=
  match nth_error r k with
  | Some l => nth_error m l
  | None => None
  end.

(** [evaluate_matrix_multiplication_operator(left, right)] up to the call of [evaluate_tensora] *)
Definition matmul_request (left right : operand) : result request :=
  match left, right with
  | OTensor ld lm lo, OTensor rd rm ro =>
      match ld, rd with
      | [l0], [r0] =>
          if negb (list_eqb Z.eqb ld rd) then Err EShape
          else Ok (mkRequest
                     (mkAssignment "output" []
                        (EMul (ETensor "left" ["i"]) (ETensor "right" ["i"])))
                     (natural_format [])
                     lr_bindings)
      | [l0; l1], [r0] =>
          if negb (Z.eqb l1 r0) then Err EShape
          else match mode_at_ordering lm lo 0 with
               | None => Err EIllFormed
               | Some m =>
                   Ok (mkRequest
                         (mkAssignment "output" ["i"]
                            (EMul (ETensor "left" ["i"; "j"]) (ETensor "right" ["j"])))
                         (natural_format [m])
                         lr_bindings)
               end
      | [l0], [r0; r1] =>
          if negb (Z.eqb l0 r0) then Err EShape
          else match mode_at_ordering rm ro 1 with
               | None => Err EIllFormed
               | Some m =>
                   Ok (mkRequest
                         (mkAssignment "output" ["j"]
                            (EMul (ETensor "left" ["i"]) (ETensor "right" ["i"; "j"])))
                         (natural_format [m])
                         lr_bindings)
               end
      | [l0; l1], [r0; r1] =>
          if negb (Z.eqb l1 r0) then Err EShape
          else match mode_at_ordering lm lo 0, mode_at_ordering rm ro 1 with
               | Some m1, Some m2 =>
                   Ok (mkRequest
                         (mkAssignment "output" ["i"; "k"]
                            (EMul (ETensor "left" ["i"; "j"]) (ETensor "right" ["j"; "k"])))
                         (natural_format [m1; m2])
                         lr_bindings)
               | _, _ => Err EIllFormed
               end
      | _, _ => Err EMatmulOrder
      end
  | _, _ => Err ENotImplemented
  end.

(** ** The eight methods of [Tensor]; [self] is always a [Tensor]. *)

Inductive method : Type :=
  | M_add | M_radd | M_sub | M_rsub | M_mul | M_rmul | M_matmul | M_rmatmul.

Definition method_request (m : method) (self other : operand) : result request :=
  match m with
  | M_add => binary_operator_request self other OpAdd
  | M_radd => binary_operator_request other self OpAdd
  | M_sub => binary_operator_request self other OpSub
  | M_rsub => binary_operator_request other self OpSub
  | M_mul => binary_operator_request self other OpMul
  | M_rmul => binary_operator_request other self OpMul
  | M_matmul => matmul_request self other
  | M_rmatmul => matmul_request other self
  end.

(** ** Python's dispatch of [a <op> b] as far as [Tensor] is concerned: the left operand's method
    when it is a [Tensor]; the right operand's reflected method when only the right operand is a
    [Tensor] (numbers, str, list ... do not know [Tensor]: their own method returns NotImplemented
    or does not exist); when both are Tensors the reflected method is not tried (same type). *)

Inductive pyop : Type := PyAdd | PySub | PyMul | PyMatmul.

Definition forward_method (p : pyop) : method :=
  match p with PyAdd => M_add | PySub => M_sub | PyMul => M_mul | PyMatmul => M_matmul end.

Definition reflected_method (p : pyop) : method :=
  match p with PyAdd => M_radd | PySub => M_rsub | PyMul => M_rmul | PyMatmul => M_rmatmul end.

Definition is_tensor (o : operand) : bool :=
  match o with OTensor _ _ _ => true | _ => false end.

Definition python_operator (p : pyop) (a b : operand) : result request :=
  if is_tensor a then method_request (forward_method p) a b
  else if is_tensor b then method_request (reflected_method p) b a
  else Err ENotImplemented.   (* no Tensor involved: not this library's business *)

(** * The checks between the request and the kernel *)

Inductive check_error : Type :=
  | CMutating               (* MutatingAssignmentError *)
  | CInconsistentOrders     (* InconsistentDimensionsError *)
  | CNameConflict           (* NameConflictError *)
  | CInvalidOrdering        (* InvalidModeOrderingError (output format) *)
  | CUnusedFormat           (* UnusedFormatError *)
  | CUndefinedReference     (* UndefinedReferenceError *)
  | CIncorrectDimensions    (* IncorrectDimensionsError: index count <> format order *)
  | CBroadcastTarget        (* BroadcastTargetIndexError *)
  | CBind                   (* TypeError from Signature.bind: missing / unexpected keyword *)
  | CArgument               (* ValueError: argument order / modes / ordering <> declared format *)
  | CDimensionMismatch      (* ValueError: tensors sharing an index disagree on its size *)
  | CIndexError.            (* internal IndexError (dimension lookup out of range) *)

Inductive checked (A : Type) : Type :=
  | Pass (a : A)
  | Fail (e : check_error).
Arguments Pass {A}.
Arguments Fail {A}.

Definition mem_str (k : string) (l : list string) : bool := existsb (String.eqb k) l.

Fixpoint assoc {A} (k : string) (l : list (string * A)) : option A :=
  match l with
  | [] => None
  | (k', v) :: r => if String.eqb k k' then Some v else assoc k r
  end.

Definition keys {A} (l : list (string * A)) : list string := map fst l.

(** [Expression.variables()]: tensor name -> its occurrences (index lists), a dict in insertion
    order. *)
Fixpoint add_occurrences (name : string) (occ : list (list string))
         (m : list (string * list (list string))) : list (string * list (list string)) :=
  match m with
  | [] => [(name, occ)]
  | (n, o) :: r => if String.eqb n name then (n, o ++ occ) :: r
                   else (n, o) :: add_occurrences name occ r
  end.

Fixpoint variables (e : expr) : list (string * list (list string)) :=
  match e with
  | EInteger _ => []
  | ETensor n i => [(n, [i])]
  | EAdd l r | ESub l r | EMul l r =>
      fold_left (fun acc no => add_occurrences (fst no) (snd no) acc) (variables r) (variables l)
  end.

(** [Assignment.__post_init__]: returns [variable_orders] (target first). *)
Definition validate_assignment (a : assignment) : checked (list (string * nat)) :=
  let vars := variables (a_rhs a) in
  if mem_str (a_target_name a) (keys vars) then Fail CMutating
  else if negb (forallb
                  (fun no => match snd no with
                             | [] => true
                             | first :: rest =>
                                 forallb (fun v => (length v =? length first)%nat) rest
                             end) vars)
  then Fail CInconsistentOrders
  else
    let orders :=
      (a_target_name a, length (a_target_indexes a))
      :: map (fun no => (fst no, match snd no with [] => O | first :: _ => length first end)) vars in
    let index_names_used := a_target_indexes a ++ flat_map (fun no => List.concat (snd no)) vars in
    if existsb (fun k => mem_str k (keys orders)) index_names_used then Fail CNameConflict
    else Pass orders.


(** [make_problem] + [Problem.__post_init__] on
    [formats = {target: output_format} | {name: tensor.format for inputs}] *)
Definition make_problem (orders : list (string * nat)) (formats : list (string * format))
  : checked (list (string * format)) :=
  if negb (forallb (fun nf => mem_str (fst nf) (keys orders)) formats) then Fail CUnusedFormat
  else
    let new_formats :=
      map (fun no => (fst no,
                      match assoc (fst no) formats with
                      | Some f => f
                      | None => natural_format (repeat MDense (snd no))
                      end)) orders in
    if negb (forallb (fun no => match assoc (fst no) new_formats with
                                | Some f => (length (f_modes f) =? snd no)%nat
                                | None => false
                                end) orders)
    then Fail CIncorrectDimensions
    else Pass new_formats.

(** [Expression.index_participants()] as a list (index, tensor name, dimension) in left-to-right
    order of appearance *)
Fixpoint enumerate_from {A} (n : nat) (l : list A) : list (nat * A) :=
  match l with [] => [] | x :: r => (n, x) :: enumerate_from (S n) r end.

Fixpoint participants (e : expr) : list (string * (string * nat)) :=
  match e with
  | EInteger _ => []
  | ETensor n idx => map (fun ik => (snd ik, (n, fst ik))) (enumerate_from 0 idx)
  | EAdd l r | ESub l r | EMul l r => participants l ++ participants r
  end.

(** What [evaluate_tensora] receives for a keyword: dimensions and format. *)
Definition bound_descr (l r : operand) (b : binding) : list Z * format :=
  match b with
  | BOperand SLeft => (operand_dims l, operand_format l)
  | BOperand SRight => (operand_dims r, operand_format r)
  | BScalarTensor _ => ([], mkFormat [] [])      (* Tensor.from_lol(float(x)) *)
  end.

Fixpoint all_pass {A} (f : A -> option check_error) (l : list A) : option check_error :=
  match l with
  | [] => None
  | x :: r => match f x with Some e => Some e | None => all_pass f r end
  end.

(** Size of index [k]: [bound[variable].dimensions[dimension]] of its first participant, after
    checking that all participants agree. *)
Definition participant_size (args : list (string * (list Z * format))) (p : string * nat)
  : option Z :=
  match assoc (fst p) args with
  | Some (d, _) => nth_error d (snd p)
  | None => None
  end.

Definition index_size (args : list (string * (list Z * format)))
           (parts : list (string * (string * nat))) (k : string) : checked Z :=
  let mine := map snd (filter (fun q => String.eqb (fst q) k) parts) in
  match mine with
  | [] => Fail CBroadcastTarget
  | p0 :: rest =>
      match participant_size args p0 with
      | None => Fail CIndexError
      | Some s0 =>
          if forallb (fun p => match participant_size args p with
                               | Some s => Z.eqb s s0
                               | None => false
                               end) rest
          then Pass s0 else Fail CDimensionMismatch
      end
  end.

Fixpoint checked_map {A B} (f : A -> checked B) (l : list A) : checked (list B) :=
  match l with
  | [] => Pass []
  | x :: r => match f x with
              | Fail e => Fail e
              | Pass y => match checked_map f r with
                          | Fail e => Fail e
                          | Pass ys => Pass (y :: ys)
                          end
              end
  end.

Fixpoint dedup (l : list string) : list string :=
  match l with
  | [] => []
  | x :: r => if mem_str x r then dedup r else x :: dedup r
  end.

(** Everything [evaluate_tensora(assignment, output_format, inputs...)] checks before the kernel
    is generated and entered, in the order the code does it; the result is the output
    dimensions.  The kernel generator itself ([generate_module_tensora]: NoKernelFoundError,
    DiagonalAccessError, the internal refusal of C08) is not part of this function. *)
Definition request_args (q : request) (l r : operand) : list (string * (list Z * format)) :=
  map (fun nb => (fst nb, bound_descr l r (snd nb))) (rq_bindings q).

(** [{target: output_format} | input_formats]: a later key overrides, its position is kept *)
Definition request_formats (q : request) (l r : operand) : list (string * format) :=
  let target := a_target_name (rq_assignment q) in
  let input_formats := map (fun na => (fst na, snd (snd na))) (request_args q l r) in
  match assoc target input_formats with
  | Some f => (target, f) :: filter (fun nf => negb (String.eqb (fst nf) target)) input_formats
  | None => (target, rq_format q) :: input_formats
  end.

(** [TensorMethod.__init__]: every target index is mentioned on the right-hand side *)
Definition check_broadcast (a : assignment) : bool :=
  forallb (fun k => mem_str k (map fst (participants (a_rhs a)))) (a_target_indexes a).

(** [TensorMethod.__call__]: [Signature.bind] -- the keywords are exactly the input names *)
Definition check_bind (a : assignment) (problem_formats : list (string * format))
           (args : list (string * (list Z * format))) : bool :=
  let input_names :=
    filter (fun n => negb (String.eqb n (a_target_name a))) (keys problem_formats) in
  forallb (fun n => mem_str n input_names) (keys args)
  && forallb (fun n => mem_str n (keys args)) input_names.

(** [TensorMethod.__call__]: order, modes and mode ordering of each argument equal the format
    the kernel was generated for *)
Definition check_arguments (problem_formats : list (string * format))
           (args : list (string * (list Z * format))) : bool :=
  forallb (fun na =>
             match assoc (fst na) problem_formats with
             | Some f => (length (fst (snd na)) =? length (f_modes f))%nat
                         && format_eqb (snd (snd na)) f
             | None => false
             end) args.

(** [TensorMethod.__call__]: every index has one size on all tensors that use it; the output
    dimensions are the sizes of the target indexes *)
Definition check_dimensions (a : assignment) (args : list (string * (list Z * format)))
  : checked (list Z) :=
  let parts := participants (a_rhs a) in
  match checked_map (index_size args parts) (dedup (map fst parts)) with
  | Fail e => Fail e
  | Pass _ => checked_map (index_size args parts) (a_target_indexes a)
  end.

Definition request_checks (q : request) (l r : operand) : checked (list Z) :=
  let a := rq_assignment q in
  match validate_assignment a with                       (* parse_assignment *)
  | Fail e => Fail e
  | Pass orders =>
      if negb (valid_format (rq_format q)) then Fail CInvalidOrdering   (* parse_format *)
      else
        match make_problem orders (request_formats q l r) with
        | Fail e => Fail e
        | Pass problem_formats =>
            let args := request_args q l r in
            if negb (check_broadcast a) then Fail CBroadcastTarget
            else if negb (check_bind a problem_formats args) then Fail CBind
            else if negb (check_arguments problem_formats args) then Fail CArgument
            else check_dimensions a args
        end
  end.

(** * Tensor-algebra reading of an assignment (the C01 reading: sum of products, each additive
    term summed over its own indexes that are absent from the target).  Values in [Z]. *)

Definition coord := list Z.
Definition valuation := list (string * Z).

(** every index looked up below is bound by construction (target indexes and summed indexes cover
    the indexes of a term); the default is never used *)
Definition lookup (rho : valuation) (k : string) : Z :=
  match assoc k rho with Some v => v | None => 0 end.

Inductive factor : Type :=
  | FLit (z : Z)
  | FTensor (name : string) (indexes : list string).

(** an additive term: negated? , factors *)
Definition monomial : Type := (bool * list factor)%type.

Fixpoint monomials (e : expr) : list monomial :=
  match e with
  | EInteger z => [(false, [FLit z])]
  | ETensor n i => [(false, [FTensor n i])]
  | EAdd l r => monomials l ++ monomials r
  | ESub l r => monomials l ++ map (fun m => (negb (fst m), snd m)) (monomials r)
  | EMul l r =>
      flat_map (fun m1 => map (fun m2 => (xorb (fst m1) (fst m2), snd m1 ++ snd m2)) (monomials r))
               (monomials l)
  end.

(** a tensor environment: name -> (dimensions, value at a coordinate) *)
Definition tenv := string -> (list Z * (coord -> Z))%type.

Definition factor_indexes (f : factor) : list string :=
  match f with FLit _ => [] | FTensor _ i => i end.

Definition term_indexes (fs : list factor) : list string := dedup (flat_map factor_indexes fs).

Definition summed_indexes (target : list string) (fs : list factor) : list string :=
  filter (fun k => negb (mem_str k target)) (term_indexes fs).

Fixpoint position (k : string) (l : list string) : option nat :=
  match l with
  | [] => None
  | x :: r => if String.eqb x k then Some O
              else match position k r with Some n => Some (S n) | None => None end
  end.

(** the range of a summed index: the size of the first dimension it indexes in the term *)
Fixpoint term_index_size (env : tenv) (fs : list factor) (k : string) : Z :=
  match fs with
  | [] => 0
  | FLit _ :: r => term_index_size env r k
  | FTensor n idx :: r =>
      match position k idx with
      | Some p => nth p (fst (env n)) 0
      | None => term_index_size env r k
      end
  end.

Definition zsum (l : list Z) (f : Z -> Z) : Z := fold_right Z.add 0 (map f l).

Fixpoint sum_over (ks : list string) (size : string -> Z) (rho : valuation)
         (f : valuation -> Z) : Z :=
  match ks with
  | [] => f rho
  | k :: r => zsum (zrange (size k)) (fun v => sum_over r size ((k, v) :: rho) f)
  end.

Definition eval_factor (env : tenv) (rho : valuation) (f : factor) : Z :=
  match f with
  | FLit z => z
  | FTensor n idx => snd (env n) (map (lookup rho) idx)
  end.

Definition eval_term (env : tenv) (target : list string) (rho0 : valuation) (m : monomial) : Z :=
  let v := sum_over (summed_indexes target (snd m)) (term_index_size env (snd m)) rho0
                    (fun rho => fold_right Z.mul 1 (map (eval_factor env rho) (snd m))) in
  if fst m then - v else v.

Definition denote_assignment (env : tenv) (a : assignment) (c : coord) : Z :=
  let rho0 := combine (a_target_indexes a) c in
  fold_right Z.add 0 (map (eval_term env (a_target_indexes a) rho0) (monomials (a_rhs a))).

(** ** Meaning of a request on given operand values.  An operand value is a function from
    coordinates; a Python number [x] is the function read at the empty coordinate, and
    [Tensor.from_lol(float(x))] is the order-0 tensor holding it. *)

Definition opvalue := coord -> Z.

Definition bound_value (l r : operand) (lv rv : opvalue) (b : binding) : list Z * (coord -> Z) :=
  match b with
  | BOperand SLeft => (operand_dims l, lv)
  | BOperand SRight => (operand_dims r, rv)
  | BScalarTensor SLeft => ([], fun _ => lv [])
  | BScalarTensor SRight => ([], fun _ => rv [])
  end.

Definition request_env (q : request) (l r : operand) (lv rv : opvalue) : tenv :=
  fun name =>
    match assoc name (rq_bindings q) with
    | Some b => bound_value l r lv rv b
    | None => ([], fun _ => 0)      (* unbound names are rejected by [request_checks] (CBind) *)
    end.

Definition denote_request (q : request) (l r : operand) (lv rv : opvalue) (c : coord) : Z :=
  denote_assignment (request_env q l r lv rv) (rq_assignment q) c.

(** * What the operators are supposed to compute *)

Definition apply_op (o : op) (x y : Z) : Z :=
  match o with OpAdd => x + y | OpSub => x - y | OpMul => x * y end.

(** an operand seen at coordinate [c] of the result: a tensor is read at [c], a number is
    broadcast *)
Definition broadcast (o : operand) (v : opvalue) (c : coord) : Z :=
  match o with
  | OTensor _ _ _ => v c
  | _ => v []
  end.

(** dimensions of the result of an element-wise operator: those of the tensor operand *)
Definition pointwise_dims (l r : operand) : list Z :=
  match l with
  | OTensor d _ _ => d
  | _ => operand_dims r
  end.

(** vector.vector, matrix.vector, vector.matrix, matrix.matrix *)
Definition matmul_dims (l r : operand) : list Z :=
  match operand_dims l, operand_dims r with
  | [_], [_] => []
  | [l0; _], [_] => [l0]
  | [_], [_; r1] => [r1]
  | [l0; _], [_; r1] => [l0; r1]
  | _, _ => []
  end.

Definition matmul_spec (l r : operand) (lv rv : opvalue) (c : coord) : Z :=
  match operand_dims l, operand_dims r, c with
  | [n], [_], [] => zsum (zrange n) (fun j => lv [j] * rv [j])
  | [_; n], [_], [i] => zsum (zrange n) (fun j => lv [i; j] * rv [j])
  | [n], [_; _], [k] => zsum (zrange n) (fun j => lv [j] * rv [j; k])
  | [_; n], [_; _], [i; k] => zsum (zrange n) (fun j => lv [i; j] * rv [j; k])
  | _, _, _ => 0
  end.

(** ** The documented format rule, stated by DIMENSION: the mode of dimension [d] of a stored
    tensor is the mode of the level that stores [d]; a Python number is dense everywhere. *)

Definition mode_of_dim (o : operand) (d : nat) : mode :=
  match o with
  | OTensor _ m r => nth (index_of d r) m MDense
  | _ => MDense
  end.

Definition format_mode_of_dim (f : format) (d : nat) : mode :=
  nth (index_of d (f_ordering f)) (f_modes f) MDense.

Definition mode_union (a b : mode) : mode :=
  if is_dense a || is_dense b then MDense else MCompressed.

Definition mode_intersection (a b : mode) : mode :=
  if is_dense a && is_dense b then MDense else MCompressed.

Definition rule_mode (o : op) : mode -> mode -> mode :=
  match o with OpMul => mode_intersection | _ => mode_union end.

(** outer modes of a matrix product: the mode (by dimension) of the uncontracted dimensions *)
Definition matmul_outer_modes (l r : operand) : list mode :=
  match operand_dims l, operand_dims r with
  | [_; _], [_] => [mode_of_dim l 0]
  | [_], [_; _] => [mode_of_dim r 1]
  | [_; _], [_; _] => [mode_of_dim l 0; mode_of_dim r 1]
  | _, _ => []
  end.

(** ** Which errors are documented for which operands *)

(** operand kinds [evaluate_binary_operator] accepts *)
Definition supported_pair (l r : operand) : bool :=
  match l, r with
  | OTensor _ _ _, OTensor _ _ _ | OTensor _ _ _, OScalar | OScalar, OTensor _ _ _ => true
  | _, _ => false
  end.

Definition matmul_orders_ok (l r : operand) : bool :=
  match operand_order l, operand_order r with
  | 1%nat, 1%nat | 1%nat, 2%nat | 2%nat, 1%nat | 2%nat, 2%nat => true
  | _, _ => false
  end.

(** the contracted sizes: last dimension of the left operand, first dimension of the right *)
Definition inner_left (l : operand) : Z := last (operand_dims l) 0.
Definition inner_right (r : operand) : Z := hd 0 (operand_dims r).

Definition pyop_op (p : pyop) : option op :=
  match p with
  | PyAdd => Some OpAdd | PySub => Some OpSub | PyMul => Some OpMul | PyMatmul => None
  end.

(** * Decision procedures used by the correspondence harness *)

Definition result_eqb (x y : result request) : bool :=
  match x, y with
  | Ok a, Ok b =>
      assignment_eqb (rq_assignment a) (rq_assignment b)
      && format_eqb (rq_format a) (rq_format b)
      && list_eqb (fun p q => String.eqb (fst p) (fst q)
                              && match snd p, snd q with
                                 | BOperand SLeft, BOperand SLeft
                                 | BOperand SRight, BOperand SRight
                                 | BScalarTensor SLeft, BScalarTensor SLeft
                                 | BScalarTensor SRight, BScalarTensor SRight => true
                                 | _, _ => false
                                 end)
                  (rq_bindings a) (rq_bindings b)
  | Err EShape, Err EShape | Err EMatmulOrder, Err EMatmulOrder
  | Err ENotImplemented, Err ENotImplemented | Err EIllFormed, Err EIllFormed => true
  | _, _ => false
  end.

(** What the harness observes of one evaluation of [left <op> right]: either the single call of
    [evaluate_tensora] (parsed assignment, assignment string, parsed output format, format string,
    keyword bindings; and, when a tensor came back, its dimensions and its format), or the error
    raised before any call. *)
Inductive observed : Type :=
  | ObsRequest (a : assignment) (astr : string) (f : format) (fstr : string)
               (b : list (string * binding)) (dims : option (list Z)) (out : option format)
  | ObsError (e : error).

Definition checked_dims_eqb (x : checked (list Z)) (d : list Z) : bool :=
  match x with
  | Pass d' => list_eqb Z.eqb d' d
  | Fail _ => false
  end.

Definition obs_agrees (p : pyop) (l r : operand) (o : observed) : bool :=
  match python_operator p l r, o with
  | Ok q, ObsRequest a astr f fstr b dims out =>
      result_eqb (Ok q) (Ok (mkRequest a f b))
      && String.eqb (deparse_assignment (rq_assignment q)) astr
      && String.eqb (format_deparse (rq_format q)) fstr
      && match dims with
         | Some d => checked_dims_eqb (request_checks q l r) d
         | None => true
         end
      && match out with
         | Some g => format_eqb g (rq_format q)
         | None => true
         end
  | Err e, ObsError e' => result_eqb (@Err request e) (Err e')
  | _, _ => false
  end.

(** printable form of the model's answer, for replay files *)
Definition show_result (p : pyop) (l r : operand)
  : string * string * list (string * binding) * option (checked (list Z)) * option error :=
  match python_operator p l r with
  | Ok q => (deparse_assignment (rq_assignment q), format_deparse (rq_format q), rq_bindings q,
             Some (request_checks q l r), None)
  | Err e => (""%string, ""%string, [], None, Some e)
  end.

(** ** Correspondence of [request_checks] itself: the harness calls the real [evaluate_tensora]
    with hand-made (also malformed) requests and reports the exception class as a code. *)
Definition check_error_code (e : check_error) : nat :=
  match e with
  | CMutating => 1 | CInconsistentOrders => 2 | CNameConflict => 3 | CInvalidOrdering => 4
  | CUnusedFormat => 5 | CUndefinedReference => 6 | CIncorrectDimensions => 7
  | CBroadcastTarget => 8 | CBind => 9 | CArgument => 10 | CDimensionMismatch => 11
  | CIndexError => 12
  end%nat.

Inductive observed_check : Type :=
  | ObsPass (dims : list Z)
  | ObsFail (code : nat).

Definition checks_agree (q : request) (l r : operand) (o : observed_check) : bool :=
  match request_checks q l r, o with
  | Pass d, ObsPass d' => list_eqb Z.eqb d d'
  | Fail e, ObsFail c => Nat.eqb (check_error_code e) c
  | _, _ => false
  end.
