(* C14 — protocol model of concurrent evaluate / TensorMethod calls.

   Hand model of
     compile/_porcelain.py      lru_cache'd cachable_tensor_method (lookup, miss -> build -> insert)
     compile/_tensor_method.py  TensorMethod.__init__ (compile) and __call__ (allocate output, run kernel,
                                take ownership, return)
     compile/_compile_cffi.py   the module-level lock around FFI.compile
     compile/_compile_llvm.py   one engine per compiled module (compile is a function of the request only)
     compile/_cffi_ownership.py global_weakkeydict as a table shared by all threads

   N threads, each running a list of calls.  One call is a straight-line programme of ATOMIC steps; the
   granularity is one dictionary-level operation under the GIL.  A schedule is a list of actions: "thread i
   makes its next step" or "the LRU cache evicts the entry of key k" (the environment; lru_cache has
   maxsize 128).  A step of a thread that has finished, or that waits for the lock, changes nothing.

   Executable, total, no proofs here (proofs: proofs/Concurrency*.v). *)

From Coq Require Import List Arith Bool PeanoNat.
Import ListNotations.

Inductive backend := Llvm | Cffi.

Record key := { k_problem : nat; k_backend : backend }.   (* (Problem, BackendCompiler): the cache key *)

Definition backend_eqb (a b : backend) : bool :=
  match a, b with Llvm, Llvm => true | Cffi, Cffi => true | _, _ => false end.

Definition key_eqb (a b : key) : bool :=
  Nat.eqb (k_problem a) (k_problem b) && backend_eqb (k_backend a) (k_backend b).

(* what compilation returns: the machine code of exactly that request *)
Record kernel := { compiled_from : key }.

Definition compile (k : key) : kernel := {| compiled_from := k |}.

Record call := { c_key : key; c_input : nat }.   (* evaluate(problem, backend)(inputs) *)

Inductive pc :=
| PLookup       (* cachable_tensor_method: cache lookup *)
| PAcquire      (* cffi: `with lock:` entry *)
| PCompileCffi  (* cffi: FFI.compile inside the lock *)
| PRelease      (* cffi: leaving the `with` block *)
| PCompileLlvm  (* llvm: compile_module (no lock) *)
| PInsert       (* lru_cache stores the new TensorMethod unless the key appeared meanwhile *)
| PAlloc        (* allocate_taco_structure: global_weakkeydict[cffi_tensor] = holder *)
| PRun          (* the kernel: reads the immutable inputs, writes only its own output structure *)
| POwn          (* take_ownership_of_arrays: global_weakkeydict[cffi_output] *)
| PReturn       (* return output; the caller reads it *)
| PError.       (* an exception escaped (KeyError in take_ownership, unreadable output) *)

Record thread := {
  t_calls : list call;            (* remaining calls, the head is the current one *)
  t_pc : pc;
  t_method : option kernel;       (* local variable `function` *)
  t_sid : option nat;             (* local variable `cffi_output` *)
  t_results : list nat            (* results returned so far, in order *)
}.

Record state := {
  threads : nat -> thread;
  nthreads : nat;
  cache : list (key * kernel);         (* lru_cache of cachable_tensor_method *)
  lock : option nat;                   (* compile/_compile_cffi.py::lock : the holder *)
  table : list (nat * nat);            (* global_weakkeydict: output structure -> (holder of) the owning call's thread *)
  mem : list (nat * nat);              (* contents of the output structures that have been written *)
  next : nat                           (* fresh structure identities *)
}.

Inductive action := AThread (i : nat) | AEvict (k : key).

Fixpoint find_key {A} (k : key) (l : list (key * A)) : option A :=
  match l with
  | [] => None
  | (k', v) :: r => if key_eqb k' k then Some v else find_key k r
  end.

Fixpoint lookup {A} (k : nat) (l : list (nat * A)) : option A :=
  match l with
  | [] => None
  | (k', v) :: r => if Nat.eqb k' k then Some v else lookup k r
  end.

Definition set_thread (st : state) (i : nat) (t : thread) : state :=
  {| threads := fun j => if Nat.eqb j i then t else threads st j;
     nthreads := nthreads st; cache := cache st; lock := lock st; table := table st; mem := mem st;
     next := next st |}.

Definition with_pc (t : thread) (p : pc) : thread :=
  {| t_calls := t_calls t; t_pc := p; t_method := t_method t; t_sid := t_sid t; t_results := t_results t |}.

Definition with_method (t : thread) (m : kernel) (p : pc) : thread :=
  {| t_calls := t_calls t; t_pc := p; t_method := Some m; t_sid := t_sid t; t_results := t_results t |}.

Section Semantics.

(* what the machine code compiled for a request computes on an input: arbitrary *)
Variable denote : key -> nat -> nat.

Definition exec (m : kernel) (x : nat) : nat := denote (compiled_from m) x.

(* one atomic step of thread i *)
Definition thread_step (st : state) (i : nat) : state :=
  let t := threads st i in
  match t_calls t with
  | [] => st                                     (* finished *)
  | c :: rest =>
      match t_pc t with
      | PLookup =>
          match find_key (c_key c) (cache st) with
          | Some m => set_thread st i (with_method t m PAlloc)
          | None => set_thread st i (with_pc t (match k_backend (c_key c) with Cffi => PAcquire | Llvm => PCompileLlvm end))
          end
      | PAcquire =>
          match lock st with
          | None =>
              {| threads := fun j => if Nat.eqb j i then with_pc t PCompileCffi else threads st j;
                 nthreads := nthreads st; cache := cache st; lock := Some i; table := table st; mem := mem st;
                 next := next st |}
          | Some _ => st                         (* blocked *)
          end
      | PCompileCffi => set_thread st i (with_method t (compile (c_key c)) PRelease)
      | PRelease =>
          {| threads := fun j => if Nat.eqb j i then with_pc t PInsert else threads st j;
             nthreads := nthreads st; cache := cache st; lock := None; table := table st; mem := mem st;
             next := next st |}
      | PCompileLlvm => set_thread st i (with_method t (compile (c_key c)) PInsert)
      | PInsert =>
          match t_method t with
          | Some m =>
              {| threads := fun j => if Nat.eqb j i then with_pc t PAlloc else threads st j;
                 nthreads := nthreads st;
                 cache := match find_key (c_key c) (cache st) with
                          | Some _ => cache st
                          | None => (c_key c, m) :: cache st
                          end;
                 lock := lock st; table := table st; mem := mem st; next := next st |}
          | None => set_thread st i (with_pc t PError)
          end
      | PAlloc =>
          {| threads := fun j => if Nat.eqb j i
                                 then {| t_calls := t_calls t; t_pc := PRun; t_method := t_method t;
                                         t_sid := Some (next st); t_results := t_results t |}
                                 else threads st j;
             nthreads := nthreads st; cache := cache st; lock := lock st;
             table := (next st, i) :: table st; mem := mem st; next := S (next st) |}
      | PRun =>
          match t_method t, t_sid t with
          | Some m, Some s =>
              {| threads := fun j => if Nat.eqb j i then with_pc t POwn else threads st j;
                 nthreads := nthreads st; cache := cache st; lock := lock st; table := table st;
                 mem := (s, exec m (c_input c)) :: mem st; next := next st |}
          | _, _ => set_thread st i (with_pc t PError)
          end
      | POwn =>
          match t_sid t with
          | Some s =>
              match lookup s (table st) with
              | Some _ => set_thread st i (with_pc t PReturn)
              | None => set_thread st i (with_pc t PError)      (* KeyError *)
              end
          | None => set_thread st i (with_pc t PError)
          end
      | PReturn =>
          match t_sid t with
          | Some s =>
              match lookup s (mem st) with
              | Some v =>
                  set_thread st i {| t_calls := rest; t_pc := PLookup; t_method := None; t_sid := None;
                                     t_results := t_results t ++ [v] |}
              | None => set_thread st i (with_pc t PError)
              end
          | None => set_thread st i (with_pc t PError)
          end
      | PError => st
      end
  end.

Definition step (st : state) (a : action) : state :=
  match a with
  | AThread i => if Nat.ltb i (nthreads st) then thread_step st i else st
  | AEvict k =>
      {| threads := threads st; nthreads := nthreads st;
         cache := filter (fun p => negb (key_eqb (fst p) k)) (cache st);
         lock := lock st; table := table st; mem := mem st; next := next st |}
  end.

Definition start_thread (cs : list call) : thread :=
  {| t_calls := cs; t_pc := PLookup; t_method := None; t_sid := None; t_results := [] |}.

(* the initial state for the programmes [progs] (one list of calls per thread); [cache0] = what earlier,
   sequential evaluations left in the cache (must be sound: see proofs) *)
Definition init (progs : list (list call)) (cache0 : list (key * kernel)) : state :=
  {| threads := fun i => start_thread (nth i progs []);
     nthreads := length progs; cache := cache0; lock := None; table := []; mem := []; next := 0 |}.

Definition run_from (st : state) (sched : list action) : state := fold_left step sched st.

Definition run (progs : list (list call)) (sched : list action) : state := run_from (init progs []) sched.

Definition thread_done (t : thread) : bool :=
  match t_calls t with [] => true | _ => false end.

(* every thread has returned from all its calls *)
Definition complete (st : state) : bool :=
  forallb (fun i => thread_done (threads st i)) (seq 0 (nthreads st)).

Definition results (st : state) (i : nat) : list nat := t_results (threads st i).

(* the same calls made alone: thread i runs to completion with nobody else, from an empty cache *)
Definition call_length : nat := 10.

Definition alone_schedule (i : nat) (cs : list call) : list action :=
  repeat (AThread i) (call_length * length cs).

Definition sequential_result (progs : list (list call)) (i : nat) : list nat :=
  results (run progs (alone_schedule i (nth i progs []))) i.

Definition in_critical_section (t : thread) : bool :=
  match t_calls t, t_pc t with
  | _ :: _, PCompileCffi => true
  | _ :: _, PRelease => true
  | _, _ => false
  end.

End Semantics.

(* the output structure a thread is currently working on *)
Definition active_sid (t : thread) : option nat :=
  match t_calls t, t_pc t with
  | _ :: _, PRun => t_sid t
  | _ :: _, POwn => t_sid t
  | _ :: _, PReturn => t_sid t
  | _, _ => None
  end.

(* thread i can make a step that is neither a wait for the lock nor a no-op *)
Definition enabled (st : state) (i : nat) : bool :=
  match t_calls (threads st i), t_pc (threads st i), lock st with
  | [], _, _ => false
  | _, PError, _ => false
  | _, PAcquire, Some _ => false
  | _, _, _ => true
  end.
