(** * Graphs: executable hand model of the iteration-graph enumeration (property C08)

    Transcribes  /repo/src/tensora/desugar/_to_iteration_graphs.py,
                 /repo/src/tensora/desugar/_best_algorithm.py,
                 the parts of /repo/src/tensora/iteration_graph/iteration_graph.py that the
                 enumeration reads ([later_indexes]) and that the IR generator's control flow
                 reads ([extract_context]: is_sparse / sparse leaves).

    Python generators become functions returning the LIST of graphs in yield order.
    [DiagonalAccessError] is an explicit result ([RDiagonal]); a failing dictionary / tuple lookup
    (KeyError / IndexError in Python) is the explicit result [RIllFormed] - excluded for
    well-formed problems by a theorem, never replaced by a default.

    Termination ("the enumeration never hangs") is the fact that Coq accepts these definitions:
    - [legal_iteration_orders]: permutations by recursion on the length of a group;
    - [merge_add] / [merge_multiply] / [merge_assignment]: structural recursion on the PAIR of
      graphs (outer fixpoint on one graph, inner fixpoint on the other): every recursive call of the
      Python generators replaces at least one of the two arguments by its [next] (or, for a SumNode,
      by one of its terms) and leaves the other unchanged;
    - [simplify_add]: the Python function recurses on a SumNode assembled from the [next]s of the
      terms, so the maximal nesting depth [height] drops by one; the model uses [S height] as fuel
      and [proofs/GraphsSimplify.v] proves that this fuel is never exhausted.

    SumNode names: Python numbers SumNodes with a counter shared by the (lazy) generators, so the
    number depends on how often a generator was re-instantiated.  No later stage reads the name
    (grep: _generate_ir.py never touches [SumNode.name]).  The model numbers an Add-with-contraction
    by its pre-order position; comparisons with Python erase the name.

    No proofs in this file. *)

From Coq Require Import List String Bool Arith ZArith.
Import ListNotations.
Open Scope string_scope.
Open Scope list_scope.

(** ** Formats *)

Inductive mode := Dense | Compressed.

Definition mode_eqb (a b : mode) : bool :=
  match a, b with Dense, Dense => true | Compressed, Compressed => true | _, _ => false end.

Record format := mkFormat { f_modes : list mode; f_ordering : list nat }.

Definition formats := list (string * format).

Fixpoint lookup {A} (k : string) (l : list (string * A)) : option A :=
  match l with
  | [] => None
  | (k', v) :: r => if String.eqb k k' then Some v else lookup k r
  end.

Definition mem (s : string) (l : list string) : bool := existsb (String.eqb s) l.

Fixpoint nodupb (l : list string) : bool :=
  match l with [] => true | x :: r => negb (mem x r) && nodupb r end.

Definition is_dense (m : mode) : bool := mode_eqb m Dense.
Definition is_compressed (m : mode) : bool := mode_eqb m Compressed.

(** ** Desugared expressions (desugar/ast.py) *)

Record dtensor := mkDT { d_id : nat; d_name : string; d_indexes : list string }.

Inductive dexpr :=
| DInteger (v : Z)
| DFloat (hex : string)            (* float.hex() of the value *)
| DTensor (t : dtensor)
| DAdd (l r : dexpr)
| DMultiply (l r : dexpr)
| DContract (index : string) (e : dexpr).

Record dassign := mkDA { a_target : dtensor; a_expr : dexpr }.

(** ** Identifiable expressions (iteration_graph/identifiable_expression/ast.py) *)

(** [t_id] is the integer prefix of Python's string id ["<id>_<name>"]. *)
Record tref := mkT { t_id : nat; t_name : string; t_indexes : list string; t_modes : list mode }.

Inductive iexpr :=
| IInteger (v : Z)
| IFloat (hex : string)
| ITensor (t : tref)
| IAdd (l r : iexpr)
| IMultiply (l r : iexpr).

(** TensorLayer *)
Record olayer := mkOL { ol_tensor : tref; ol_layer : nat }.

Definition ol_mode (o : olayer) : option mode := nth_error (t_modes (ol_tensor o)) (ol_layer o).

(** ** Iteration graphs (iteration_graph/iteration_graph.py) *)

Inductive graph :=
| TerminalNode (e : iexpr)
| IterationNode (index : string) (output : option olayer) (next : graph)
| SumNode (name : nat) (terms : list graph).

(** [later_indexes]: TerminalNode -> {} ; IterationNode -> context.indexes = own index + those of
    next ; SumNode -> union over the terms.  Only membership is ever asked. *)
Fixpoint later_indexes (g : graph) : list string :=
  match g with
  | TerminalNode _ => []
  | IterationNode i _ n => i :: later_indexes n
  | SumNode _ ts => flat_map later_indexes ts
  end.

(** ** legal_iteration_orders *)

(** reorderable groups: maximal runs of dense levels; each compressed level alone. *)
Fixpoint append_last (i : nat) (gs : list (list nat)) : list (list nat) :=
  match gs with
  | [] => [[i]]                     (* unreachable: restart = false only after a group exists *)
  | [g] => [g ++ [i]]
  | g :: r => g :: append_last i r
  end.

Fixpoint groups_from (ms : list mode) (i : nat) (restart : bool) (gs : list (list nat))
  : list (list nat) :=
  match ms with
  | [] => gs
  | Dense :: r =>
      groups_from r (S i) false (if restart then gs ++ [[i]] else append_last i gs)
  | Compressed :: r => groups_from r (S i) true (gs ++ [[i]])
  end.

Definition reorderable_groups (ms : list mode) : list (list nat) := groups_from ms 0 true [].

(** remove the k-th element *)
Fixpoint pick {A} (k : nat) (l : list A) : option (A * list A) :=
  match l, k with
  | [], _ => None
  | x :: r, O => Some (x, r)
  | x :: r, S k' => match pick k' r with Some (y, r') => Some (y, x :: r') | None => None end
  end.

(** itertools.permutations: lexicographic in positions *)
Fixpoint perms_fuel {A} (n : nat) (l : list A) : list (list A) :=
  match n with
  | O => [[]]
  | S n' =>
      flat_map (fun k => match pick k l with
                         | Some (x, rest) => map (cons x) (perms_fuel n' rest)
                         | None => []
                         end) (seq 0 (List.length l))
  end.

Definition permutations {A} (l : list A) : list (list A) := perms_fuel (List.length l) l.

(** itertools.product followed by chain: first factor varies slowest *)
Fixpoint product_chain {A} (ls : list (list (list A))) : list (list A) :=
  match ls with
  | [] => [[]]
  | choices :: r => flat_map (fun c => map (fun rest => c ++ rest) (product_chain r)) choices
  end.

Definition legal_iteration_orders (f : format) : list (list nat) :=
  product_chain (map permutations (reorderable_groups (f_modes f))).

(** itertools.product on arbitrary lists (used by merge_assignment on SumNodes) *)
Fixpoint product {A} (ls : list (list A)) : list (list A) :=
  match ls with
  | [] => [[]]
  | choices :: r => flat_map (fun c => map (cons c) (product r)) choices
  end.

(** ** Results of a generator: DiagonalAccessError raised before the first yield, or the list *)

Inductive res (A : Type) :=
| ROk (x : A)
| RDiagonal
| RIllFormed.
Arguments ROk {A} x.
Arguments RDiagonal {A}.
Arguments RIllFormed {A}.

(** ** to_iteration_graphs_tensor *)

(** [tuple(self.indexes[i] for i in format.ordering)] - IndexError is explicit *)
Fixpoint permute_indexes (indexes : list string) (ordering : list nat) : option (list string) :=
  match ordering with
  | [] => Some []
  | o :: r =>
      match nth_error indexes o, permute_indexes indexes r with
      | Some x, Some xs => Some (x :: xs)
      | _, _ => None
      end
  end.

(** to_identifiable / the id.Tensor built in to_iteration_graphs_tensor *)
Definition identify (t : dtensor) (fs : formats) : option tref :=
  match lookup (d_name t) fs with
  | None => None
  | Some f =>
      match permute_indexes (d_indexes t) (f_ordering f) with
      | None => None
      | Some ivs => Some (mkT (d_id t) (d_name t) ivs (f_modes f))
      end
  end.

(** the chain for one legal order: [index_variables[i]] for i in order, bottom = the tensor.
    An order that mentions a level the tensor does not have (IndexError) gives None. *)
Fixpoint chain_indexes (ivs : list string) (order : list nat) : option (list string) :=
  match order with
  | [] => Some []
  | o :: r =>
      match nth_error ivs o, chain_indexes ivs r with
      | Some x, Some xs => Some (x :: xs)
      | _, _ => None
      end
  end.

Fixpoint chain_graph (ixs : list string) (bottom : graph) : graph :=
  match ixs with
  | [] => bottom
  | i :: r => IterationNode i None (chain_graph r bottom)
  end.

Fixpoint sequence {A} (l : list (option A)) : option (list A) :=
  match l with
  | [] => Some []
  | Some x :: r => match sequence r with Some xs => Some (x :: xs) | None => None end
  | None :: _ => None
  end.

Definition tensor_graphs (t : dtensor) (fs : formats) : res (list graph) :=
  match lookup (d_name t) fs, identify t fs with
  | Some f, Some tr =>
      if negb (nodupb (t_indexes tr)) then RDiagonal
      else
        match sequence (map (chain_indexes (t_indexes tr)) (legal_iteration_orders f)) with
        | Some chains => ROk (map (fun ixs => chain_graph ixs (TerminalNode (ITensor tr))) chains)
        | None => RIllFormed
        end
  | _, _ => RIllFormed
  end.

(** ** contains_contraction *)

Fixpoint contains_contraction (e : dexpr) : bool :=
  match e with
  | DContract _ _ => true
  | DAdd l r | DMultiply l r => contains_contraction l || contains_contraction r
  | _ => false
  end.

(** ** merge_add / merge_multiply: all ways to co-iterate two graphs.
    [mk] builds the terminal (id.Add / id.Multiply).  A SumNode on either side matches no case of
    merge_add (nothing is yielded) and the explicit empty case of merge_multiply. *)

Fixpoint merge_with (mk : iexpr -> iexpr -> iexpr) (l : graph) {struct l} : graph -> list graph :=
  fix inner (r : graph) {struct r} : list graph :=
    match l, r with
    | TerminalNode le, TerminalNode re => [TerminalNode (mk le re)]
    | IterationNode li lo ln, TerminalNode _ =>
        map (IterationNode li lo) (merge_with mk ln r)
    | TerminalNode _, IterationNode ri ro rn =>
        map (IterationNode ri ro) (inner rn)
    | IterationNode li lo ln, IterationNode ri ro rn =>
        if String.eqb li ri then
          map (IterationNode li lo) (merge_with mk ln rn)
        else
          (if negb (mem li (later_indexes rn))
           then map (IterationNode li lo) (merge_with mk ln r) else [])
          ++
          (if negb (mem ri (later_indexes ln))
           then map (IterationNode ri ro) (inner rn) else [])
    | SumNode _ _, _ => []
    | _, SumNode _ _ => []
    end.

Definition merge_add := merge_with IAdd.
Definition merge_multiply := merge_with IMultiply.

(** ** simplify_add *)

(** insertion-ordered defaultdict(list): index -> the (output, next) of the IterationNodes *)
Fixpoint group_insert (i : string) (v : option olayer * graph)
         (gs : list (string * list (option olayer * graph)))
  : list (string * list (option olayer * graph)) :=
  match gs with
  | [] => [(i, [v])]
  | (j, vs) :: r => if String.eqb i j then (j, vs ++ [v]) :: r else (j, vs) :: group_insert i v r
  end.

Fixpoint split_terms (ts : list graph)
         (terminals : list iexpr) (groups : list (string * list (option olayer * graph)))
  : list iexpr * list (string * list (option olayer * graph)) :=
  match ts with
  | [] => (terminals, groups)
  | TerminalNode e :: r => split_terms r (terminals ++ [e]) groups
  | IterationNode i o n :: r => split_terms r terminals (group_insert i (o, n) groups)
  | SumNode _ _ :: r => split_terms r terminals groups      (* `match` has no case: skipped *)
  end.

(** reduce(id.Add, exprs) on a non-empty list *)
Definition reduce_add (e : iexpr) (es : list iexpr) : iexpr := fold_left IAdd es e.

Definition next_terms_of (n : graph) : list graph :=
  match n with SumNode _ ts => ts | _ => [n] end.

Fixpoint height (g : graph) : nat :=
  match g with
  | TerminalNode _ => 0
  | IterationNode _ _ n => S (height n)
  | SumNode _ ts => fold_right (fun t acc => Nat.max (height t) acc) 0 ts
  end.

Definition height_list (ts : list graph) : nat :=
  fold_right (fun t acc => Nat.max (height t) acc) 0 ts.

(** [None] = fuel exhausted (proved impossible for fuel > height_list ts) *)
Fixpoint simplify_fuel (fuel : nat) (name : nat) (ts : list graph) : option graph :=
  match fuel with
  | O => None
  | S fuel' =>
      let '(terminals, groups) := split_terms ts [] [] in
      let tnodes := match terminals with
                    | [] => []
                    | e :: es => [TerminalNode (reduce_add e es)]
                    end in
      let inodes :=
        map (fun g : string * list (option olayer * graph) =>
               let '(i, vs) := g in
               match vs with
               | [] => None                                   (* a group is never empty *)
               | (o, _) :: _ =>
                   match simplify_fuel fuel' name (flat_map (fun v => next_terms_of (snd v)) vs) with
                   | Some n' => Some (IterationNode i o n')
                   | None => None
                   end
               end) groups in
      match sequence inodes with
      | None => None
      | Some inodes' =>
          match tnodes ++ inodes' with
          | [single] => Some single
          | combined => Some (SumNode name combined)
          end
      end
  end.

Definition simplify_add_opt (name : nat) (ts : list graph) : option graph :=
  simplify_fuel (S (height_list ts)) name ts.

(** Total wrapper.  The [None] branch is dead code: [GraphsSimplify.simplify_add_opt_total]
    proves [simplify_add_opt name ts <> None] for all inputs. *)
Definition simplify_add (name : nat) (ts : list graph) : graph :=
  match simplify_add_opt name ts with
  | Some g => g
  | None => SumNode name ts
  end.

(** ** to_iteration_graphs_expression *)

(** number of Add-with-contraction nodes: names are pre-order positions *)
Fixpoint count_sums (e : dexpr) : nat :=
  match e with
  | DAdd l r =>
      (if contains_contraction l || contains_contraction r then 1 else 0) + count_sums l + count_sums r
  | DMultiply l r => count_sums l + count_sums r
  | DContract _ x => count_sums x
  | _ => 0
  end.

Definition sum_terms (l r : graph) : list graph :=
  match l, r with
  | SumNode _ lt, SumNode _ rt => lt ++ rt
  | SumNode _ lt, _ => lt ++ [r]
  | _, SumNode _ rt => l :: rt
  | _, _ => [l; r]
  end.

(** [for left in gen(l): for right in gen(r): body] with the generators' laziness: the right
    generator is only created once the left one has yielded, so a DiagonalAccessError on the right
    is not raised when the left yields nothing. *)
Definition for_both {A} (L R : res (list A)) (body : A -> A -> list A) : res (list A) :=
  match L with
  | ROk [] => ROk []
  | ROk ls =>
      match R with
      | ROk rs => ROk (flat_map (fun l => flat_map (fun r => body l r) rs) ls)
      | RDiagonal => RDiagonal
      | RIllFormed => RIllFormed
      end
  | RDiagonal => RDiagonal
  | RIllFormed => RIllFormed
  end.

Fixpoint expr_graphs (e : dexpr) (fs : formats) (c : nat) : res (list graph) :=
  match e with
  | DInteger v => ROk [TerminalNode (IInteger v)]
  | DFloat h => ROk [TerminalNode (IFloat h)]
  | DTensor t => tensor_graphs t fs
  | DAdd l r =>
      if negb (contains_contraction l || contains_contraction r) then
        for_both (expr_graphs l fs c) (expr_graphs r fs c) merge_add
      else
        for_both (expr_graphs l fs (S c)) (expr_graphs r fs (S c + count_sums l))
                 (fun lg rg => [simplify_add c (sum_terms lg rg)])
  | DMultiply l r =>
      for_both (expr_graphs l fs c) (expr_graphs r fs (c + count_sums l)) merge_multiply
  | DContract _ x => expr_graphs x fs c
  end.

(** ** merge_assignment *)

(** the target chain: (index variable, its output layer), in iteration order *)
Definition tlayer := (string * olayer)%type.

Definition pending_compressed (tgt : list tlayer) : bool :=
  existsb (fun t => match ol_mode (snd t) with Some Compressed => true | _ => false end) tgt.

Fixpoint merge_assignment (e : graph) {struct e} : list tlayer -> list graph :=
  fix inner (tgt : list tlayer) {struct tgt} : list graph :=
    match tgt with
    | [] => [e]
    | (ti, tl) :: ts =>
        match e with
        | TerminalNode _ => map (IterationNode ti (Some tl)) (inner ts)
        | IterationNode ei eo en =>
            if String.eqb ti ei then
              map (IterationNode ti (Some tl)) (merge_assignment en ts)
            else
              (if negb (mem ti (later_indexes en))
               then map (IterationNode ti (Some tl)) (inner ts) else [])
              ++
              (if negb (mem ei (map fst ts)) && negb (pending_compressed tgt)
               then map (IterationNode ei eo) (merge_assignment en tgt) else [])
        | SumNode name terms =>
            map (fun merged => simplify_add name merged)
                (product (map (fun t => merge_assignment t tgt) terms))
        end
    end.

(** ** to_iteration_graphs *)

(** target chains: one per legal order of the output format; layer i_layer of the output tensor is
    attached to the index variable it stores ([output_layers[...]]). *)
Definition target_chain (tr : tref) (order : list nat) : option (list tlayer) :=
  sequence (map (fun l => match nth_error (t_indexes tr) l with
                          | Some i => Some (i, mkOL tr l)
                          | None => None
                          end) order).

Definition target_chains (t : dtensor) (fs : formats) : res (list (list tlayer)) :=
  match lookup (d_name t) fs, identify t fs with
  | Some f, Some tr =>
      if negb (nodupb (t_indexes tr)) then RDiagonal
      else match sequence (map (target_chain tr) (legal_iteration_orders f)) with
           | Some cs => ROk cs
           | None => RIllFormed
           end
  | _, _ => RIllFormed
  end.

Definition to_iteration_graphs (a : dassign) (fs : formats) : res (list graph) :=
  match target_chains (a_target a) fs with
  | ROk [] => ROk []
  | ROk chains =>
      match expr_graphs (a_expr a) fs 1 with
      | ROk es => ROk (flat_map (fun tgt => flat_map (fun e => merge_assignment e tgt) es) chains)
      | RDiagonal => RDiagonal
      | RIllFormed => RIllFormed
      end
  | RDiagonal => RDiagonal
  | RIllFormed => RIllFormed
  end.

(** ** best_algorithm: [next(..., None)] *)

Inductive best :=
| BGraph (g : graph)
| BNoKernel
| BDiagonal
| BIllFormed.

Definition best_of (r : res (list graph)) : best :=
  match r with
  | ROk [] => BNoKernel
  | ROk (g :: _) => BGraph g
  | RDiagonal => BDiagonal
  | RIllFormed => BIllFormed
  end.

Definition best_algorithm (a : dassign) (fs : formats) : best :=
  best_of (to_iteration_graphs a fs).

(** ** extract_context (only what the IR generator's control flow reads) *)

Definition is_zero_literal (e : iexpr) : bool :=
  match e with
  | IInteger 0%Z => true
  | IFloat h => String.eqb h "0x0.0p+0" || String.eqb h "-0x0.0p+0"
  | _ => false
  end.

Fixpoint index_of (i : string) (l : list string) : option nat :=
  match l with
  | [] => None
  | x :: r => if String.eqb i x then Some 0
              else match index_of i r with Some n => Some (S n) | None => None end
  end.

(** (is_sparse, has a sparse leaf) of [extract_context e index] *)
Fixpoint expr_context (e : iexpr) (index : string) : bool * bool :=
  match e with
  | IInteger _ | IFloat _ => (is_zero_literal e, false)
  | ITensor t =>
      match index_of index (t_indexes t) with
      | None => (false, false)
      | Some l => match nth_error (t_modes t) l with
                  | Some Compressed => (true, true)
                  | _ => (false, false)   (* Dense; a missing mode (IndexError) cannot occur for
                                             trefs built by [identify] under wf_problem *)
                  end
      end
  | IAdd l r =>
      let '(ls, ll) := expr_context l index in
      let '(rs, rl) := expr_context r index in (ls && rs, ll || rl)
  | IMultiply l r =>
      let '(ls, ll) := expr_context l index in
      let '(rs, rl) := expr_context r index in (ls || rs, ll || rl)
  end.

Fixpoint graph_context (g : graph) (index : string) : bool * bool :=
  match g with
  | TerminalNode e => expr_context e index
  | IterationNode _ _ n => graph_context n index
  | SumNode _ ts =>
      fold_left (fun acc t => let '(s, l) := graph_context t index in (fst acc && s, snd acc || l))
                ts (true, false)
  end.

(** ** Structural equality (for the correspondence; SumNode names are not compared) *)

Fixpoint list_eqb {A} (eqb : A -> A -> bool) (a b : list A) : bool :=
  match a, b with
  | [], [] => true
  | x :: a', y :: b' => eqb x y && list_eqb eqb a' b'
  | _, _ => false
  end.

Definition tref_eqb (a b : tref) : bool :=
  Nat.eqb (t_id a) (t_id b) && String.eqb (t_name a) (t_name b)
  && list_eqb String.eqb (t_indexes a) (t_indexes b)
  && list_eqb mode_eqb (t_modes a) (t_modes b).

Fixpoint iexpr_eqb (a b : iexpr) : bool :=
  match a, b with
  | IInteger x, IInteger y => Z.eqb x y
  | IFloat x, IFloat y => String.eqb x y
  | ITensor x, ITensor y => tref_eqb x y
  | IAdd a1 a2, IAdd b1 b2 => iexpr_eqb a1 b1 && iexpr_eqb a2 b2
  | IMultiply a1 a2, IMultiply b1 b2 => iexpr_eqb a1 b1 && iexpr_eqb a2 b2
  | _, _ => false
  end.

Definition olayer_eqb (a b : option olayer) : bool :=
  match a, b with
  | None, None => true
  | Some x, Some y => tref_eqb (ol_tensor x) (ol_tensor y) && Nat.eqb (ol_layer x) (ol_layer y)
  | _, _ => false
  end.

Fixpoint graph_eqb (a b : graph) {struct a} : bool :=
  match a, b with
  | TerminalNode x, TerminalNode y => iexpr_eqb x y
  | IterationNode i o n, IterationNode j p m => String.eqb i j && olayer_eqb o p && graph_eqb n m
  | SumNode _ ts, SumNode _ us =>
      (fix go (l : list graph) (r : list graph) {struct l} : bool :=
         match l, r with
         | [], [] => true
         | x :: l', y :: r' => graph_eqb x y && go l' r'
         | _, _ => false
         end) ts us
  | _, _ => false
  end.

(** ** Canonical text and hash of a graph (for the correspondence: the harness prints Python's graphs
    in the same format and compares hashes, so that no large term has to be parsed by Coq).
    Format (prefix code; identifiers contain none of the punctuation):
      graph := T(<iexpr>) | I(<index>,<out>,<graph>) | S[<graph>;...;]
      out   := N | L<layer>:<tref>
      tref  := <id>:<name>(<index>,...,)[<d|s>...]
      iexpr := Z<int> | F<hex> | V<tref> | A(<l>,<r>) | M(<l>,<r>)
    SumNode names are not printed. *)
From Coq Require Import Ascii NArith DecimalString DecimalPos DecimalNat.
Local Open Scope string_scope.

Definition show_nat (n : nat) : string := NilEmpty.string_of_uint (Nat.to_uint n).
Definition show_Z (z : Z) : string :=
  match z with
  | Z0 => "0"
  | Zpos p => NilEmpty.string_of_uint (Pos.to_uint p)
  | Zneg p => "-" ++ NilEmpty.string_of_uint (Pos.to_uint p)
  end.

Definition show_mode (m : mode) : string := match m with Dense => "d" | Compressed => "s" end.

Definition show_tref (t : tref) : string :=
  show_nat (t_id t) ++ ":" ++ t_name t ++ "("
  ++ String.concat "" (map (fun i => i ++ ",") (t_indexes t)) ++ ")["
  ++ String.concat "" (map show_mode (t_modes t)) ++ "]".

Fixpoint show_iexpr (e : iexpr) : string :=
  match e with
  | IInteger v => "Z" ++ show_Z v
  | IFloat h => "F" ++ h
  | ITensor t => "V" ++ show_tref t
  | IAdd l r => "A(" ++ show_iexpr l ++ "," ++ show_iexpr r ++ ")"
  | IMultiply l r => "M(" ++ show_iexpr l ++ "," ++ show_iexpr r ++ ")"
  end.

Definition show_out (o : option olayer) : string :=
  match o with
  | None => "N"
  | Some l => "L" ++ show_nat (ol_layer l) ++ ":" ++ show_tref (ol_tensor l)
  end.

Fixpoint show_graph (g : graph) : string :=
  match g with
  | TerminalNode e => "T(" ++ show_iexpr e ++ ")"
  | IterationNode i o n => "I(" ++ i ++ "," ++ show_out o ++ "," ++ show_graph n ++ ")"
  | SumNode _ ts => "S[" ++ String.concat "" (map (fun t => show_graph t ++ ";") ts) ++ "]"
  end.

(** polynomial hash modulo the Mersenne prime 2^61 - 1 *)
Definition hash_mod : N := 2305843009213693951%N.
Fixpoint hash_string_from (h : N) (s : string) : N :=
  match s with
  | EmptyString => h
  | String c r => hash_string_from ((h * 1000003 + N_of_ascii c + 1) mod hash_mod)%N r
  end.
Definition hash_string (s : string) : N := hash_string_from 7%N s.
Definition hash_graph (g : graph) : N := hash_string (show_graph g).
