(** Hand model of tensora's C expression printer, /repo/src/tensora/codegen/_ir_to_c.py:
    [parens], [ir_to_c_expression] with all its registrations, [ir_to_c_assignment] (the
    [++ -- += -= *=] sugar), [ir_to_c_declaration_assignment], [ir_to_c_return],
    [convert_expression_to_statement], [convert_declaration_to_statement]; types through
    codegen/_type_to_c.py (spec/CGrammar.v::type_tokens).

    The printer's strings are modelled as TOKEN lists (what a C lexer makes of them); the tie to the
    real strings is the token correspondence of tools/props/_c06_printer.py, which lexes the real
    output and compares token for token.  Statement layout (blocks, if / while, indentation) is not
    modelled.

    Also here, because they are executable and are evaluated by the harness:
    [embed] (IR tree -> C tree, node for node), [rotate] (the tree the C compiler actually parses:
    known finding K-C06-1), [level_of], the guards [wt_expr] / [alloc_ok], [denoteZ]. *)

From Coq Require Import ZArith Bool List String.
From Flocq Require Import Core BinarySingleNaN.
From TV Require Import spec.Num gen.IRAst spec.CGrammar.
Import ListNotations.
Local Open Scope nat_scope.
Local Open Scope list_scope.

(** * Python classes of expressions, for [isinstance(code, wrap_me)] *)

Inductive eclass : Type :=
  | KVar | KAttributeAccess | KArrayIndex | KIntegerLiteral | KFloatLiteral | KBooleanLiteral
  | KAdd | KSubtract | KMultiply | KEqual | KNotEqual | KGreaterThan | KLessThan
  | KGreaterThanOrEqual | KLessThanOrEqual | KAnd | KOr | KMax | KMin | KBooleanToInteger
  | KArrayAllocate | KArrayReallocate.

Definition class_of (e : expr) : eclass :=
  match e with
  | Var _ => KVar | AttributeAccess _ _ => KAttributeAccess | ArrayIndex _ _ => KArrayIndex
  | IntegerLiteral _ => KIntegerLiteral | FloatLiteral _ => KFloatLiteral
  | BooleanLiteral _ => KBooleanLiteral
  | Add _ _ => KAdd | Subtract _ _ => KSubtract | Multiply _ _ => KMultiply
  | Equal _ _ => KEqual | NotEqual _ _ => KNotEqual | GreaterThan _ _ => KGreaterThan
  | LessThan _ _ => KLessThan | GreaterThanOrEqual _ _ => KGreaterThanOrEqual
  | LessThanOrEqual _ _ => KLessThanOrEqual | And _ _ => KAnd | Or _ _ => KOr
  | Max _ _ => KMax | Min _ _ => KMin | BooleanToInteger _ => KBooleanToInteger
  | ArrayAllocate _ _ => KArrayAllocate | ArrayReallocate _ _ _ => KArrayReallocate
  end.

Definition eclass_tag (k : eclass) : nat :=
  match k with
  | KVar => 0 | KAttributeAccess => 1 | KArrayIndex => 2 | KIntegerLiteral => 3
  | KFloatLiteral => 4 | KBooleanLiteral => 5 | KAdd => 6 | KSubtract => 7 | KMultiply => 8
  | KEqual => 9 | KNotEqual => 10 | KGreaterThan => 11 | KLessThan => 12
  | KGreaterThanOrEqual => 13 | KLessThanOrEqual => 14 | KAnd => 15 | KOr => 16 | KMax => 17
  | KMin => 18 | KBooleanToInteger => 19 | KArrayAllocate => 20 | KArrayReallocate => 21
  end.

Definition isinstance (e : expr) (classes : list eclass) : bool :=
  existsb (fun k => Nat.eqb (eclass_tag (class_of e)) (eclass_tag k)) classes.

(** * The printer *)

Definition wrap (ts : list ctoken) : list ctoken := TLParen :: ts ++ [TRParen].

(** [parens(code, wrap_me)], given the already printed [code] *)
Definition parens (printed : list ctoken) (code : expr) (wrap_me : list eclass) : list ctoken :=
  if isinstance code wrap_me then wrap printed else printed.

Fixpoint cprint (e : expr) : list ctoken :=
  match e with
  | Var x => [TId x]
  | AttributeAccess t a => cprint t ++ [TArrow; TId a]
  | ArrayIndex t i => cprint t ++ TLBrack :: cprint i ++ [TRBrack]
  | BooleanLiteral b => [if b then TTrue else TFalse]
  | IntegerLiteral z => int_tokens z
  | FloatLiteral f => float_tokens f
  | Add l r => cprint l ++ TPlus :: cprint r
  | Subtract l r => cprint l ++ TMinus :: parens (cprint r) r [KAdd; KSubtract]
  | Multiply l r =>
      parens (cprint l) l [KAdd; KSubtract] ++ TStar :: parens (cprint r) r [KAdd; KSubtract]
  | Equal l r => cprint l ++ TEqEq :: cprint r
  | NotEqual l r => cprint l ++ TNe :: cprint r
  | GreaterThan l r => cprint l ++ TGt :: cprint r
  | LessThan l r => cprint l ++ TLt :: cprint r
  | GreaterThanOrEqual l r => cprint l ++ TGe :: cprint r
  | LessThanOrEqual l r => cprint l ++ TLe :: cprint r
  | And l r => parens (cprint l) l [KOr] ++ TAndAnd :: parens (cprint r) r [KOr]
  | Or l r => cprint l ++ TOrOr :: cprint r
  | Max l r => TId "TACO_MAX" :: TLParen :: cprint l ++ TComma :: cprint r ++ [TRParen]
  | Min l r => TId "TACO_MIN" :: TLParen :: cprint l ++ TComma :: cprint r ++ [TRParen]
  | BooleanToInteger x => TLParen :: TTypeName "int32_t" :: TRParen :: wrap (cprint x)
  | ArrayAllocate t n =>
      TId "malloc" :: TLParen :: TSizeof :: TLParen :: type_name t ++ TRParen :: TStar ::
        parens (cprint n) n [KAdd; KSubtract] ++ [TRParen]
  | ArrayReallocate old t n =>
      TId "realloc" :: TLParen :: cprint old ++ TComma :: TSizeof :: TLParen :: type_name t ++
        TRParen :: TStar :: parens (cprint n) n [KAdd; KSubtract] ++ [TRParen]
  end.

(** [ir_to_c_assignment]; [==] is Python dataclass equality, i.e. the generated [expr_eqb]. *)
Definition cprint_assignment (target value : expr) : list ctoken :=
  let t := cprint target in
  let plain := t ++ TAssign :: cprint value ++ [TSemi] in
  match value with
  | Add l r =>
      if expr_eqb l target then
        if expr_eqb r (IntegerLiteral 1) then t ++ [TPlusPlus; TSemi]
        else t ++ TPlusEq :: cprint r ++ [TSemi]
      else plain
  | Subtract l r =>
      if expr_eqb l target then
        if expr_eqb r (IntegerLiteral 1) then t ++ [TMinusMinus; TSemi]
        else t ++ TMinusEq :: cprint r ++ [TSemi]
      else plain
  | Multiply l r =>
      if expr_eqb l target then t ++ TStarEq :: cprint r ++ [TSemi] else plain
  | _ => plain
  end.

(** [ir_to_c_declaration]: [self.name.name] exists only on a Variable *)
Definition cprint_declaration (d : stmt) : option (list ctoken) :=
  match d with
  | Declaration (Var x) t => Some (type_tokens t (Some x))
  | _ => None
  end.

(** the one-line statements of [ir_to_c_statement]; [None] = not modelled (layout statements) or a
    Python exception (a declaration whose name is not a Variable) *)
Definition cprint_stmt (s : stmt) : option (list ctoken) :=
  match s with
  | Assignment t v => Some (cprint_assignment t v)
  | DeclarationAssignment d v =>
      match cprint_declaration d with
      | Some ts => Some (ts ++ TAssign :: cprint v ++ [TSemi])
      | None => None
      end
  | Declaration _ _ =>
      match cprint_declaration s with Some ts => Some (ts ++ [TSemi]) | None => None end
  | Return v => Some (TReturn :: cprint v ++ [TSemi])
  | SExpr e => Some (cprint e ++ [TSemi])
  | _ => None
  end.

(** * IR tree -> C tree, node for node *)

Definition embed_int (z : Z) : cexpr := if (z <? 0)%Z then CNeg (CInt (- z)%Z) else CInt z.
Definition embed_float (f : F) : cexpr := if Bsign f then CNeg (CFloat (Babs f)) else CFloat f.

Fixpoint embed (e : expr) : cexpr :=
  match e with
  | Var x => CVar x
  | AttributeAccess t a => CArrow (embed t) a
  | ArrayIndex t i => CIndex (embed t) (embed i)
  | IntegerLiteral z => embed_int z
  | FloatLiteral f => embed_float f
  | BooleanLiteral b => CBool b
  | Add l r => CBin OAdd (embed l) (embed r)
  | Subtract l r => CBin OSub (embed l) (embed r)
  | Multiply l r => CBin OMul (embed l) (embed r)
  | Equal l r => CBin OEq (embed l) (embed r)
  | NotEqual l r => CBin ONe (embed l) (embed r)
  | GreaterThan l r => CBin OGt (embed l) (embed r)
  | LessThan l r => CBin OLt (embed l) (embed r)
  | GreaterThanOrEqual l r => CBin OGe (embed l) (embed r)
  | LessThanOrEqual l r => CBin OLe (embed l) (embed r)
  | And l r => CBin OAnd (embed l) (embed r)
  | Or l r => CBin OOr (embed l) (embed r)
  | Max l r => CCall2 (CVar "TACO_MAX") (embed l) (embed r)
  | Min l r => CCall2 (CVar "TACO_MIN") (embed l) (embed r)
  | BooleanToInteger x => CCast TInteger (embed x)
  | ArrayAllocate t n => CCall1 (CVar "malloc") (CBin OMul (CSizeof t) (embed n))
  | ArrayReallocate old t n =>
      CCall2 (CVar "realloc") (embed old) (CBin OMul (CSizeof t) (embed n))
  end.

(** the precedence level at which an expression is printed *)
Definition level_of (e : expr) : nat :=
  match e with
  | Or _ _ => LOr
  | And _ _ => LAnd
  | Equal _ _ | NotEqual _ _ => LEq
  | GreaterThan _ _ | LessThan _ _ | GreaterThanOrEqual _ _ | LessThanOrEqual _ _ => LRel
  | Add _ _ | Subtract _ _ => LAdd
  | Multiply _ _ => LMul
  | BooleanToInteger _ => LCast
  | IntegerLiteral z => if (z <? 0)%Z then LUnary else LPrimary
  | FloatLiteral f => if Bsign f then LUnary else LPrimary
  | AttributeAccess _ _ | ArrayIndex _ _ | Max _ _ | Min _ _ | ArrayAllocate _ _
  | ArrayReallocate _ _ _ => LPostfix
  | Var _ | BooleanLiteral _ => LPrimary
  end.

(** * The tree the C compiler actually parses (K-C06-1)

    [rot lg e acc]: the tree parsed from [acc OP <text of e>] where [e] is printed WITHOUT parentheses
    directly to the right of the accumulated left operand [acc] of a left-associative chain
    ([RNone]: nothing to the left).  A right operand of the same precedence class continues the
    chain instead of forming its own sub-tree.  With [lg = false] the && / || chains are left
    alone: that is exactly the Python function [rot] of tools/harness/crot.py (the re-association of
    && and || is invisible in the semantics, proofs/CPrintSem.v). *)

Inductive racc : Type :=
  | RNone
  | RAdd (a : expr)
  | RMul (a : expr)
  | RAnd (a : expr)
  | ROr (a : expr).

Definition close (acc : racc) (e : expr) : expr :=
  match acc with
  | RNone => e
  | RAdd a => Add a e
  | RMul a => Multiply a e
  | RAnd a => And a e
  | ROr a => Or a e
  end.

Definition chains_add (acc : racc) : bool :=
  match acc with RNone | RAdd _ => true | _ => false end.
Definition chains_mul (acc : racc) : bool :=
  match acc with RNone | RMul _ => true | _ => false end.
Definition chains_and (acc : racc) : bool :=
  match acc with RNone | RAnd _ => true | _ => false end.
Definition chains_or (acc : racc) : bool :=
  match acc with RNone | ROr _ => true | _ => false end.

Fixpoint rot (lg : bool) (e : expr) (acc : racc) {struct e} : expr :=
  match e with
  | Add l r =>
      if chains_add acc then rot lg r (RAdd (rot lg l acc))
      else close acc (rot lg r (RAdd (rot lg l RNone)))
  | Subtract l r =>
      if chains_add acc then Subtract (rot lg l acc) (rot lg r RNone)
      else close acc (Subtract (rot lg l RNone) (rot lg r RNone))
  | Multiply l r =>
      if chains_mul acc then rot lg r (RMul (rot lg l acc))
      else close acc (rot lg r (RMul (rot lg l RNone)))
  | And l r =>
      if lg then
        if chains_and acc then rot lg r (RAnd (rot lg l acc))
        else close acc (rot lg r (RAnd (rot lg l RNone)))
      else close acc (And (rot lg l RNone) (rot lg r RNone))
  | Or l r =>
      if lg then
        if chains_or acc then rot lg r (ROr (rot lg l acc))
        else close acc (rot lg r (ROr (rot lg l RNone)))
      else close acc (Or (rot lg l RNone) (rot lg r RNone))
  | Var _ | IntegerLiteral _ | FloatLiteral _ | BooleanLiteral _ => close acc e
  | AttributeAccess t a => close acc (AttributeAccess (rot lg t RNone) a)
  | ArrayIndex t i => close acc (ArrayIndex (rot lg t RNone) (rot lg i RNone))
  | Equal l r => close acc (Equal (rot lg l RNone) (rot lg r RNone))
  | NotEqual l r => close acc (NotEqual (rot lg l RNone) (rot lg r RNone))
  | GreaterThan l r => close acc (GreaterThan (rot lg l RNone) (rot lg r RNone))
  | LessThan l r => close acc (LessThan (rot lg l RNone) (rot lg r RNone))
  | GreaterThanOrEqual l r => close acc (GreaterThanOrEqual (rot lg l RNone) (rot lg r RNone))
  | LessThanOrEqual l r => close acc (LessThanOrEqual (rot lg l RNone) (rot lg r RNone))
  | Max l r => close acc (Max (rot lg l RNone) (rot lg r RNone))
  | Min l r => close acc (Min (rot lg l RNone) (rot lg r RNone))
  | BooleanToInteger x => close acc (BooleanToInteger (rot lg x RNone))
  | ArrayAllocate t n => close acc (ArrayAllocate t (rot lg n RNone))
  | ArrayReallocate old t n => close acc (ArrayReallocate (rot lg old RNone) t (rot lg n RNone))
  end.

(** what C parses from [cprint e] *)
Definition rotate (e : expr) : expr := rot true e RNone.

(** the Python [rot] of tools/harness/crot.py on expressions *)
Definition rotate_arith (e : expr) : expr := rot false e RNone.

(** [rot] on an Assignment: a statement printed with the compound-assignment sugar keeps the top
    node of its value ([t op= r] evaluates [r] as a whole). *)
Definition sugared (target value : expr) : bool :=
  match value with
  | Add l _ | Subtract l _ | Multiply l _ => expr_eqb l target
  | _ => false
  end.

Definition rotate_assignment_value (lg : bool) (target value : expr) : expr :=
  if sugared target value then
    match value with
    | Add l r => Add (rot lg l RNone) (rot lg r RNone)
    | Subtract l r => Subtract (rot lg l RNone) (rot lg r RNone)
    | Multiply l r => Multiply (rot lg l RNone) (rot lg r RNone)
    | v => rot lg v RNone
    end
  else rot lg value RNone.

Definition rotate_stmt1 (lg : bool) (s : stmt) : stmt :=
  match s with
  | Assignment t v => Assignment (rot lg t RNone) (rotate_assignment_value lg t v)
  | DeclarationAssignment d v => DeclarationAssignment d (rot lg v RNone)
  | Return v => Return (rot lg v RNone)
  | SExpr e => SExpr (rot lg e RNone)
  | s => s
  end.

(** * Re-association normal form of a C tree (harness classifier only, no theorem depends on it):
      every + - / * / && / || chain left-nested.  Two trees with the same normal form differ only by
      the association of such chains -- the K-C06-1 family. *)
Inductive cacc : Type :=
  | CANone
  | CAAdd (a : cexpr)
  | CAMul (a : cexpr)
  | CAAnd (a : cexpr)
  | CAOr (a : cexpr).

Definition cclose (acc : cacc) (c : cexpr) : cexpr :=
  match acc with
  | CANone => c
  | CAAdd a => CBin OAdd a c
  | CAMul a => CBin OMul a c
  | CAAnd a => CBin OAnd a c
  | CAOr a => CBin OOr a c
  end.

Fixpoint cnorm_acc (c : cexpr) (acc : cacc) {struct c} : cexpr :=
  match c with
  | CBin OAdd a b =>
      match acc with
      | CANone | CAAdd _ => cnorm_acc b (CAAdd (cnorm_acc a acc))
      | _ => cclose acc (cnorm_acc b (CAAdd (cnorm_acc a CANone)))
      end
  | CBin OSub a b =>
      match acc with
      | CANone | CAAdd _ => CBin OSub (cnorm_acc a acc) (cnorm_acc b CANone)
      | _ => cclose acc (CBin OSub (cnorm_acc a CANone) (cnorm_acc b CANone))
      end
  | CBin OMul a b =>
      match acc with
      | CANone | CAMul _ => cnorm_acc b (CAMul (cnorm_acc a acc))
      | _ => cclose acc (cnorm_acc b (CAMul (cnorm_acc a CANone)))
      end
  | CBin OAnd a b =>
      match acc with
      | CANone | CAAnd _ => cnorm_acc b (CAAnd (cnorm_acc a acc))
      | _ => cclose acc (cnorm_acc b (CAAnd (cnorm_acc a CANone)))
      end
  | CBin OOr a b =>
      match acc with
      | CANone | CAOr _ => cnorm_acc b (CAOr (cnorm_acc a acc))
      | _ => cclose acc (cnorm_acc b (CAOr (cnorm_acc a CANone)))
      end
  | CBin o a b => cclose acc (CBin o (cnorm_acc a CANone) (cnorm_acc b CANone))
  | CNeg a => cclose acc (CNeg (cnorm_acc a CANone))
  | CCast t a => cclose acc (CCast t (cnorm_acc a CANone))
  | CIndex a i => cclose acc (CIndex (cnorm_acc a CANone) (cnorm_acc i CANone))
  | CArrow a f => cclose acc (CArrow (cnorm_acc a CANone) f)
  | CCall1 f a => cclose acc (CCall1 (cnorm_acc f CANone) (cnorm_acc a CANone))
  | CCall2 f a b => cclose acc (CCall2 (cnorm_acc f CANone) (cnorm_acc a CANone) (cnorm_acc b CANone))
  | CVar _ | CInt _ | CFloat _ | CBool _ | CSizeof _ => cclose acc c
  end.

Definition cnorm (c : cexpr) : cexpr := cnorm_acc c CANone.

(** the C statement tree that the printed assignment derives *)
Definition cstmt_of_assignment (target value : expr) : cstmt :=
  let ct := embed (rotate target) in
  let plain := CSAssign AEq ct (embed (rotate value)) in
  match value with
  | Add l r =>
      if expr_eqb l target then
        if expr_eqb r (IntegerLiteral 1) then CSPostIncr ct else CSAssign AAddEq ct (embed (rotate r))
      else plain
  | Subtract l r =>
      if expr_eqb l target then
        if expr_eqb r (IntegerLiteral 1) then CSPostDecr ct else CSAssign ASubEq ct (embed (rotate r))
      else plain
  | Multiply l r =>
      if expr_eqb l target then CSAssign AMulEq ct (embed (rotate r)) else plain
  | _ => plain
  end.

Definition cstmt_of (s : stmt) : option cstmt :=
  match s with
  | Assignment t v => Some (cstmt_of_assignment t v)
  | DeclarationAssignment (Declaration (Var x) t) v => Some (CSDeclInit t x (embed (rotate v)))
  | Declaration (Var x) t => Some (CSDecl t x)
  | Return v => Some (CSReturn (embed (rotate v)))
  | SExpr e => Some (CSExpr (embed (rotate e)))
  | _ => None
  end.

(** what the printed assignment assigns, after ISO C's definitional expansion of [op=], [++], [--]:
    the sugar keeps the top node ([t op= r] evaluates [r] as a whole) *)
Definition assigned_value (target value : expr) : cexpr :=
  let ct := embed (rotate target) in
  match value with
  | Add l r => if expr_eqb l target then CBin OAdd ct (embed (rotate r)) else embed (rotate value)
  | Subtract l r => if expr_eqb l target then CBin OSub ct (embed (rotate r)) else embed (rotate value)
  | Multiply l r => if expr_eqb l target then CBin OMul ct (embed (rotate r)) else embed (rotate value)
  | _ => embed (rotate value)
  end.

(** * Guards *)

(** syntactic sort of an expression's VALUE: what the typing of the IR machine (spec/IRSem.v) and
    of the LLVM back end forces.  [SBool]: comparisons, && ||, true/false.  [SNum]: arithmetic,
    numeric literals, min/max, the cast.  [SAny]: variables, array cells, attributes.
    [SPtr]: the two allocation forms. *)
Inductive sort : Type := SBool | SNum | SAny | SPtr.

Definition sort_of (e : expr) : sort :=
  match e with
  | Equal _ _ | NotEqual _ _ | GreaterThan _ _ | LessThan _ _ | GreaterThanOrEqual _ _
  | LessThanOrEqual _ _ | And _ _ | Or _ _ | BooleanLiteral _ => SBool
  | Add _ _ | Subtract _ _ | Multiply _ _ | IntegerLiteral _ | FloatLiteral _ | Max _ _ | Min _ _
  | BooleanToInteger _ => SNum
  | Var _ | AttributeAccess _ _ | ArrayIndex _ _ => SAny
  | ArrayAllocate _ _ | ArrayReallocate _ _ _ => SPtr
  end.

Definition numeric (e : expr) : bool :=
  match sort_of e with SNum | SAny => true | _ => false end.
Definition boolean (e : expr) : bool :=
  match sort_of e with SBool | SAny => true | _ => false end.

(** Well-typedness, as far as the syntax shows it: arithmetic, comparisons, min/max and allocation
    sizes take numbers; && || and the cast take booleans; the target of [->] and [[]] is an
    Assignable (that is the declared field type in ir/ast.py). *)
Fixpoint wt_expr (e : expr) : bool :=
  match e with
  | Var _ | IntegerLiteral _ | FloatLiteral _ | BooleanLiteral _ => true
  | AttributeAccess t _ => is_Assignable t && wt_expr t
  | ArrayIndex t i => is_Assignable t && wt_expr t && numeric i && wt_expr i
  | Add l r | Subtract l r | Multiply l r
  | Equal l r | NotEqual l r | GreaterThan l r | LessThan l r | GreaterThanOrEqual l r
  | LessThanOrEqual l r | Max l r | Min l r =>
      numeric l && numeric r && wt_expr l && wt_expr r
  | And l r | Or l r => boolean l && boolean r && wt_expr l && wt_expr r
  | BooleanToInteger x => boolean x && wt_expr x
  | ArrayAllocate _ n => numeric n && wt_expr n
  | ArrayReallocate old _ n => is_Assignable old && wt_expr old && numeric n && wt_expr n
  end.

(** the element type of an allocation is one of the typedef names (int32_t and double in practice:
    spec/IRSem.v::elt_is_float rejects everything else) *)
Definition is_base (t : ty) : bool := match base_name t with Some _ => true | None => false end.

(** The minimal syntactic condition under which the printed text parses to [embed (rotate e)]:
    no operand printed without parentheses binds looser than its position allows. *)
Definition loose (e : expr) : bool := level_of e <? LAdd.

Fixpoint prec_ok (e : expr) : bool :=
  match e with
  | Var _ | IntegerLiteral _ | FloatLiteral _ | BooleanLiteral _ => true
  | AttributeAccess t _ => (LPostfix <=? level_of t) && prec_ok t
  | ArrayIndex t i => (LPostfix <=? level_of t) && prec_ok t && prec_ok i
  | Add l r | Subtract l r | Multiply l r => negb (loose l) && negb (loose r) && prec_ok l && prec_ok r
  | Equal l r | NotEqual l r =>
      (LEq <=? level_of l) && (LRel <=? level_of r) && prec_ok l && prec_ok r
  | GreaterThan l r | LessThan l r | GreaterThanOrEqual l r | LessThanOrEqual l r =>
      (LRel <=? level_of l) && (LAdd <=? level_of r) && prec_ok l && prec_ok r
  | And l r | Or l r | Max l r | Min l r => prec_ok l && prec_ok r
  | BooleanToInteger x => prec_ok x
  | ArrayAllocate t n => is_base t && negb (loose n) && negb (is_Multiply n) && prec_ok n
  | ArrayReallocate old t n =>
      is_base t && prec_ok old && negb (loose n) && negb (is_Multiply n) && prec_ok n
  end.

(** [malloc(sizeof(T) * a * b)] parses as [(sizeof(T) * a) * b], a tree with no IR counterpart;
    tensora never emits a product as an allocation size (sizes are variables or [n + 1]).  The
    element type is a typedef name. *)
Fixpoint alloc_ok (e : expr) : bool :=
  match e with
  | Var _ | IntegerLiteral _ | FloatLiteral _ | BooleanLiteral _ => true
  | AttributeAccess t _ | BooleanToInteger t => alloc_ok t
  | ArrayIndex l r | Add l r | Subtract l r | Multiply l r
  | Equal l r | NotEqual l r | GreaterThan l r | LessThan l r | GreaterThanOrEqual l r
  | LessThanOrEqual l r | Max l r | Min l r | And l r | Or l r => alloc_ok l && alloc_ok r
  | ArrayAllocate t n => is_base t && negb (is_Multiply n) && alloc_ok n
  | ArrayReallocate old t n => is_base t && alloc_ok old && negb (is_Multiply n) && alloc_ok n
  end.

Definition stmt_ok (s : stmt) : bool :=
  match s with
  | Assignment t v => is_Assignable t && prec_ok t && prec_ok v
  | DeclarationAssignment (Declaration (Var _) _) v => prec_ok v
  | Declaration (Var _) _ => true
  | Return v => prec_ok v
  | SExpr e => prec_ok e
  | _ => false
  end.

(** trees without the K-C06-1 patterns: no right operand of + * && || in the same chain class *)
Fixpoint no_right_nested (e : expr) : bool :=
  match e with
  | Var _ | IntegerLiteral _ | FloatLiteral _ | BooleanLiteral _ => true
  | AttributeAccess t _ | BooleanToInteger t => no_right_nested t
  | Add l r => negb (is_Add r || is_Subtract r) && no_right_nested l && no_right_nested r
  | Multiply l r => negb (is_Multiply r) && no_right_nested l && no_right_nested r
  | And l r => negb (is_And r) && no_right_nested l && no_right_nested r
  | Or l r => negb (is_Or r) && no_right_nested l && no_right_nested r
  | ArrayIndex l r | Subtract l r
  | Equal l r | NotEqual l r | GreaterThan l r | LessThan l r | GreaterThanOrEqual l r
  | LessThanOrEqual l r | Max l r | Min l r => no_right_nested l && no_right_nested r
  | ArrayAllocate _ n => no_right_nested n
  | ArrayReallocate old _ n => no_right_nested old && no_right_nested n
  end.

(** * Exact arithmetic: the meaning of an expression in the commutative ring Z (no rounding, no
      overflow).  + - * are the ring operations; comparisons, min/max, && || (booleans as 0/1: min and
      max) have their integer meaning; everything else (variables, float constants, memory,
      attributes, allocation) is an uninterpreted but compositional function, so that the statement
      covers every tree. *)
Record zinterp : Type := mkZinterp {
  zi_var : string -> Z;
  zi_float : F -> Z;
  zi_attr : Z -> string -> Z;
  zi_index : Z -> Z -> Z;
  zi_alloc : ty -> Z -> Z;
  zi_realloc : Z -> ty -> Z -> Z
}.

Definition b2z (b : bool) : Z := if b then 1%Z else 0%Z.

Fixpoint denoteZ (I : zinterp) (e : expr) : Z :=
  match e with
  | Var x => zi_var I x
  | AttributeAccess t a => zi_attr I (denoteZ I t) a
  | ArrayIndex t i => zi_index I (denoteZ I t) (denoteZ I i)
  | IntegerLiteral z => z
  | FloatLiteral f => zi_float I f
  | BooleanLiteral b => b2z b
  | Add l r => (denoteZ I l + denoteZ I r)%Z
  | Subtract l r => (denoteZ I l - denoteZ I r)%Z
  | Multiply l r => (denoteZ I l * denoteZ I r)%Z
  | Equal l r => b2z (denoteZ I l =? denoteZ I r)%Z
  | NotEqual l r => b2z (negb (denoteZ I l =? denoteZ I r)%Z)
  | GreaterThan l r => b2z (denoteZ I l >? denoteZ I r)%Z
  | LessThan l r => b2z (denoteZ I l <? denoteZ I r)%Z
  | GreaterThanOrEqual l r => b2z (denoteZ I l >=? denoteZ I r)%Z
  | LessThanOrEqual l r => b2z (denoteZ I l <=? denoteZ I r)%Z
  | And l r => Z.min (denoteZ I l) (denoteZ I r)
  | Or l r => Z.max (denoteZ I l) (denoteZ I r)
  | Max l r => Z.max (denoteZ I l) (denoteZ I r)
  | Min l r => Z.min (denoteZ I l) (denoteZ I r)
  | BooleanToInteger x => denoteZ I x
  | ArrayAllocate t n => zi_alloc I t (denoteZ I n)
  | ArrayReallocate old t n => zi_realloc I (denoteZ I old) t (denoteZ I n)
  end.
