(** Hand model of src/tensora/problem.py (Problem, make_problem) and of the kernel cache of
    src/tensora/compile/_porcelain.py (cachable_tensor_method = lru_cache keyed by
    (Problem, BackendCompiler)).  No proofs in this file. *)

From Coq Require Import String List ZArith Bool Arith.
From TV Require Import model.ExprAst.
Import ListNotations.

(* ------------------------------------------------------------------------------------------ *)
(** * Formats *)

Inductive mode : Type := Dense | Compressed.

Definition mode_eqb (a b : mode) : bool :=
  match a, b with Dense, Dense => true | Compressed, Compressed => true | _, _ => false end.

Fixpoint modes_eqb (a b : list mode) : bool :=
  match a, b with
  | [], [] => true
  | x :: a', y :: b' => mode_eqb x y && modes_eqb a' b'
  | _, _ => false
  end.

Fixpoint nats_eqb (a b : list nat) : bool :=
  match a, b with
  | [], [] => true
  | x :: a', y :: b' => Nat.eqb x y && nats_eqb a' b'
  | _, _ => false
  end.

Record format : Type := Format { f_modes : list mode; f_ordering : list nat }.

Definition f_order (f : format) : nat := length (f_modes f).

Definition format_eqb (a b : format) : bool :=
  modes_eqb (f_modes a) (f_modes b) && nats_eqb (f_ordering a) (f_ordering b).

(** [Format(tuple([Mode.dense] * order), tuple(range(order)))] *)
Definition dense_format (order : nat) : format := Format (repeat Dense order) (seq 0 order).

(* ------------------------------------------------------------------------------------------ *)
(** * Problem *)

Record problem : Type := Problem { p_assignment : assignment; p_formats : list (string * format) }.

(** [Problem.__post_init__]: every variable of the assignment has a format of its order.
    Names in [formats] that the assignment does not mention are allowed here. *)
Fixpoint post_init_loop (vo : list (string * nat)) (formats : list (string * format))
  : result unit :=
  match vo with
  | [] => Ok tt
  | (name, order) :: rest =>
      match aget name formats with
      | None => Error (EUndefinedReference name)
      | Some f =>
          if Nat.eqb order (f_order f) then post_init_loop rest formats
          else Error (EIncorrectDimensions name)
      end
  end.

Definition problem_post_init (a : assignment) (formats : list (string * format)) : result unit :=
  post_init_loop (variable_orders a) formats.

(** [Problem(assignment, formats)] *)
Definition problem_ctor (a : assignment) (formats : list (string * format)) : result problem :=
  match problem_post_init a formats with
  | Ok _ => Ok (Problem a formats)
  | Error e => Error e
  end.

(** [make_problem]: refuse unused names, reorder by appearance, fill dense defaults, construct. *)
Fixpoint first_unused (names : list string) (vo : list (string * nat)) : option string :=
  match names with
  | [] => None
  | n :: t => if amem n vo then first_unused t vo else Some n
  end.

Definition fill_formats (vo : list (string * nat)) (formats : list (string * format))
  : list (string * format) :=
  map (fun no => (fst no,
                  match aget (fst no) formats with
                  | Some f => f
                  | None => dense_format (snd no)
                  end)) vo.

Definition make_problem (a : assignment) (formats : list (string * format)) : result problem :=
  match first_unused (akeys formats) (variable_orders a) with
  | Some n => Error (EUnusedFormat n)
  | None => problem_ctor a (fill_formats (variable_orders a) formats)
  end.

(* ------------------------------------------------------------------------------------------ *)
(** * [Problem.__eq__] and [Problem.__hash__] *)

Fixpoint items_eqb (a b : list (string * format)) : bool :=
  match a, b with
  | [], [] => true
  | (k, f) :: a', (k', f') :: b' => String.eqb k k' && format_eqb f f' && items_eqb a' b'
  | _, _ => false
  end.

(** [self.assignment == other.assignment and tuple(self.formats.items()) == tuple(other.formats.items())] *)
Definition problem_eqb (p q : problem) : bool :=
  assignment_eqb (p_assignment p) (p_assignment q) && items_eqb (p_formats p) (p_formats q).

(** the tuple handed to [hash]: [(self.assignment, tuple(self.formats.items()))] *)
Definition hash_key (p : problem) : assignment * list (string * format) :=
  (p_assignment p, p_formats p).

(* ------------------------------------------------------------------------------------------ *)
(** * The kernel cache: [@lru_cache def cachable_tensor_method(problem, backend)] *)

Inductive backend : Type := LLVM | CFFI.

Definition backend_eqb (a b : backend) : bool :=
  match a, b with LLVM, LLVM => true | CFFI, CFFI => true | _, _ => false end.

Section Cache.
  (** What compiling a problem yields (the behaviour of the kernel); a function of the request. *)
  Variable compiled : Type.
  Variable compile : problem -> backend -> compiled.

  (** A TensorMethod object: its identity (a serial number, fresh for every construction) and
      the kernel it holds. *)
  Record tmethod : Type := TMethod { tm_serial : nat; tm_kernel : compiled }.

  Definition key : Type := (problem * backend)%type.

  (** dict lookup: equal hash (implied, see [hash_compatible]) and [__eq__] *)
  Definition key_eqb (a b : key) : bool :=
    problem_eqb (fst a) (fst b) && backend_eqb (snd a) (snd b).

  (** most recently used first *)
  Definition cache : Type := list (key * tmethod).

  Fixpoint cache_find (k : key) (c : cache) : option (key * tmethod) :=
    match c with
    | [] => None
    | (k', m) :: t => if key_eqb k k' then Some (k', m) else cache_find k t
    end.

  Fixpoint cache_remove (k : key) (c : cache) : cache :=
    match c with
    | [] => []
    | (k', m) :: t => if key_eqb k k' then t else (k', m) :: cache_remove k t
    end.

  Record cstate : Type := CState { cs_cache : cache; cs_next : nat }.

  (** One call of [cachable_tensor_method] with an lru cache of [maxsize] entries
      ([maxsize = 128] in the code; [cache_clear] is [cs_cache := []]). *)
  Definition request (maxsize : nat) (k : key) (s : cstate) : tmethod * cstate :=
    match cache_find k (cs_cache s) with
    | Some (k', m) => (m, CState ((k', m) :: cache_remove k (cs_cache s)) (cs_next s))
    | None =>
        let m := TMethod (cs_next s) (compile (fst k) (snd k)) in
        (m, CState (firstn maxsize ((k, m) :: cs_cache s)) (S (cs_next s)))
    end.

  Inductive op : Type := Request (k : key) | CacheClear.

  (** A history of operations; returns the TensorMethod handed out by each [Request]. *)
  Fixpoint run (maxsize : nat) (ops : list op) (s : cstate) : list (key * tmethod) :=
    match ops with
    | [] => []
    | Request k :: t =>
        let '(m, s') := request maxsize k s in (k, m) :: run maxsize t s'
    | CacheClear :: t => run maxsize t (CState [] (cs_next s))
    end.

  Definition empty_state : cstate := CState [] 0.
End Cache.
