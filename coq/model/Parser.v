(** C12 -- hand model of tensora's assignment parser and printer.

    Models  src/tensora/expression/_parser.py  (parsita grammar + parse_assignment),
            src/tensora/expression/ast.py      (Assignment.__post_init__, the deparse methods).

    Layers
      - characters -> tokens   [lex]            (the regular expressions of the grammar; blanks = spaces)
      - tokens -> tree         [parse_tokens]   (recursive descent with parsita's backtracking:
                                                 a repetition whose separator matches but whose operand
                                                 does not, stops *before* the separator)
      - validation             [validate]       (Assignment.__post_init__, run on the longest prefix
                                                 that is an assignment, BEFORE end-of-input is checked:
                                                 parsita applies the conversion inside [assignment])
      - tree -> tokens / text  [deparse], [print_assignment]

    Literals: an integer token carries its value (N); a float token carries the exact decimal value
    of its spelling, normalised ([Dec m e] = m * 10^e, m without trailing zeros).  Python's rounding
    of that decimal to binary64 and [str(float)] are NOT modelled (literal codec, see design.d/C12.md).

    Explicit fuel; running out of fuel is the distinct result [OutOfFuel]/[PFuel].
    No proofs in this file (only decidable-equality definitions used for computing). *)

From Coq Require Import String Ascii List NArith ZArith Bool Arith.
Import ListNotations.

(* ------------------------------------------------------------------------------------------ *)
(** * Syntax trees *)

Record dec : Type := Dec { dmant : N; dexp : Z }.

Inductive expr : Type :=
  | EInt (n : N)
  | EFloat (f : dec)
  | ETensor (name : string) (indexes : list string)
  | EAdd (l r : expr)
  | ESub (l r : expr)
  | EMul (l r : expr).

Record assignment : Type := Assign { tname : string; tindexes : list string; rhs : expr }.

(* ------------------------------------------------------------------------------------------ *)
(** * Tokens *)

Inductive token : Type :=
  | TName (s : string)
  | TInt (n : N)
  | TFloat (f : dec)
  | TLP | TRP | TComma | TEq | TPlus | TMinus | TStar
  | TBad.   (* a character no terminal of the grammar can consume *)

Definition dec_eq_dec (a b : dec) : {a = b} + {a <> b}.
Proof. decide equality; [apply Z.eq_dec | apply N.eq_dec]. Defined.

Definition token_eq_dec (a b : token) : {a = b} + {a <> b}.
Proof. decide equality; [apply string_dec | apply N.eq_dec | apply dec_eq_dec]. Defined.

Definition expr_eq_dec (a b : expr) : {a = b} + {a <> b}.
Proof.
  decide equality;
    [apply N.eq_dec | apply dec_eq_dec | apply (list_eq_dec string_dec) | apply string_dec].
Defined.

Definition assignment_eq_dec (a b : assignment) : {a = b} + {a <> b}.
Proof.
  decide equality; [apply expr_eq_dec | apply (list_eq_dec string_dec) | apply string_dec].
Defined.

(* ------------------------------------------------------------------------------------------ *)
(** * Character classes *)

Definition ascii_between (lo hi c : ascii) : bool :=
  (N_of_ascii lo <=? N_of_ascii c)%N && (N_of_ascii c <=? N_of_ascii hi)%N.

Definition is_digit (c : ascii) : bool := ascii_between "0" "9" c.
Definition is_alpha (c : ascii) : bool := ascii_between "a" "z" c || ascii_between "A" "Z" c.
Definition is_alnum (c : ascii) : bool := is_alpha c || is_digit c.
Definition is_e (c : ascii) : bool := Ascii.eqb c "e" || Ascii.eqb c "E".

Definition digit_val (c : ascii) : N := (N_of_ascii c - 48)%N.

(** value of a run of decimal digits, most significant first *)
Definition digits_val (ds : list ascii) : N :=
  fold_left (fun acc c => (10 * acc + digit_val c)%N) ds 0%N.

Fixpoint take_while (p : ascii -> bool) (s : list ascii) : list ascii * list ascii :=
  match s with
  | c :: r => if p c then let (a, b) := take_while p r in (c :: a, b) else ([], s)
  | [] => ([], [])
  end.

(* ------------------------------------------------------------------------------------------ *)
(** * Decimal values of float spellings *)

(** strip trailing zeros of the mantissa; fuel = binary size of the mantissa *)
Fixpoint strip_zeros (fuel : nat) (m : N) (e : Z) : dec :=
  match fuel with
  | O => Dec m e
  | S fuel' =>
      if (m =? 0)%N then Dec 0 0
      else if (m mod 10 =? 0)%N then strip_zeros fuel' (m / 10)%N (e + 1)%Z
      else Dec m e
  end.

Definition mkdec (m : N) (e : Z) : dec := strip_zeros (S (N.size_nat m)) m e.

(* ------------------------------------------------------------------------------------------ *)
(** * Lexer *)

(** optional exponent part  [Ee][+-]?[0-9]+  at the head of [r] *)
Definition lex_exponent (r : list ascii) : option (Z * list ascii) :=
  match r with
  | c :: r1 =>
      if is_e c then
        let '(neg, r2) :=
          match r1 with
          | "+"%char :: r2 => (false, r2)
          | "-"%char :: r2 => (true, r2)
          | _ => (false, r1)
          end in
        let (ep, r3) := take_while is_digit r2 in
        match ep with
        | [] => None
        | _ => Some (if neg then (- Z.of_N (digits_val ep))%Z else Z.of_N (digits_val ep), r3)
        end
      else None
  | [] => None
  end.

(** [number = floating_point | integer] (longest match) at a position that starts with a digit.
    floating_point = \d+((\.\d+([Ee][+-]?\d+)?)|((\.\d+)?[Ee][+-]?\d+)) *)
Definition lex_number (s : list ascii) : token * list ascii :=
  let (ip, r0) := take_while is_digit s in
  let frac :=
    match r0 with
    | "."%char :: r1 =>
        let (fp, r2) := take_while is_digit r1 in
        match fp with [] => None | _ => Some (fp, r2) end
    | _ => None
    end in
  match frac with
  | Some (fp, r2) =>
      let m := digits_val (ip ++ fp) in
      let sh := Z.of_nat (length fp) in
      match lex_exponent r2 with
      | Some (e, r3) => (TFloat (mkdec m (e - sh)%Z), r3)
      | None => (TFloat (mkdec m (- sh)%Z), r2)
      end
  | None =>
      match lex_exponent r0 with
      | Some (e, r3) => (TFloat (mkdec (digits_val ip) e), r3)
      | None => (TInt (digits_val ip), r0)
      end
  end.

Definition punct (c : ascii) : token :=
  if Ascii.eqb c "(" then TLP else
  if Ascii.eqb c ")" then TRP else
  if Ascii.eqb c "," then TComma else
  if Ascii.eqb c "=" then TEq else
  if Ascii.eqb c "+" then TPlus else
  if Ascii.eqb c "-" then TMinus else
  if Ascii.eqb c "*" then TStar else TBad.

Definition cons_tok (t : token) (o : option (list token)) : option (list token) :=
  match o with Some l => Some (t :: l) | None => None end.

(** [None] = out of fuel (never happens with fuel >= length, see proofs/ParserLex.v) *)
Fixpoint lex_fuel (n : nat) (s : list ascii) : option (list token) :=
  match s with
  | [] => Some []
  | c :: r =>
      match n with
      | O => None
      | S n' =>
          if Ascii.eqb c " " then lex_fuel n' r
          else if is_alpha c then
            let (nm, r') := take_while is_alnum s in
            cons_tok (TName (string_of_list_ascii nm)) (lex_fuel n' r')
          else if is_digit c then
            let (t, r') := lex_number s in cons_tok t (lex_fuel n' r')
          else cons_tok (punct c) (lex_fuel n' r)
      end
  end.

Definition lex (s : string) : option (list token) :=
  let l := list_ascii_of_string s in lex_fuel (length l) l.

(* ------------------------------------------------------------------------------------------ *)
(** * Recursive-descent parser on tokens *)

Inductive res (A : Type) : Type :=
  | Ok (a : A)
  | NoParse
  | OutOfFuel.
Arguments Ok {A} a.
Arguments NoParse {A}.
Arguments OutOfFuel {A}.

Definition bind {A B} (r : res (A * list token)) (f : A -> list token -> res B) : res B :=
  match r with
  | Ok (a, ts) => f a ts
  | NoParse => NoParse
  | OutOfFuel => OutOfFuel
  end.

(** repsep(name, ","): never fails; a trailing "," is not consumed *)
Fixpoint p_names_tail (ts : list token) : list string * list token :=
  match ts with
  | TComma :: TName x :: r => let (xs, r') := p_names_tail r in (x :: xs, r')
  | _ => ([], ts)
  end.

Definition p_names (ts : list token) : list string * list token :=
  match ts with
  | TName x :: r => let (xs, r') := p_names_tail r in (x :: xs, r')
  | _ => ([], ts)
  end.

(** tensor = name "(" repsep(name, ",") ")" *)
Definition p_tensor (ts : list token) : res ((string * list string) * list token) :=
  match ts with
  | TName x :: TLP :: r =>
      match p_names r with
      | (idx, TRP :: r') => Ok ((x, idx), r')
      | _ => NoParse
      end
  | _ => NoParse
  end.

Definition expect_rp (e : expr) (ts : list token) : res (expr * list token) :=
  match ts with
  | TRP :: r => Ok (e, r)
  | _ => NoParse
  end.

(** factor = tensor | number | "(" expression ")"
    term   = rep1sep(factor, "*")           folded left   -> p_factor ; term_loop
    expression = term (("+"|"-") term)*    folded left   -> p_term ; expr_loop *)
Fixpoint p_factor (n : nat) (ts : list token) {struct n} : res (expr * list token) :=
  match n with
  | O => OutOfFuel
  | S n' =>
      match ts with
      | TName _ :: _ =>
          match p_tensor ts with
          | Ok ((x, idx), r) => Ok (ETensor x idx, r)
          | _ => NoParse
          end
      | TInt k :: r => Ok (EInt k, r)
      | TFloat f :: r => Ok (EFloat f, r)
      | TLP :: r =>
          bind (bind (bind (p_factor n' r) (term_loop n')) (expr_loop n')) expect_rp
      | _ => NoParse
      end
  end
with term_loop (n : nat) (acc : expr) (ts : list token) {struct n} : res (expr * list token) :=
  match n with
  | O => OutOfFuel
  | S n' =>
      match ts with
      | TStar :: r =>
          match p_factor n' r with
          | Ok (f, r1) => term_loop n' (EMul acc f) r1
          | NoParse => Ok (acc, ts)
          | OutOfFuel => OutOfFuel
          end
      | _ => Ok (acc, ts)
      end
  end
with expr_loop (n : nat) (acc : expr) (ts : list token) {struct n} : res (expr * list token) :=
  match n with
  | O => OutOfFuel
  | S n' =>
      match ts with
      | TPlus :: r =>
          match bind (p_factor n' r) (term_loop n') with
          | Ok (t, r1) => expr_loop n' (EAdd acc t) r1
          | NoParse => Ok (acc, ts)
          | OutOfFuel => OutOfFuel
          end
      | TMinus :: r =>
          match bind (p_factor n' r) (term_loop n') with
          | Ok (t, r1) => expr_loop n' (ESub acc t) r1
          | NoParse => Ok (acc, ts)
          | OutOfFuel => OutOfFuel
          end
      | _ => Ok (acc, ts)
      end
  end.

Definition p_term (n : nat) (ts : list token) : res (expr * list token) :=
  bind (p_factor n ts) (term_loop n).

Definition p_expr (n : nat) (ts : list token) : res (expr * list token) :=
  bind (p_term n ts) (expr_loop n).

(* ------------------------------------------------------------------------------------------ *)
(** * Assignment.__post_init__ *)

Inductive vres : Type := VOk | VMutating | VInconsistent | VNameConflict.

(** every tensor reference of an expression, left to right (= Expression.variables() flattened) *)
Fixpoint tensors (e : expr) : list (string * list string) :=
  match e with
  | EInt _ | EFloat _ => []
  | ETensor x idx => [(x, idx)]
  | EAdd l r | ESub l r | EMul l r => tensors l ++ tensors r
  end.

Definition mem_str (x : string) (l : list string) : bool := existsb (String.eqb x) l.

(** keys of the variables() dict: distinct names in order of first appearance *)
Fixpoint first_names (seen : list string) (occ : list (string * list string)) : list string :=
  match occ with
  | [] => []
  | (x, _) :: t => if mem_str x seen then first_names seen t else x :: first_names (x :: seen) t
  end.

Definition orders_of (x : string) (occ : list (string * list string)) : list nat :=
  map (fun p => length (snd p)) (filter (fun p => String.eqb (fst p) x) occ).

Definition all_same_order (os : list nat) : bool :=
  match os with
  | [] => true
  | o :: rest => forallb (Nat.eqb o) rest
  end.

(** the loop `for name, variables in variables_mapping.items()` *)
Fixpoint check_vars (target : string) (names : list string) (occ : list (string * list string)) : vres :=
  match names with
  | [] => VOk
  | x :: rest =>
      if String.eqb x target then VMutating
      else if all_same_order (orders_of x occ) then check_vars target rest occ
      else VInconsistent
  end.

Definition validate (a : assignment) : vres :=
  let occ := tensors (rhs a) in
  let names := first_names [] occ in
  match check_vars (tname a) names occ with
  | VOk =>
      let index_names := tindexes a ++ flat_map snd occ in
      let tensor_names := tname a :: names in
      if existsb (fun i => mem_str i tensor_names) index_names then VNameConflict else VOk
  | err => err
  end.

(* ------------------------------------------------------------------------------------------ *)
(** * parse_assignment at token level *)

Inductive pres : Type :=
  | POk (a : assignment)
  | PSyntax            (* parsita ParseError *)
  | PMutating          (* MutatingAssignmentError *)
  | PInconsistent      (* InconsistentDimensionsError *)
  | PNameConflict      (* NameConflictError *)
  | PFuel.             (* model ran out of fuel; excluded by C12_parse_fuel_sufficient *)

Definition pres_eq_dec (a b : pres) : {a = b} + {a <> b}.
Proof. decide equality; apply assignment_eq_dec. Defined.

(** assignment = tensor "=" expression > Assignment   then end of input *)
Definition parse_tokens_fuel (n : nat) (ts : list token) : pres :=
  match p_tensor ts with
  | Ok ((x, idx), TEq :: r) =>
      match p_expr n r with
      | Ok (e, r') =>
          let a := Assign x idx e in
          match validate a with
          | VOk => match r' with [] => POk a | _ => PSyntax end
          | VMutating => PMutating
          | VInconsistent => PInconsistent
          | VNameConflict => PNameConflict
          end
      | NoParse => PSyntax
      | OutOfFuel => PFuel
      end
  | _ => PSyntax
  end.

Definition parse_tokens (ts : list token) : pres := parse_tokens_fuel (S (length ts)) ts.

Definition parse_assignment (s : string) : pres :=
  match lex s with
  | Some ts => parse_tokens ts
  | None => PFuel
  end.

(* ------------------------------------------------------------------------------------------ *)
(** * deparse: tree -> tokens (the parenthesisation of Add/Subtract/Multiply.deparse) *)

Definition is_addsub (e : expr) : bool :=
  match e with EAdd _ _ | ESub _ _ => true | _ => false end.
Definition is_mul (e : expr) : bool :=
  match e with EMul _ _ => true | _ => false end.

Definition wrap (b : bool) (ts : list token) : list token :=
  if b then TLP :: ts ++ [TRP] else ts.

Fixpoint sep_names (l : list string) : list token :=
  match l with
  | [] => []
  | [x] => [TName x]
  | x :: t => TName x :: TComma :: sep_names t
  end.

Definition tensor_toks (x : string) (idx : list string) : list token :=
  TName x :: TLP :: sep_names idx ++ [TRP].

Fixpoint toks (e : expr) : list token :=
  match e with
  | EInt n => [TInt n]
  | EFloat f => [TFloat f]
  | ETensor x idx => tensor_toks x idx
  | EAdd l r => toks l ++ TPlus :: wrap (is_addsub r) (toks r)
  | ESub l r => toks l ++ TMinus :: wrap (is_addsub r) (toks r)
  | EMul l r => wrap (is_addsub l) (toks l) ++ TStar :: wrap (is_addsub r || is_mul r) (toks r)
  end.

Definition deparse (a : assignment) : list token :=
  tensor_toks (tname a) (tindexes a) ++ TEq :: toks (rhs a).

(* ------------------------------------------------------------------------------------------ *)
(** * deparse at character level (integers spelled by [show_N]; floats by a codec parameter) *)

Definition digit_char (d : N) : ascii := ascii_of_N (48 + d).

(** decimal spelling of a natural number = Python's str(int) for int >= 0 *)
Fixpoint show_N_fuel (fuel : nat) (n : N) : list ascii :=
  match fuel with
  | O => []
  | S fuel' =>
      if (n <? 10)%N then [digit_char n]
      else show_N_fuel fuel' (n / 10)%N ++ [digit_char (n mod 10)%N]
  end.

Definition show_N (n : N) : list ascii := show_N_fuel (S (N.size_nat n)) n.

Fixpoint join_names (l : list string) : list ascii :=
  match l with
  | [] => []
  | [x] => list_ascii_of_string x
  | x :: t => list_ascii_of_string x ++ ","%char :: join_names t
  end.

Definition print_tensor (x : string) (idx : list string) : list ascii :=
  list_ascii_of_string x ++ "("%char :: join_names idx ++ [")"%char].

Definition wrap_chars (b : bool) (s : list ascii) : list ascii :=
  if b then "("%char :: s ++ [")"%char] else s.

Section Print.
  Variable show_float : dec -> list ascii.   (* Python's str(float): not modelled *)

  Fixpoint print_expr (e : expr) : list ascii :=
    match e with
    | EInt n => show_N n
    | EFloat f => show_float f
    | ETensor x idx => print_tensor x idx
    | EAdd l r =>
        print_expr l ++ list_ascii_of_string " + " ++ wrap_chars (is_addsub r) (print_expr r)
    | ESub l r =>
        print_expr l ++ list_ascii_of_string " - " ++ wrap_chars (is_addsub r) (print_expr r)
    | EMul l r =>
        wrap_chars (is_addsub l) (print_expr l) ++ list_ascii_of_string " * "
          ++ wrap_chars (is_addsub r || is_mul r) (print_expr r)
    end.

  Definition print_assignment (a : assignment) : list ascii :=
    print_tensor (tname a) (tindexes a) ++ list_ascii_of_string " = " ++ print_expr (rhs a).
End Print.

(** a float-free tree prints without the codec *)
Fixpoint float_free (e : expr) : bool :=
  match e with
  | EInt _ | ETensor _ _ => true
  | EFloat _ => false
  | EAdd l r | ESub l r | EMul l r => float_free l && float_free r
  end.

(** canonical exponent spelling  <mantissa>e<exponent>  (a member of the float regex), used only
    to run the character-level printer in the correspondence when a tree contains floats *)
Definition show_dec_canonical (f : dec) : list ascii :=
  show_N (dmant f) ++ "e"%char ::
    (if (dexp f <? 0)%Z then "-"%char :: show_N (Z.to_N (- dexp f)) else show_N (Z.to_N (dexp f))).

(* ------------------------------------------------------------------------------------------ *)
(** * boolean helpers for the correspondence files *)

Definition pres_eqb (a b : pres) : bool := if pres_eq_dec a b then true else false.
Definition tokens_eqb (a b : list token) : bool := if list_eq_dec token_eq_dec a b then true else false.
Definition otokens_eqb (a : option (list token)) (b : list token) : bool :=
  match a with Some l => tokens_eqb l b | None => false end.

(** indexes (from 0) of the [false] entries *)
Fixpoint failing_from (i : nat) (l : list bool) : list nat :=
  match l with
  | [] => []
  | b :: t => if b then failing_from (S i) t else i :: failing_from (S i) t
  end.
Definition failing (l : list bool) : list nat := failing_from 0 l.
