(** * Glue: specifications of the small functions between the desugared assignment and the kernel
    generator (TIE target "glue"; design.d/TIE_glue.md).

    These are SPECIFICATIONS written for readability; the functions regenerated from the source
    (coq/gen/GlueGen.v) are proved equal to them for all inputs in proofs/GenGlue_equiv.v.

      /repo/src/tensora/desugar/_to_identifiable.py     [level_index], [output_description]
      /repo/src/tensora/desugar/_index_dimensions.py    [index_dims]
      /repo/src/tensora/desugar/_best_algorithm.py      model/Graphs.v [best_of] (existing)
      /repo/src/tensora/kernel_type.py                  model/OutputOrder.v [is_assemble]/[is_compute] (existing)

    No proofs in this file. *)
From Coq Require Import List String Bool Arith ZArith.
From TV Require Import model.Graphs.
Import ListNotations.
Open Scope list_scope.

(** ** to_identifiable: which index variable each output LEVEL gets.
    Level [l] of a tensor stored with mode ordering [ordering] holds dimension [ordering[l]], so it is
    iterated by the index written at position [ordering[l]]: [indexes[ordering[l]]]
    (NOT the inverse permutation [indexes[position of l in ordering]]). *)
Definition level_index (indexes : list string) (ordering : list nat) (l : nat) : option string :=
  match nth_error ordering l with
  | Some d => nth_error indexes d
  | None => None
  end.

(** what the abstract kernel model (model/Kernel.v [kcfg]: k_oidx, k_omodes, k_oord) is told about the
    output: index names in LEVEL order, modes in level order, the mode ordering *)
Record output_description := mkOD {
  od_indexes : list string;
  od_modes : list mode;
  od_ordering : list nat
}.

Definition output_description_of (t : dtensor) (fs : formats) : option output_description :=
  match lookup (d_name t) fs with
  | None => None                                                      (* KeyError *)
  | Some f =>
      match permute_indexes (d_indexes t) (f_ordering f) with
      | None => None                                                  (* IndexError *)
      | Some ivs => Some (mkOD ivs (f_modes f) (f_ordering f))
      end
  end.

(** ** index_dimensions: which tensor dimension defines the size of each index.
    An OCCURRENCE is (index name, (tensor name, position)).  The occurrences of an assignment are
    those of the TARGET first, then those of the right-hand side's tensor leaves from left to right
    (Contract nodes are transparent, literals have none).  For every index the FIRST occurrence
    decides; entries are in order of first occurrence. *)
Definition occurrence := (string * (string * nat))%type.

Fixpoint occs_from (name : string) (k : nat) (idx : list string) : list occurrence :=
  match idx with
  | [] => []
  | i :: r => (i, (name, k)) :: occs_from name (S k) r
  end.

Definition tensor_occs (t : dtensor) : list occurrence := occs_from (d_name t) 0 (d_indexes t).

Fixpoint expr_occs (e : dexpr) : list occurrence :=
  match e with
  | DTensor t => tensor_occs t
  | DAdd l r | DMultiply l r => expr_occs l ++ expr_occs r
  | DContract _ x => expr_occs x
  | _ => []
  end.

Definition assign_occs (a : dassign) : list occurrence :=
  tensor_occs (a_target a) ++ expr_occs (a_expr a).

(** first occurrence of every key, in order of first occurrence ([seen]: keys already decided) *)
Fixpoint first_wins {V} (seen : list string) (l : list (string * V)) : list (string * V) :=
  match l with
  | [] => []
  | (k, v) :: r => if mem k seen then first_wins seen r else (k, v) :: first_wins (seen ++ [k]) r
  end.

Definition index_dims_expr (e : dexpr) : list occurrence := first_wins [] (expr_occs e).
Definition index_dims (a : dassign) : list occurrence := first_wins [] (assign_occs a).

(** the size of an index as a kernel reads it: [dimensions[position]] of the deciding tensor *)
Definition dim_size (dims : string -> list Z) (td : string * nat) : option Z :=
  nth_error (dims (fst td)) (snd td).

(** an environment of tensor dimensions is CONSISTENT with index sizes [sizes] when every occurrence
    of every index has that size (what TensorMethod.__call__ validates for the inputs, and how it
    allocates the output: model/Validate.v [check_indexes] / [output_dimensions]) *)
Definition consistent (dims : string -> list Z) (sizes : string -> Z) (occs : list occurrence) : Prop :=
  forall i td, In (i, td) occs -> dim_size dims td = Some (sizes i).
