(** TIE "grammar" -- a small deep embedding of the parsita combinator language that the two
    grammars of tensora use (expression/_parser.py, format/_parser.py), with an interpreter.

    This file is the TRUSTED reading of parsita 2.x (site-packages/parsita/parsers/*.py) and of
    Python's [re.match] on the regular expressions that occur; it is guarded by the self-check
    (tools/harness/tie_gen_grammar.py: the real parsers against [parse] on generated strings).

      regular expressions   [regex], matcher [rm] in continuation-passing style = Python's
                            backtracking search: greedy repetition, ordered alternation, first
                            success in priority order ([re.match] at a position)
      terminals             [PLit], [PReg]: skip the context's whitespace, match, skip whitespace
                            (LiteralParser._consume / RegexParser._consume)
      [PSeq]                a & b & c      list of the values         (SequentialParser)
      [PDiscardL/R]         a >> b, a << b                            (DiscardLeft/RightParser)
      [PAlt]                a | b | c      LONGEST alternative: all alternatives are run (so an
                            exception in any of them propagates); the one with the farthest
                            remainder wins, the first one on a tie    (LongestAlternativeParser)
      [PRep]                rep(p)         (RepeatedParser, min = 0, no max)
      [PRepSep], [PRep1Sep] repsep / rep1sep: when the separator matches but the following
                            operand does not, the repetition ends BEFORE the separator
      [PMap]                p > f          (ConversionParser; f may raise)
      [PBind]               p >= f         with f returning success(v) or failure(msg)
                                           (TransformationParser + SuccessParser/FailureParser)
      [PRef]                a production referenced by name (also forward references)
      [parse]               p.parse(s) = (p << eof).consume, end of input required.

    Input positions are represented by the remaining suffix of the input (a position and a suffix
    determine each other for a fixed source).  parsita's memo table is semantically transparent for
    grammars without left recursion (a left-recursive grammar runs out of fuel here: [RFuel]).
    Error messages (farthest failure) are out of scope.

    Python exceptions are explicit results ([RExn] with the class name); a dynamic type error of the
    untyped value universe is the distinct result [RStuck] (outside the fragment: the theorems
    exclude it); running out of fuel is [RFuel].  No proofs in this file. *)

From Coq Require Import String Ascii List NArith ZArith Bool Arith.
Import ListNotations.

(* ------------------------------------------------------------------------------------------ *)
(** * Regular expressions *)

Inductive regex : Type :=
  | REps
  | RSet (ranges : list (ascii * ascii))     (* a positive character class / a single character *)
  | RSeq (a b : regex)
  | RAlt (a b : regex)                       (* ordered: a is tried first *)
  | RStar (a : regex).                       (* greedy; the translator refuses a nullable body *)

Definition RPlus (a : regex) : regex := RSeq a (RStar a).
Definition ROpt (a : regex) : regex := RAlt a REps.

Definition in_range (c : ascii) (r : ascii * ascii) : bool :=
  (N_of_ascii (fst r) <=? N_of_ascii c)%N && (N_of_ascii c <=? N_of_ascii (snd r))%N.

Definition in_set (ranges : list (ascii * ascii)) (c : ascii) : bool := existsb (in_range c) ranges.

Section Match.
  Context {X : Type}.
  Definition cont : Type := list ascii -> option X.

  (** greedy loop: one more iteration first, then the continuation.  An iteration that consumes
      nothing is not repeated (never happens: bodies are not nullable); the fuel [S (length s)]
      handed in by [rm] is never exhausted because every iteration consumes. *)
  Fixpoint star_loop (step : list ascii -> cont -> option X) (n : nat) (s : list ascii) (k : cont)
    : option X :=
    match n with
    | O => None
    | S n' =>
        match step s (fun s' => if length s' <? length s then star_loop step n' s' k else None) with
        | Some x => Some x
        | None => k s
        end
    end.

  Fixpoint rm (r : regex) : list ascii -> cont -> option X :=
    match r with
    | REps => fun s k => k s
    | RSet cs => fun s k => match s with c :: t => if in_set cs c then k t else None | [] => None end
    | RSeq a b => fun s k => rm a s (fun s' => rm b s' k)
    | RAlt a b => fun s k => match rm a s k with Some x => Some x | None => rm b s k end
    | RStar a => fun s k => star_loop (rm a) (S (length s)) s k
    end.
End Match.

(** [pattern.match(source, pos)]: the remainder after the match, [None] = no match *)
Definition re_match (r : regex) (s : list ascii) : option (list ascii) := rm r s (fun s' => Some s').

(** the matched text: what [s] has in front of the remainder *)
Definition consumed (s rest : list ascii) : string :=
  string_of_list_ascii (firstn (length s - length rest) s).

(* ------------------------------------------------------------------------------------------ *)
(** * Values, results *)

Section Combinators.
  Variable U : Type.     (* the objects the semantic actions build *)

  Inductive val : Type :=
    | VStr (s : string)
    | VList (l : list val)     (* a Python list or tuple (not distinguished) *)
    | VU (u : U).

  (** outcome of a semantic action ([>]) *)
  Inductive ares : Type :=
    | AOk (v : val)
    | AExn (e : string)        (* a Python exception, by class name *)
    | AStuck.                  (* dynamic type error of this embedding: outside the fragment *)

  (** outcome of a transformer ([>=]): success(v) / failure(msg) *)
  Inductive bres : Type :=
    | BSuccess (v : val)
    | BFailure
    | BExn (e : string)
    | BStuck.

  Inductive result : Type :=
    | ROk (v : val) (rest : list ascii)
    | RFail                    (* backtrack: parsita's [None] *)
    | RExn (e : string)        (* an exception propagating out of the parse *)
    | RStuck
    | RFuel.

  Inductive parser : Type :=
    | PLit (s : string)
    | PReg (r : regex)
    | PSeq (ps : list parser)
    | PDiscardL (a b : parser)
    | PDiscardR (a b : parser)
    | PAlt (ps : list parser)
    | PRep (p : parser)
    | PRepSep (p sep : parser)
    | PRep1Sep (p sep : parser)
    | PMap (p : parser) (f : val -> ares)
    | PBind (p : parser) (f : val -> bres)
    | PRef (x : string).

  Record grammar : Type := Grammar { g_ws : option regex; g_prods : list (string * parser) }.

  Definition psem : Type := list ascii -> result.

  (* ---------------------------------------------------------------------------------------- *)
  (** * Semantic combinators (one per parsita parser class) *)

  (** options.whitespace: a regex parser without whitespace of its own; "infallible" in parsita --
      a whitespace pattern that does not match makes parsita crash: [None] here *)
  Definition skip_ws (ws : option regex) (s : list ascii) : option (list ascii) :=
    match ws with
    | None => Some s
    | Some r => re_match r s
    end.

  Fixpoint strip_prefix (p s : list ascii) : option (list ascii) :=
    match p, s with
    | [], _ => Some s
    | a :: p', b :: s' => if Ascii.eqb a b then strip_prefix p' s' else None
    | _ :: _, [] => None
    end.

  Definition sem_lit (ws : option regex) (l : string) : psem := fun s =>
    match skip_ws ws s with
    | None => RStuck
    | Some s1 =>
        match strip_prefix (list_ascii_of_string l) s1 with
        | None => RFail
        | Some s2 =>
            match skip_ws ws s2 with
            | None => RStuck
            | Some s3 => ROk (VStr l) s3
            end
        end
    end.

  Definition sem_reg (ws : option regex) (r : regex) : psem := fun s =>
    match skip_ws ws s with
    | None => RStuck
    | Some s1 =>
        match re_match r s1 with
        | None => RFail
        | Some s2 =>
            match skip_ws ws s2 with
            | None => RStuck
            | Some s3 => ROk (VStr (consumed s1 s2)) s3
            end
        end
    end.

  Fixpoint sem_seq (ps : list psem) : psem := fun s =>
    match ps with
    | [] => ROk (VList []) s
    | p :: ps' =>
        match p s with
        | ROk v s1 =>
            match sem_seq ps' s1 with
            | ROk (VList l) s2 => ROk (VList (v :: l)) s2
            | ROk _ _ => RStuck
            | r => r
            end
        | r => r
        end
    end.

  Definition sem_discard_l (a b : psem) : psem := fun s =>
    match a s with
    | ROk _ s1 => b s1
    | r => r
    end.

  Definition sem_discard_r (a b : psem) : psem := fun s =>
    match a s with
    | ROk v s1 =>
        match b s1 with
        | ROk _ s2 => ROk v s2
        | r => r
        end
    | r => r
    end.

  (** LongestAlternativeParser: [best] is the longest success so far; a later success replaces it
      only when its remainder is strictly farther (= strictly shorter suffix) *)
  Fixpoint sem_alt_from (best : option (val * list ascii)) (ps : list psem) : psem := fun s =>
    match ps with
    | [] => match best with Some (v, r) => ROk v r | None => RFail end
    | p :: ps' =>
        match p s with
        | ROk v r =>
            let best' :=
              match best with
              | None => Some (v, r)
              | Some (_, r0) => if length r <? length r0 then Some (v, r) else best
              end in
            sem_alt_from best' ps' s
        | RFail => sem_alt_from best ps' s
        | e => e
        end
    end.

  Definition sem_alt (ps : list psem) : psem := sem_alt_from None ps.

  (** RepeatedParser (min = 0, max = None).  An iteration that consumes nothing raises parsita's
      own RecursionError (not Python's builtin one). *)
  Fixpoint rep_loop (p : psem) (n : nat) (s : list ascii) : result :=
    match n with
    | O => RFuel
    | S n' =>
        match p s with
        | ROk v s1 =>
            if length s1 <? length s then
              match rep_loop p n' s1 with
              | ROk (VList l) s2 => ROk (VList (v :: l)) s2
              | ROk _ _ => RStuck
              | r => r
              end
            else RExn "parsita.RecursionError"
        | RFail => ROk (VList []) s
        | r => r
        end
    end.

  Definition sem_rep (p : psem) : psem := fun s => rep_loop p (S (length s)) s.

  (** the loop of RepeatedSeparatedParser / RepeatedOnceSeparatedParser after the first operand:
      [s] is the remainder after the last operand *)
  Fixpoint sep_loop (p sep : psem) (n : nat) (s : list ascii) : result :=
    match n with
    | O => RFuel
    | S n' =>
        match sep s with
        | ROk _ s1 =>
            match p s1 with
            | ROk v s2 =>
                if length s2 <? length s then
                  match sep_loop p sep n' s2 with
                  | ROk (VList l) s3 => ROk (VList (v :: l)) s3
                  | ROk _ _ => RStuck
                  | r => r
                  end
                else RExn "parsita.RecursionError"
            | RFail => ROk (VList []) s
            | r => r
            end
        | RFail => ROk (VList []) s
        | r => r
        end
    end.

  Definition sem_rep1sep (p sep : psem) : psem := fun s =>
    match p s with
    | ROk v s1 =>
        match sep_loop p sep (S (length s1)) s1 with
        | ROk (VList l) s2 => ROk (VList (v :: l)) s2
        | ROk _ _ => RStuck
        | r => r
        end
    | r => r
    end.

  Definition sem_repsep (p sep : psem) : psem := fun s =>
    match sem_rep1sep p sep s with
    | RFail => ROk (VList []) s
    | r => r
    end.

  Definition sem_map (p : psem) (f : val -> ares) : psem := fun s =>
    match p s with
    | ROk v s1 =>
        match f v with
        | AOk v' => ROk v' s1
        | AExn e => RExn e
        | AStuck => RStuck
        end
    | r => r
    end.

  Definition sem_bind (p : psem) (f : val -> bres) : psem := fun s =>
    match p s with
    | ROk v s1 =>
        match f v with
        | BSuccess v' => ROk v' s1
        | BFailure => RFail
        | BExn e => RExn e
        | BStuck => RStuck
        end
    | r => r
    end.

  (* ---------------------------------------------------------------------------------------- *)
  (** * The interpreter *)

  Fixpoint lookup (x : string) (l : list (string * parser)) : option parser :=
    match l with
    | [] => None
    | (y, p) :: t => if String.eqb x y then Some p else lookup x t
    end.

  (** fuel = depth of nested references to productions; repetitions carry their own bound (the
      length of the remaining input) *)
  Fixpoint run (n : nat) (g : grammar) (p : parser) (s : list ascii) {struct n} : result :=
    match n with
    | O => RFuel
    | S n' =>
        (fix go (p : parser) (s : list ascii) {struct p} : result :=
           match p with
           | PLit l => sem_lit (g_ws g) l s
           | PReg r => sem_reg (g_ws g) r s
           | PSeq ps => sem_seq (map go ps) s
           | PDiscardL a b => sem_discard_l (go a) (go b) s
           | PDiscardR a b => sem_discard_r (go a) (go b) s
           | PAlt ps => sem_alt (map go ps) s
           | PRep q => sem_rep (go q) s
           | PRepSep q sep => sem_repsep (go q) (go sep) s
           | PRep1Sep q sep => sem_rep1sep (go q) (go sep) s
           | PMap q f => sem_map (go q) f s
           | PBind q f => sem_bind (go q) f s
           | PRef x =>
               match lookup x (g_prods g) with
               | Some q => run n' g q s
               | None => RStuck
               end
           end) p s
    end.

  (** p.parse(s): [(p << eof).consume] *)
  Definition parse_fuel (n : nat) (g : grammar) (start : string) (s : list ascii) : result :=
    match run n g (PRef start) s with
    | ROk v [] => ROk v []
    | ROk _ (_ :: _) => RFail
    | r => r
    end.

  (** enough fuel for every grammar whose productions consume input between two visits of the same
      production at the same position *)
  Definition default_fuel (g : grammar) (s : list ascii) : nat :=
    S (S (length (g_prods g))) * S (length s).

  Definition parse (g : grammar) (start : string) (s : string) : result :=
    let l := list_ascii_of_string s in parse_fuel (default_fuel g l) g start l.

End Combinators.

Arguments VStr {U} s.
Arguments VList {U} l.
Arguments VU {U} u.
Arguments AOk {U} v.
Arguments AExn {U} e.
Arguments AStuck {U}.
Arguments BSuccess {U} v.
Arguments BFailure {U}.
Arguments BExn {U} e.
Arguments BStuck {U}.
Arguments ROk {U} v rest.
Arguments RFail {U}.
Arguments RExn {U} e.
Arguments RStuck {U}.
Arguments RFuel {U}.
Arguments PLit {U} s.
Arguments PReg {U} r.
Arguments PSeq {U} ps.
Arguments PDiscardL {U} a b.
Arguments PDiscardR {U} a b.
Arguments PAlt {U} ps.
Arguments PRep {U} p.
Arguments PRepSep {U} p sep.
Arguments PRep1Sep {U} p sep.
Arguments PMap {U} p f.
Arguments PBind {U} p f.
Arguments PRef {U} x.
Arguments Grammar {U} g_ws g_prods.
Arguments g_ws {U} g.
Arguments g_prods {U} g.

(* ------------------------------------------------------------------------------------------ *)
(** * Evaluation of semantic actions: left-to-right lifting over [ares] *)

Section Lift.
  Context {U : Type}.

  Definition alift1 (f : val U -> ares U) (a : ares U) : ares U :=
    match a with AOk x => f x | e => e end.

  Definition alift2 (f : val U -> val U -> ares U) (a b : ares U) : ares U :=
    match a with
    | AOk x => match b with AOk y => f x y | e => e end
    | e => e
    end.

  (** f applied to the unpacked argument list *)
  Definition splat1 (f : val U -> ares U) (args : val U) : ares U :=
    match args with VList [a] => f a | VList _ => AExn "TypeError" | _ => AStuck end.
  Definition splat2 (f : val U -> val U -> ares U) (args : val U) : ares U :=
    match args with VList [a; b] => f a b | VList _ => AExn "TypeError" | _ => AStuck end.

  (** tuple(x) / list(x) of a list or tuple *)
  Definition py_tuple (x : val U) : ares U :=
    match x with VList l => AOk (VList l) | _ => AStuck end.

  (** functools.reduce(f, xs) without initial value: TypeError on an empty sequence *)
  Fixpoint afold (f : val U -> val U -> ares U) (xs : list (val U)) (acc : val U) : ares U :=
    match xs with
    | [] => AOk acc
    | x :: t => match f acc x with AOk acc' => afold f t acc' | e => e end
    end.

  Definition py_reduce_v (f : val U -> val U -> ares U) (xs : val U) : ares U :=
    match xs with
    | VList (x :: t) => afold f t x
    | VList [] => AExn "TypeError"
    | _ => AStuck
    end.

  (** for x in xs: state := body state x *)
  Definition afor (xs : val U) (body : val U -> val U -> ares U) (state : val U) : ares U :=
    match xs with
    | VList l => afold body l state
    | _ => AStuck
    end.

  (** a, b = x *)
  Definition unpack2 (x : val U) (k : val U -> val U -> ares U) : ares U :=
    match x with
    | VList [a; b] => k a b
    | VList _ => AExn "ValueError"
    | _ => AStuck
    end.

  (** xs.append(x) on a list *)
  Definition py_append (xs x : val U) : ares U :=
    match xs with VList l => AOk (VList (l ++ [x])) | _ => AStuck end.

  (** [match v: case "lit": ...]: comparison of a value with a string literal *)
  Definition is_str (v : val U) (s : string) : bool :=
    match v with VStr t => String.eqb t s | _ => false end.

  Definition bsuccess (a : ares U) : bres U :=
    match a with AOk v => BSuccess v | AExn e => BExn e | AStuck => BStuck end.
End Lift.
