(** A C lexer for the fragment tensora's C printer emits (C99 6.4: maximal munch), from characters
    to the tokens of spec/CGrammar.v.  It connects the STRINGS of the printer regenerated from
    /repo/src/tensora/codegen/_ir_to_c.py (gen/IrToC.v) with the TOKEN lists of the hand model
    model/CPrint.v: proofs/GenCPrint_equiv.v proves  [clex (printed string) = Some (cprint e)].

    - white space: space and newline;
    - identifiers / keywords: [A-Za-z_][A-Za-z0-9_]*; the keywords true false sizeof return restrict and
      the five typedef names are their own tokens;
    - pp-numbers (6.4.8): a digit followed by digits, letters, underscore, '.', and a sign directly
      after e / E.  A pp-number that is a string of decimal digits is the integer constant [TInt]
      (value by the standard library's [NilEmpty.uint_of_string]); any other pp-number is handed to
      the decoder [fdec] of floating constants, a parameter (Python's repr of a binary64 is not
      modelled: the hand model treats the spelling of a float literal as an oracle too);
    - punctuators: the 12 two-character ones are tried first; braces;
    - a // comment runs to the end of the line and leaves no token.
    Anything else (an unknown character, '.' at the start of a token, a pp-number that [fdec]
    rejects) makes the lexer fail ([None]).

    Also here: the well-formedness of names under which printed text lexes to the model's tokens
    ([ident_ok], [names_ok], [stmt_names_ok]), and the shape of a floating constant ([float_shape]).
    Definitions only; proofs in proofs/GenCPrint_equiv.v. *)

From Coq Require Import ZArith NArith Bool List String Ascii DecimalString Decimal.
From Flocq Require Import Core BinarySingleNaN.
From TV Require Import spec.Num gen.IRAst spec.CGrammar.
Import ListNotations.
Local Open Scope nat_scope.
Local Open Scope list_scope.

(** * Character classes *)

Definition is_digit (c : ascii) : bool :=
  let n := nat_of_ascii c in (48 <=? n) && (n <=? 57).

Definition is_alpha_ (c : ascii) : bool :=
  let n := nat_of_ascii c in
  ((65 <=? n) && (n <=? 90)) || ((97 <=? n) && (n <=? 122)) || (n =? 95).

Definition is_word (c : ascii) : bool := is_digit c || is_alpha_ c.

Definition is_space (c : ascii) : bool :=
  let n := nat_of_ascii c in (n =? 32) || (n =? 10).

Definition is_e (c : ascii) : bool := Ascii.eqb c "e" || Ascii.eqb c "E".
Definition is_dot (c : ascii) : bool := Ascii.eqb c ".".
Definition is_sign (c : ascii) : bool := Ascii.eqb c "+" || Ascii.eqb c "-".

(** * Tokens of a finished chunk *)

(** the chunk being read: an identifier, or a pp-number together with "the last character was e/E" *)
Inductive chunk : Type :=
  | CId (s : string)
  | CNum (s : string) (last_e : bool)
  | CCmt.                          (* inside a // comment: up to the end of the line *)

Definition is_newline (c : ascii) : bool := nat_of_ascii c =? 10.
Definition is_slash (c : ascii) : bool := Ascii.eqb c "/".

Definition snoc (s : string) (c : ascii) : string := (s ++ String c "")%string.

Definition keyword_token (s : string) : option ctoken :=
  if String.eqb s "true" then Some TTrue
  else if String.eqb s "false" then Some TFalse
  else if String.eqb s "sizeof" then Some TSizeof
  else if String.eqb s "return" then Some TReturn
  else if String.eqb s "restrict" then Some TRestrict
  else if String.eqb s "if" then Some (TId "if")         (* structure words: see [stok_of] below *)
  else if String.eqb s "else" then Some (TId "else")
  else if String.eqb s "while" then Some (TId "while")
  else match base_type s with Some _ => Some (TTypeName s) | None => None end.

Definition word_token (s : string) : ctoken :=
  match keyword_token s with Some t => t | None => TId s end.

(** a string of decimal digits denotes that number (no octal: the printer writes [str(int)], which
    has no leading zero) *)
Definition dec_value (s : string) : option Z :=
  match NilEmpty.uint_of_string s with
  | Some d => Some (Z.of_N (N.of_uint d))
  | None => None
  end.

Section Lexer.

(** decoder of floating constants (strtod on a decimal floating constant) *)
Variable fdec : string -> option F.

Definition chunk_token (ch : chunk) : option ctoken :=
  match ch with
  | CId s => Some (word_token s)
  | CNum s _ =>
      match dec_value s with
      | Some z => Some (TInt z)
      | None => match fdec s with Some f => Some (TFlt f) | None => None end
      end
  | CCmt => None   (* never asked: [flush] drops a comment *)
  end.

(** the chunk extended by one more character, if that character continues it *)
Definition extend (w : option chunk) (c : ascii) : option chunk :=
  match w with
  | None =>
      if is_digit c then Some (CNum (String c "") false)
      else if is_alpha_ c then Some (CId (String c ""))
      else None
  | Some (CId s) => if is_word c then Some (CId (snoc s c)) else None
  | Some (CNum s le) =>
      if is_word c || is_dot c then Some (CNum (snoc s c) (is_e c))
      else if is_sign c && le then Some (CNum (snoc s c) false)
      else None
  | Some CCmt => if is_newline c then None else Some CCmt
  end.

Definition prep (ts : list ctoken) (k : option (list ctoken)) : option (list ctoken) :=
  match k with Some r => Some (ts ++ r) | None => None end.

Definition flush (w : option chunk) (k : option (list ctoken)) : option (list ctoken) :=
  match w with
  | None => k
  | Some CCmt => k
  | Some ch => match chunk_token ch with Some t => prep [t] k | None => None end
  end.

(** * Punctuators *)

Definition starts2 (c : ascii) : bool :=
  Ascii.eqb c "-" || Ascii.eqb c "+" || Ascii.eqb c "*" || Ascii.eqb c "=" || Ascii.eqb c "!"
  || Ascii.eqb c "<" || Ascii.eqb c ">" || Ascii.eqb c "&" || Ascii.eqb c "|".

Definition punct2 (c d : ascii) : option ctoken :=
  if negb (starts2 c) then None
  else if Ascii.eqb d ">" then (if Ascii.eqb c "-" then Some TArrow else None)
  else if Ascii.eqb d "+" then (if Ascii.eqb c "+" then Some TPlusPlus else None)
  else if Ascii.eqb d "-" then (if Ascii.eqb c "-" then Some TMinusMinus else None)
  else if Ascii.eqb d "=" then
    (if Ascii.eqb c "+" then Some TPlusEq else if Ascii.eqb c "-" then Some TMinusEq
     else if Ascii.eqb c "*" then Some TStarEq else if Ascii.eqb c "=" then Some TEqEq
     else if Ascii.eqb c "!" then Some TNe else if Ascii.eqb c "<" then Some TLe
     else if Ascii.eqb c ">" then Some TGe else None)
  else if Ascii.eqb d "&" then (if Ascii.eqb c "&" then Some TAndAnd else None)
  else if Ascii.eqb d "|" then (if Ascii.eqb c "|" then Some TOrOr else None)
  else None.

Definition punct1 (c : ascii) : option ctoken :=
  if Ascii.eqb c "+" then Some TPlus else if Ascii.eqb c "-" then Some TMinus
  else if Ascii.eqb c "*" then Some TStar else if Ascii.eqb c "<" then Some TLt
  else if Ascii.eqb c ">" then Some TGt else if Ascii.eqb c "(" then Some TLParen
  else if Ascii.eqb c ")" then Some TRParen else if Ascii.eqb c "[" then Some TLBrack
  else if Ascii.eqb c "]" then Some TRBrack else if Ascii.eqb c "," then Some TComma
  else if Ascii.eqb c ";" then Some TSemi else if Ascii.eqb c "=" then Some TAssign
  else if Ascii.eqb c "{" then Some (TId "{") else if Ascii.eqb c "}" then Some (TId "}")   (* see [stok_of] *)
  else None.

(** * The lexer: [lex w s] = the tokens of [s] read with the unfinished chunk [w] *)
Fixpoint lex (w : option chunk) (s : string) {struct s} : option (list ctoken) :=
  match s with
  | EmptyString => flush w (Some [])
  | String c r =>
      match extend w c with
      | Some w' => lex (Some w') r
      | None =>
          flush w
            (if is_space c then lex None r
             else match r with
                  | String d r' =>
                      if is_slash c && is_slash d then lex (Some CCmt) r' else
                      match punct2 c d with
                      | Some t => prep [t] (lex None r')
                      | None =>
                          match punct1 c with
                          | Some t => prep [t] (lex None r)
                          | None => None
                          end
                      end
                  | EmptyString =>
                      match punct1 c with Some t => Some [t] | None => None end
                  end)
      end
  end.

Definition clex (s : string) : option (list ctoken) := lex None s.

End Lexer.

(** * Shapes *)

Fixpoint all_word (s : string) : bool :=
  match s with EmptyString => true | String c r => is_word c && all_word r end.

(** a C identifier that is none of the words the lexer knows *)
Definition ident_ok (x : string) : bool :=
  match x with
  | EmptyString => false
  | String c r => is_alpha_ c && all_word r
  end
  && match keyword_token x with None => true | Some _ => false end.

(** the characters after the first of a pp-number, ending outside an exponent sign position *)
Fixpoint num_tail (le : bool) (s : string) : bool :=
  match s with
  | EmptyString => negb le
  | String c r =>
      if is_word c || is_dot c then num_tail (is_e c) r
      else if is_sign c && le then num_tail false r
      else false
  end.

(** a pp-number that is not a decimal integer: the spelling of a non-negative finite float *)
Definition float_shape (s : string) : bool :=
  match s with
  | EmptyString => false
  | String c r => is_digit c && num_tail false r
  end
  && match NilEmpty.uint_of_string s with None => true | Some _ => false end.

(** the text that follows a printed expression does not continue its last token *)
Definition bnd (rest : string) : bool :=
  match rest with
  | EmptyString => true
  | String c _ => negb (is_word c) && negb (is_dot c)
  end.

(** every name of the tree is an identifier, every float literal is finite ([str(inf)] is [inf], an
    identifier for C; [str(nan)] is [nan]) *)
Fixpoint names_ok (e : expr) : bool :=
  match e with
  | Var x => ident_ok x
  | AttributeAccess t a => names_ok t && ident_ok a
  | FloatLiteral f => is_finite f
  | IntegerLiteral _ | BooleanLiteral _ => true
  | ArrayIndex l r | Add l r | Subtract l r | Multiply l r
  | Equal l r | NotEqual l r | GreaterThan l r | LessThan l r | GreaterThanOrEqual l r
  | LessThanOrEqual l r | And l r | Or l r | Max l r | Min l r => names_ok l && names_ok r
  | BooleanToInteger x => names_ok x
  | ArrayAllocate _ n => names_ok n
  | ArrayReallocate old _ n => names_ok old && names_ok n
  end.

Definition decl_names_ok (d : stmt) : bool :=
  match d with
  | Declaration (Var x) _ => ident_ok x
  | _ => true   (* not a declaration of a variable: both printers raise / answer None *)
  end.

Definition stmt_names_ok (s : stmt) : bool :=
  match s with
  | Declaration _ _ => decl_names_ok s
  | Assignment t v => names_ok t && names_ok v
  | DeclarationAssignment d v => decl_names_ok d && names_ok v
  | Return v => names_ok v
  | SExpr e => names_ok e
  | Block _ _ | Branch _ _ _ | Loop _ _ => true
  end.

Definition is_layout (s : stmt) : bool :=
  match s with Block _ _ | Branch _ _ _ | Loop _ _ => true | _ => false end.

(** * What is assumed of the two float oracles ([fdec]: the decoder of C floating constants;
      [str_float]: Python's [str(float)]): a negative finite float is spelled "-" followed by the
      spelling of its absolute value; the spelling of a non-negative finite float has the shape of a
      floating constant and the decoder reads it back. *)
Definition float_oracle_ok (fdec : string -> option F) (str_float : F -> string) : Prop :=
  (forall f, is_finite f = true -> Bsign f = true ->
     str_float f = ("-" ++ str_float (Babs f))%string) /\
  (forall f, is_finite f = true -> Bsign f = false ->
     float_shape (str_float f) = true /\ fdec (str_float f) = Some f).

(** * Statement-level tokens: expression tokens plus braces and the words if / else / while.

    Inside [lex] the five structure tokens travel as the pseudo identifiers [TId "{"], [TId "}"],
    [TId "if"], [TId "else"], [TId "while"] (none of them is an [ident_ok] name, so no identifier of a
    tree inside [names_ok] is confused with them); [slex] is the lexer for statement text. *)
Inductive stok : Type :=
  | SK (t : ctoken)
  | SLBrace | SRBrace | SIf | SElse | SWhile.

Definition stok_of (t : ctoken) : stok :=
  match t with
  | TId x =>
      if String.eqb x "{" then SLBrace else if String.eqb x "}" then SRBrace
      else if String.eqb x "if" then SIf else if String.eqb x "else" then SElse
      else if String.eqb x "while" then SWhile else SK t
  | _ => SK t
  end.

Definition slex (fdec : string -> option F) (s : string) : option (list stok) :=
  match clex fdec s with Some ts => Some (map stok_of ts) | None => None end.

(** a comment that stays on its line *)
Fixpoint no_newline (s : string) : bool :=
  match s with EmptyString => true | String c r => negb (is_newline c) && no_newline r end.
