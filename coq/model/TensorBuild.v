(** Hand model of tensor construction and read-back in /repo/src/tensora/tensor.py and of the
    structure validation in compile/_cffi_ownership.py (property C09).  Executable Gallina, no proofs
    (those are in proofs/TensorBuild*.v).  Tied to the implementation by the C09 correspondence only.

    VALUES ARE IN [Z].  The implementation stores binary64 floats; duplicates are summed left to right
    starting from 0.0 ([node.get(key, 0.0) + payload]).  The correspondence feeds integer-valued
    floats of small magnitude, for which binary64 addition is exact, so [Z] addition models it
    exactly; rounding of non-integer sums is NOT modelled.  int32 limits of cffi arrays (dimensions
    and coordinates >= 2^31) are not modelled either.

    What models what:
      [permute_coord], [level_dims_of]      from_aos: reorder dimensions/coordinates into level order
      [node] = list of (remaining level coordinate, value) in insertion order
                                            one dict node of coordinates_to_tree (the trie is kept
                                            implicit: a node is the multiset of entries below it;
                                            [select k] is node[k], [keys] is sorted(node.keys()),
                                            [leaf_value] the float accumulated at a leaf)
      [emit]                                tree_to_indices_and_values, level by level, left to right
                                            (Python appends during a depth-first walk; each level's
                                            nodes are visited left to right by that walk, so the
                                            arrays are equal -- checked by correspondence)
      [validate]                            allocate_taco_structure + taco_structure_to_cffi checks
      [items_impl]                          Tensor.items as written today (prefix[mode_ordering[i]])
      [items_spec]                          Storage.entries (prefix[mode_ordering.index(i)])
      [to_dok], [to_format_*], [getstate]/[setstate]. *)

From Coq Require Import ZArith List Bool Lia.
From TV Require Import spec.Storage.
Import ListNotations.
Open Scope Z_scope.

(** * Formats *)

Inductive mode : Type := MDense | MCompressed.

Record format : Type := mkFormat { fmodes : list mode; fordering : list nat }.

Definition mode_eqb (a b : mode) : bool :=
  match a, b with MDense, MDense | MCompressed, MCompressed => true | _, _ => false end.

(** Format.__post_init__ (ordering is a permutation of range(len(modes))) together with the length
    agreement that every use of a format relies on. *)
Definition valid_formatb (f : format) : bool :=
  (length (fmodes f) =? length (fordering f))%nat && is_permb (fordering f).

Definition mode_of_level (l : level) : mode :=
  match l with LDense => MDense | LCompressed _ _ => MCompressed end.

Definition format_of {V} (t : tensor V) : format :=
  mkFormat (map mode_of_level (levels t)) (ordering t).

(** * Errors (the Python exception classes that can come out of a constructor) *)

Inductive err : Type :=
  | EFormat       (* not a valid format: outside the model *)
  | EIndex        (* IndexError: a coordinate (or the dimensions) shorter than the ordering needs *)
  | ELength       (* ValueError: coordinates and values of different lengths (zip strict) *)
  | EValue        (* ValueError from allocate_taco_structure / taco_structure_to_cffi *)
  | ERange.       (* only produced by the *_checked variants: coordinate outside the dimensions *)

Inductive result (A : Type) : Type := Ok (a : A) | Err (e : err).
Arguments Ok {A}. Arguments Err {A}.

Definition err_eqb (a b : err) : bool :=
  match a, b with
  | EFormat, EFormat | EIndex, EIndex | ELength, ELength | EValue, EValue | ERange, ERange => true
  | _, _ => false
  end.

(** * from_aos: permutation into level order *)

Definition entry : Type := (list Z * Z)%type.

Fixpoint map_opt {A B} (f : A -> option B) (l : list A) : option (list B) :=
  match l with
  | [] => Some []
  | a :: r => match f a, map_opt f r with Some b, Some r' => Some (b :: r') | _, _ => None end
  end.

(** [tuple(coordinate[i] for i in format.ordering)]; None = IndexError.  A coordinate LONGER than
    the ordering is accepted by the implementation and its extra components are ignored. *)
Definition permute_coord (ord : list nat) (c : list Z) : option (list Z) :=
  map_opt (fun i => nth_error c i) ord.

Definition level_dims_of (ord : list nat) (dims : list Z) : option (list Z) :=
  map_opt (fun i => nth_error dims i) ord.

(** * coordinates_to_tree, implicitly *)

Definition node : Type := list entry.

(** node[k] : entries whose next coordinate is k, with that coordinate removed *)
Fixpoint select (k : Z) (nd : node) : node :=
  match nd with
  | [] => []
  | (h :: t, v) :: r => if h =? k then (t, v) :: select k r else select k r
  | ([], _) :: r => select k r
  end.

Fixpoint insert_sorted (k : Z) (l : list Z) : list Z :=
  match l with
  | [] => [k]
  | h :: t => if k <? h then k :: l else if k =? h then l else h :: insert_sorted k t
  end.

Definition heads (nd : node) : list Z :=
  flat_map (fun e : entry => match fst e with h :: _ => [h] | [] => [] end) nd.

(** sorted(node.keys()) *)
Definition keys (nd : node) : list Z := fold_right insert_sorted [] (heads nd).

(** the float at a leaf: 0.0 + v1 + v2 + ... in insertion order (0.0 when absent) *)
Definition leaf_value (nd : node) : Z := fold_left Z.add (map snd nd) 0.

(** * tree_to_indices_and_values *)

Fixpoint offsets_from (a : Z) (ls : list (list Z)) : list Z :=
  a :: match ls with [] => [] | l :: r => offsets_from (a + zlen l) r end.

(** pos array of a compressed level whose segments are [ls] *)
Definition offsets (ls : list (list Z)) : list Z := offsets_from 0 ls.

Fixpoint emit (lv : list (mode * Z)) (nodes : list node) : list level * list Z :=
  match lv with
  | [] => ([], map leaf_value nodes)
  | (MDense, d) :: r =>
      let '(ls, vs) := emit r (flat_map (fun nd => map (fun i => select i nd) (zrange d)) nodes) in
      (LDense :: ls, vs)
  | (MCompressed, _) :: r =>
      let ks := map keys nodes in
      let '(ls, vs) :=
        emit r (flat_map (fun nd => map (fun k => select k nd) (keys nd)) nodes) in
      (LCompressed (offsets ks) (concat ks) :: ls, vs)
  end.

(** * Validation: allocate_taco_structure and taco_structure_to_cffi, in the order of the code.
    (The shape of [indices] -- [] for a dense level, [pos, crd] for a compressed one -- is carried by
    the [level] constructors; see [setstate] for the checks on a raw pickle state.) *)

Definition all_distinct_range (ord : list nat) (n : nat) : bool :=
  (* set(mode_ordering) == set(range(n)) *)
  forallb (fun k => existsb (Nat.eqb k) ord) (seq 0 n) && forallb (fun x => (x <? n)%nat) ord.

Definition validate_shape {V} (t : tensor V) : bool :=
  (length (levels t) =? length (dims t))%nat
  && (length (dims t) =? length (ordering t))%nat
  && forallb (fun d => 0 <=? d) (dims t)
  && all_distinct_range (ordering t) (length (levels t)).

Fixpoint validate_levels (lv : list (level * Z)) (nnz : Z) : option Z :=
  match lv with
  | [] => Some nnz
  | (LDense, d) :: r => validate_levels r (nnz * d)
  | (LCompressed pos crd, d) :: r =>
      if (zlen pos =? nnz + 1)
         && (nthZ (-1) pos 0 =? 0)
         && weakly_increasing pos
         && (zlen crd =? last pos (-1))
         && forallb (fun x => (0 <=? x) && (x <? d)) crd
      then validate_levels r (zlen crd) else None
  end.

Definition validate {V} (t : tensor V) : bool :=
  validate_shape t &&
  match validate_levels (combine (levels t) (level_dims t)) 1 with
  | Some n => zlen (vals t) =? n
  | None => false
  end.

(** * The constructors *)

Fixpoint zip_strict {A B} (a : list A) (b : list B) : option (list (A * B)) :=
  match a, b with
  | [], [] => Some []
  | x :: a', y :: b' => match zip_strict a' b' with Some r => Some ((x, y) :: r) | None => None end
  | _, _ => None
  end.

(** The arrays from_aos hands to taco_structure_to_cffi, before validation. *)
Definition raw_build (fmt : format) (dims ldims : list Z) (lentries : list entry) : tensor Z :=
  let '(ls, vs) := emit (combine (fmodes fmt) ldims) [lentries] in
  mkTensor dims (fordering fmt) ls vs.

(** Tensor.from_aos with explicit dimensions and format, on already zipped entries
    (coordinate in dimension order, value). *)
Definition build (fmt : format) (dims : list Z) (es : list entry) : result (tensor Z) :=
  if negb (valid_formatb fmt) then Err EFormat else
  match level_dims_of (fordering fmt) dims with
  | None => Err EIndex
  | Some ldims =>
      match map_opt (fun e : entry =>
                       match permute_coord (fordering fmt) (fst e) with
                       | Some lc => Some (lc, snd e) | None => None end) es with
      | None => Err EIndex
      | Some les =>
          let t := raw_build fmt dims ldims les in
          if validate t then Ok t else Err EValue
      end
  end.

Definition from_aos (fmt : format) (dims : list Z) (cs : list (list Z)) (vs : list Z)
  : result (tensor Z) :=
  match zip_strict cs vs with
  | None =>
      (* zip(strict=True) raises ValueError once one side is exhausted; an IndexError of an earlier
         (too short) coordinate comes first *)
      if negb (valid_formatb fmt) then Err EFormat else
      match level_dims_of (fordering fmt) dims with
      | None => Err EIndex
      | Some _ =>
        match map_opt (permute_coord (fordering fmt)) cs with
        | None => Err EIndex
        | Some _ => Err ELength
        end
      end
  | Some es => build fmt dims es
  end.

(** from_dok(d) = from_aos(d.keys(), d.values()) *)
Definition from_dok (fmt : format) (dims : list Z) (d : list entry) : result (tensor Z) :=
  from_aos fmt dims (map fst d) (map snd d).

(** zip of the columns (strict): rows of the transposed matrix; None = ValueError (ragged).
    No columns (order 0) gives NO rows whatever the number of values. *)
Fixpoint transpose_strict (cols : list (list Z)) : option (list (list Z)) :=
  match cols with
  | [] => Some []
  | [c] => Some (map (fun x => [x]) c)
  | c :: r =>
      match transpose_strict r with
      | None => None
      | Some rows =>
          match zip_strict c rows with
          | Some z => Some (map (fun p : Z * list Z => fst p :: snd p) z)
          | None => None
          end
      end
  end.

Definition from_soa (fmt : format) (dims : list Z) (cols : list (list Z)) (vs : list Z)
  : result (tensor Z) :=
  match transpose_strict cols with
  | None => Err ELength
  | Some rows => from_aos fmt dims rows vs
  end.

(** Nested lists of numbers; lol_to_coordinates_and_values (keep_zero = False). *)
Inductive lol : Type := LNum (v : Z) | LList (l : list lol).

Fixpoint lol_entries (x : lol) (rprefix : list Z) : list entry :=
  match x with
  | LNum v => if v =? 0 then [] else [(rev rprefix, v)]
  | LList l =>
      (fix go (l : list lol) (i : Z) : list entry :=
         match l with
         | [] => []
         | y :: r => lol_entries y (i :: rprefix) ++ go r (i + 1)
         end) l 0
  end.

Definition from_lol (fmt : format) (dims : list Z) (x : lol) : result (tensor Z) :=
  let es := lol_entries x [] in from_aos fmt dims (map fst es) (map snd es).

(** The repair candidate for the out-of-range finding: a range (and length) check in from_aos. *)
Fixpoint in_rangeb (dims c : list Z) : bool :=
  match dims, c with
  | [], [] => true
  | d :: dr, x :: cr => (0 <=? x) && (x <? d) && in_rangeb dr cr
  | _, _ => false
  end.

Definition all_in_rangeb (dims : list Z) (es : list entry) : bool :=
  forallb (fun e : entry => in_rangeb dims (fst e)) es.

Definition build_checked (fmt : format) (dims : list Z) (es : list entry) : result (tensor Z) :=
  if all_in_rangeb dims es then build fmt dims es
  else match build fmt dims es with Err e => Err e | Ok _ => Err ERange end.

(** * Read-back *)

(** Tensor.items as written today: coordinate[i] = prefix[mode_ordering[i]]. *)
Definition items_impl (t : tensor Z) : list entry :=
  map (fun '(lc, p) =>
         (map (fun i => nth (nth i (ordering t) O) lc (-1)) (seq 0 (length (ordering t))),
          nthZ 0 (vals t) p))
      (walk (combine (levels t) (level_dims t)) 0 []).

(** The correct reading: coordinate[mode_ordering[l]] = prefix[l]. *)
Definition items_spec (t : tensor Z) : list entry := entries 0 t.

Fixpoint list_eqb (a b : list Z) : bool :=
  match a, b with
  | [], [] => true
  | x :: a', y :: b' => (x =? y) && list_eqb a' b'
  | _, _ => false
  end.

(** dict[k] = v : overwrite in place, or append *)
Fixpoint dict_set (d : list entry) (k : list Z) (v : Z) : list entry :=
  match d with
  | [] => [(k, v)]
  | (k', v') :: r => if list_eqb k' k then (k', v) :: r else (k', v') :: dict_set r k v
  end.

Definition dict_of (l : list entry) : list entry :=
  fold_left (fun d (e : entry) => dict_set d (fst e) (snd e)) l [].

(** to_dok(explicit_zeros) *)
Definition to_dok (explicit_zeros : bool) (its : list entry) : list entry :=
  dict_of (if explicit_zeros then its else filter (fun e : entry => negb (snd e =? 0)) its).

Definition to_dok_impl (t : tensor Z) : list entry := to_dok false (items_impl t).
Definition to_dok_spec (t : tensor Z) : list entry := to_dok false (items_spec t).

Fixpoint dict_get (d : list entry) (k : list Z) : option Z :=
  match d with
  | [] => None
  | (k', v) :: r => if list_eqb k' k then Some v else dict_get r k
  end.

(** dict equality *)
Definition dict_eqb (a b : list entry) : bool :=
  (length a =? length b)%nat
  && forallb (fun e : entry => match dict_get b (fst e) with Some v => v =? snd e | None => false end) a.

(** Tensor.__eq__ *)
Definition tensor_eq_impl (a b : tensor Z) : bool := dict_eqb (to_dok_impl a) (to_dok_impl b).
Definition tensor_eq_spec (a b : tensor Z) : bool := dict_eqb (to_dok_spec a) (to_dok_spec b).

(** Tensor.to_format = from_dok(self.to_dok(), dimensions=self.dimensions, format) *)
Definition to_format_impl (fmt : format) (t : tensor Z) : result (tensor Z) :=
  from_dok fmt (dims t) (to_dok_impl t).
Definition to_format_spec (fmt : format) (t : tensor Z) : result (tensor Z) :=
  from_dok fmt (dims t) (to_dok_spec t).

(** * Pickling *)

Record pstate : Type := mkPState {
  ps_dims : list Z;
  ps_modes : list mode;
  ps_ordering : list nat;
  ps_indices : list (list (list Z));
  ps_vals : list Z
}.

Definition firstnZ {A} (n : Z) (l : list A) : list A := firstn (Z.to_nat n) l.

(** taco_indices: what is read out of the C arrays, threading nnz as the code does *)
Fixpoint read_indices (lv : list (level * Z)) (nnz : Z) : list (list (list Z)) * Z :=
  match lv with
  | [] => ([], nnz)
  | (LDense, d) :: r => let '(ix, n) := read_indices r (nnz * d) in ([] :: ix, n)
  | (LCompressed pos crd, _) :: r =>
      let pos' := firstnZ (nnz + 1) pos in
      let crd' := firstnZ (last pos' 0) crd in
      let '(ix, n) := read_indices r (zlen crd') in
      ([pos'; crd'] :: ix, n)
  end.

(** taco_vals: its own nnz computation (pos[nnz] instead of len(crd)) *)
Fixpoint read_nnz (lv : list (level * Z)) (nnz : Z) : Z :=
  match lv with
  | [] => nnz
  | (LDense, d) :: r => read_nnz r (nnz * d)
  | (LCompressed pos _, _) :: r => read_nnz r (nthZ 0 pos nnz)
  end.

Definition getstate (t : tensor Z) : pstate :=
  let lv := combine (levels t) (level_dims t) in
  mkPState (dims t) (map mode_of_level (levels t)) (ordering t)
           (fst (read_indices lv 1)) (firstnZ (read_nnz lv 1) (vals t)).

Fixpoint levels_of_state (ms : list mode) (ix : list (list (list Z))) : option (list level) :=
  match ms, ix with
  | [], [] => Some []
  | MDense :: mr, [] :: ir =>
      match levels_of_state mr ir with Some r => Some (LDense :: r) | None => None end
  | MCompressed :: mr, [pos; crd] :: ir =>
      match levels_of_state mr ir with Some r => Some (LCompressed pos crd :: r) | None => None end
  | _, _ => None
  end.

(** __setstate__ = taco_structure_to_cffi on the state *)
Definition setstate (s : pstate) : result (tensor Z) :=
  match levels_of_state (ps_modes s) (ps_indices s) with
  | None => Err EValue
  | Some ls =>
      let t := mkTensor (ps_dims s) (ps_ordering s) ls (ps_vals s) in
      if validate t then Ok t else Err EValue
  end.

Definition pickle_roundtrip (t : tensor Z) : result (tensor Z) := setstate (getstate t).

(** * Structural equality of stored tensors (for the correspondence) *)

Definition level_eqb (a b : level) : bool :=
  match a, b with
  | LDense, LDense => true
  | LCompressed p c, LCompressed p' c' => list_eqb p p' && list_eqb c c'
  | _, _ => false
  end.

Fixpoint levels_eqb (a b : list level) : bool :=
  match a, b with
  | [], [] => true
  | x :: a', y :: b' => level_eqb x y && levels_eqb a' b'
  | _, _ => false
  end.

Definition tensor_eqb (a b : tensor Z) : bool :=
  list_eqb (dims a) (dims b)
  && list_eqb (map Z.of_nat (ordering a)) (map Z.of_nat (ordering b))
  && levels_eqb (levels a) (levels b)
  && list_eqb (vals a) (vals b).

Fixpoint entries_eqb (a b : list entry) : bool :=
  match a, b with
  | [], [] => true
  | (k, v) :: a', (k', v') :: b' => list_eqb k k' && (v =? v') && entries_eqb a' b'
  | _, _ => false
  end.

Definition result_eqb (a b : result (tensor Z)) : bool :=
  match a, b with
  | Ok x, Ok y => tensor_eqb x y
  | Err e, Err e' => err_eqb e e'
  | _, _ => false
  end.
