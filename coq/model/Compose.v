(** TIE "compose" -- the regenerated functions of the TIE layers plugged into each other (definitions only; the
    proofs are in proofs/Compose_*.v, notes in design.d/TIE_compose.md).

    * [gen_post]: the regenerated [Assignment.__post_init__] (gen/ProblemGen.v) as the hook of the regenerated
      parsita grammar (gen/GrammarGen.v);
    * the conversions between the nominally different copies of the Python classes Mode / Format / Problem:
        Mode    : gen/ExhaustAst.v (GrammarGen, IterGraphs, GlueGen)   | gen/TensorMethod.v
        Format  : GrammarGen.gformat | IterGraphs.Format (GlueGen)     | TensorMethod.Format (ProblemGen)
        Problem : GlueGen.Problem                                      | TensorMethod.Problem
    * the regenerated parsers and [make_problem] at the types of the arguments of gen/GlueGen.v's [cli_tensora]. *)

From Coq Require Import String List ZArith Bool.
From TV Require Import spec.Num spec.PyBase spec.PyLib model.GraphsIter.
From TV Require model.Parser model.Parsita
  gen.ExhaustAst gen.Deparse gen.IterGraphs gen.TensorMethod gen.ProblemGen gen.GrammarGen gen.GlueGen.
Import ListNotations.
Open Scope string_scope.
Open Scope list_scope.

Module P := TV.model.Parser.
Module GD := TV.gen.Deparse.
Module GT := TV.gen.TensorMethod.
Module GP := TV.gen.ProblemGen.
Module GG := TV.gen.GrammarGen.
Module EX := TV.gen.ExhaustAst.
Module IG := TV.gen.IterGraphs.
Module GL := TV.gen.GlueGen.

(** [Assignment(t, e)]: runs gen/ProblemGen.v's [Assignment_post_init]; the grammar's action only looks at
    "returned" ([None]) / "raised this class" ([Some cls]) *)
Definition gen_post (t e : GD.ex_expr) : option string :=
  match GP.Assignment_post_init (GD.ExAssignment t e) with
  | GT.Ret _ => None
  | GT.Raise x => Some (GP.exc_class x)
  end.

Definition mode_x2t (m : EX.Mode) : GT.Mode :=
  match m with EX.Mode_dense => GT.Mode_dense | EX.Mode_compressed => GT.Mode_compressed end.
Definition mode_t2x (m : GT.Mode) : EX.Mode :=
  match m with GT.Mode_dense => EX.Mode_dense | GT.Mode_compressed => EX.Mode_compressed end.

Definition fmt_i2t (f : IG.Format) : GT.Format :=
  GT.MkFormat (map mode_x2t (IG.Format_modes f)) (IG.Format_ordering f).
Definition fmt_t2i (f : GT.Format) : IG.Format :=
  IG.MkFormat (map mode_t2x (GT.Format_modes f)) (GT.Format_ordering f).
Definition fmt_g2i (f : GG.gformat) : IG.Format := IG.MkFormat (GG.gf_modes f) (GG.gf_ordering f).
Definition fmt_i2g (f : IG.Format) : GG.gformat := GG.GFormat (IG.Format_modes f) (IG.Format_ordering f).

Definition on_snd {A B} (f : A -> B) (l : list (string * A)) : list (string * B) :=
  map (fun kv => (fst kv, f (snd kv))) l.

Definition problem_t2l (p : GT.Problem) : GL.Problem :=
  GL.MkProblem (GT.Problem_assignment p) (on_snd fmt_t2i (GT.Problem_formats p)).
Definition problem_l2t (p : GL.Problem) : GT.Problem :=
  GT.MkProblem (GL.Problem_assignment p) (on_snd fmt_i2t (GL.Problem_formats p)).

Definition conv_exn (e : GT.pyexc) : string := GP.exc_class e.

(** [make_problem]: gen/ProblemGen.v's, formats converted on the way in, the Problem on the way out;
    Success / Failure(class) / raised(class) *)
Definition make_problem_cli (a : GD.ex_assignment) (fs : pydict string IG.Format)
  : pres (GL.Problem + string) :=
  match GP.make_problem a (on_snd fmt_i2t fs) with
  | GT.Ret (inl p) => POk (inl (problem_t2l p))
  | GT.Ret (inr e) => POk (inr (conv_exn e))
  | GT.Raise e => PRaise (conv_exn e)
  end.

(** [parse_assignment]: Success(Assignment) / Failure(class).  The last arm (an exception escaping, a stuck
    action, fuel, a value that is no Assignment) is unreachable: [Compose_cli.parse_assignment_cli_total]. *)
Definition parse_assignment_cli (fl : P.dec -> F) (s : string) : GD.ex_assignment + string :=
  match GG.parse_assignment fl gen_post s with
  | GG.PSuccess (Parsita.VU (GG.UAsg a)) => inl a
  | GG.PFailure cls => inr cls
  | _ => inr "unreachable"
  end.

Definition parse_named_format_cli (s : string) : (string * IG.Format) + string :=
  match GG.parse_named_format s with
  | GG.PSuccess (Parsita.VList [Parsita.VStr n; Parsita.VU (GG.UFormat f)]) => inl (n, fmt_g2i f)
  | GG.PFailure cls => inr cls
  | _ => inr "unreachable"
  end.

(** what the CLI body does with the answer of [generate_code] *)
Definition emit (generate_code : GL.Problem -> list GL.KernelType -> GL.Language -> pres (string + string))
  (p : GL.Problem) (ks : list GL.KernelType) (lang : GL.Language) : pres string :=
  r_bind (generate_code p ks lang) (fun c => match c with inl code => POk code | inr _ => PRaise "Exit(1)" end).
