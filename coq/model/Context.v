(** Hand model of iteration_graph/identifiable_expression/_extract_context.py (the [is_sparse]
    component) and of the node-level decision in _generate_ir.py::to_ir_iteration_variable:
        is_sparse = node.is_sparse_input() and (node.output is None or node.is_sparse_output())
    Tied to the Python functions by correspondence (tools/props/C16.py). *)

From Coq Require Import Bool List String.
Import ListNotations.

Inductive mode : Type := Dense | Compressed.

(** identifiable expression; a tensor is its list of (index variable, mode) per LEVEL *)
Inductive iexpr : Type :=
  | ILitZero                       (* Integer(0) or Float(0.0) *)
  | ILit                           (* any other literal *)
  | ITensor (levels : list (string * mode))
  | IAdd (l r : iexpr)
  | IMul (l r : iexpr).

(** first level that carries index [k] (Python: self.indexes.index(index)) *)
Fixpoint level_of (k : string) (lv : list (string * mode)) : option mode :=
  match lv with
  | [] => None
  | (i, m) :: r => if String.eqb i k then Some m else level_of k r
  end.

Fixpoint is_sparse (e : iexpr) (k : string) : bool :=
  match e with
  | ILitZero => true
  | ILit => false
  | ITensor lv => match level_of k lv with Some Compressed => true | _ => false end
  | IAdd l r => is_sparse l k && is_sparse r k
  | IMul l r => is_sparse l k || is_sparse r k
  end.

(** the node for index [k]: sparse iteration iff its input is sparse and its output layer is
    absent (contraction) or compressed *)
Definition node_is_sparse (e : iexpr) (k : string) (output : option mode) : bool :=
  is_sparse e k && match output with None => true | Some Compressed => true | Some Dense => false end.

(** * The condition of property C16 *)

(** every operand that has [k] stores it in a compressed level *)
Fixpoint only_compressed (e : iexpr) (k : string) : bool :=
  match e with
  | ITensor lv => match level_of k lv with Some Dense => false | _ => true end
  | IAdd l r | IMul l r => only_compressed l k && only_compressed r k
  | _ => true
  end.

(** every additive term mentions [k]: a product mentions it if a factor does *)
Fixpoint every_term_mentions (e : iexpr) (k : string) : bool :=
  match e with
  | ILitZero => true           (* the zero literal contributes no term *)
  | ILit => false
  | ITensor lv => match level_of k lv with Some _ => true | None => false end
  | IAdd l r => every_term_mentions l k && every_term_mentions r k
  | IMul l r => every_term_mentions l k || every_term_mentions r k
  end.

Definition c16_condition (e : iexpr) (k : string) (output : option mode) : bool :=
  only_compressed e k && every_term_mentions e k
  && match output with Some Dense => false | _ => true end.
