(** C01 (stretch, DESIGN C01 item 3) -- the iteration graph as an UNTRUSTED CERTIFICATE.

    A hand model of the data of tensora/iteration_graph/iteration_graph.py (TerminalNode,
    IterationNode, SumNode), its meaning as a loop nest ([gdenote]: an IterationNode without an
    output layer sums its body over its index, one with an output layer leaves the index free, a
    SumNode adds its terms, a TerminalNode evaluates its expression), a normal form [nf] shared
    by desugared expressions and graphs (a list of monomials: sign, factors, summed indexes -- a
    monomial that sits under a contraction without carrying its index keeps the index in its
    summed list, which is how a wrongly hoisted contraction shows up), and the checker
    [graph_ok], run by the C01 check on the REAL first graph that Python builds for every swept
    problem (the graph is dumped, not re-derived, so a different but valid choice of graph is not
    an alarm).  No proofs here (proofs/DesugarSemGraph*.v). *)

From Coq Require Import ZArith List Bool String.
From TV Require Import spec.Storage spec.Spec model.DesugarSem model.Exhaust.
Import ListNotations.
Open Scope Z_scope.

Section Syntax.
Variable R : Type.

Inductive graph : Type :=
  | GTerminal (e : iexpr R)
  | GIter (k : string) (out : option nat) (next : graph)   (* out: layer of the output it writes *)
  | GSum (terms : list graph).

(** normal-form monomial: (negative?, factors with DIMENSION-order indexes, summed indexes) *)
Definition nmono : Type := (bool * list (factor R) * list string)%type.

Definition nsign (m : nmono) : bool := fst (fst m).
Definition nfactors (m : nmono) : list (factor R) := snd (fst m).
Definition nsummed (m : nmono) : list string := snd m.
Definition nidx (m : nmono) : list string := flat_map factor_idx (nfactors m).

Definition add_summed (k : string) (m : nmono) : nmono := (nsign m, nfactors m, k :: nsummed m).

Definition nmul (a b : nmono) : nmono :=
  (xorb (nsign a) (nsign b), nfactors a ++ nfactors b, nsummed a ++ nsummed b).

Definition nprod (la lb : list nmono) : list nmono :=
  flat_map (fun a => map (nmul a) lb) la.

Definition disjointb (a b : list string) : bool := forallb (fun x => negb (smem x b)) a.

(** the two sums may be merged into one: neither sums over an index the other one reads *)
Definition nmul_ok (a b : nmono) : bool :=
  disjointb (nsummed a) (nidx b) && disjointb (nsummed b) (nidx a).

(** normal form of a desugared expression; [None] when a product would capture an index *)
Fixpoint nf_d (e : dexpr R) : option (list nmono) :=
  match e with
  | DInt z => Some [(false, [FInt z], [])]
  | DFloat r => Some [(false, [FFloat r], [])]
  | DTensor _ n idx => Some [(false, [FTensor n idx], [])]
  | DAdd a b =>
      match nf_d a, nf_d b with
      | Some x, Some y => Some (x ++ y)
      | _, _ => None
      end
  | DMul a b =>
      match nf_d a, nf_d b with
      | Some x, Some y =>
          if forallb (fun ma => forallb (nmul_ok ma) y) x then Some (nprod x y) else None
      | _, _ => None
      end
  | DContract k e' =>
      match nf_d e' with
      | Some x => Some (map (add_summed k) x)
      | None => None
      end
  end.

(** A tensor leaf of a graph lists its indexes in LEVEL order ([format.ordering] applied);
    [ords name] is that tensor's mode ordering; this gives the indexes back in dimension order. *)
Fixpoint nat_index_of (d : nat) (l : list nat) : nat :=
  match l with
  | [] => O
  | x :: r => if Nat.eqb x d then O else S (nat_index_of d r)
  end.

Definition dim_idx (ordering : list nat) (lidx : list string) : list string :=
  map (fun d => nth (nat_index_of d ordering) lidx EmptyString) (seq 0 (List.length ordering)).

Variable ords : string -> list nat.

Fixpoint nf_i (e : iexpr R) : list nmono :=
  match e with
  | IInt z => [(false, [FInt z], [])]
  | IFloat r => [(false, [FFloat r], [])]
  | ITensor _ n idx _ => [(false, [FTensor n (dim_idx (ords n) idx)], [])]
  | IAdd a b => nf_i a ++ nf_i b
  | IMul a b => nprod (nf_i a) (nf_i b)
  end.

Fixpoint nf_g (g : graph) : list nmono :=
  match g with
  | GTerminal e => nf_i e
  | GIter k None next => map (add_summed k) (nf_g next)
  | GIter k (Some _) next => nf_g next
  | GSum ts => (fix go (l : list graph) : list nmono :=
                  match l with
                  | [] => []
                  | t :: r => nf_g t ++ go r
                  end) ts
  end.

(** ** boolean "equal up to order" *)

Fixpoint remove_first {A} (eqb : A -> A -> bool) (x : A) (l : list A) : option (list A) :=
  match l with
  | [] => None
  | y :: r => if eqb x y then Some r
              else match remove_first eqb x r with Some r' => Some (y :: r') | None => None end
  end.

Fixpoint permb {A} (eqb : A -> A -> bool) (l1 l2 : list A) : bool :=
  match l1 with
  | [] => match l2 with [] => true | _ => false end
  | x :: r => match remove_first eqb x l2 with
              | Some l2' => permb eqb r l2'
              | None => false
              end
  end.

Fixpoint nodupb (l : list string) : bool :=
  match l with
  | [] => true
  | x :: r => negb (smem x r) && nodupb r
  end.

Variable Reqb : R -> R -> bool.

Definition factor_eqb (a b : factor R) : bool :=
  match a, b with
  | FInt x, FInt y => x =? y
  | FFloat x, FFloat y => Reqb x y
  | FTensor n i, FTensor m j => String.eqb n m && strs_eqb i j
  | _, _ => false
  end.

Definition nmono_eqb (a b : nmono) : bool :=
  Bool.eqb (nsign a) (nsign b)
  && permb factor_eqb (nfactors a) (nfactors b)
  && nodupb (nsummed a) && permb String.eqb (nsummed a) (nsummed b).

(** Subtraction reaches the graph as a factor [-1] (desugaring), the specification keeps a sign:
    both are brought to the same shape by moving every literal factor [-1] into the sign. *)
Definition is_m1 (f : factor R) : bool :=
  match f with
  | FInt z => z =? -1
  | _ => false
  end.

Fixpoint m1_parity (fs : list (factor R)) : bool :=
  match fs with
  | [] => false
  | f :: r => xorb (is_m1 f) (m1_parity r)
  end.

Definition ncanon (m : nmono) : nmono :=
  (xorb (nsign m) (m1_parity (nfactors m)), filter (fun f => negb (is_m1 f)) (nfactors m), nsummed m).

(** THE CHECKER: the graph and the desugared expression have the same normal form. *)
Definition graph_ok (d : dexpr R) (g : graph) : bool :=
  match nf_d d with
  | Some a => permb nmono_eqb (map ncanon a) (map ncanon (nf_g g))
  | None => false
  end.

(** normal form of the SPECIFICATION of an assignment: its monomials, each summed over its own
    indexes absent from the target *)
Definition nf_spec (a : assignment R) : list nmono :=
  map (fun m => (fst m, snd m, contracted (tgt_idx a) m)) (monomials (rhs a)).

(** THE CHECKER against the specification itself (desugaring is bypassed). *)
Definition graph_ok_spec (a : assignment R) (g : graph) : bool :=
  permb nmono_eqb (map ncanon (nf_spec a)) (map ncanon (nf_g g)).

End Syntax.

Arguments GTerminal {R}.
Arguments GIter {R}.
Arguments GSum {R}.
Arguments nsign {R}.
Arguments nfactors {R}.
Arguments nsummed {R}.
Arguments nidx {R}.
Arguments add_summed {R}.
Arguments nmul {R}.
Arguments nprod {R}.
Arguments nmul_ok {R}.
Arguments nf_d {R}.
Arguments nf_i {R}.
Arguments nf_g {R}.
Arguments factor_eqb {R}.
Arguments nmono_eqb {R}.
Arguments is_m1 {R}.
Arguments m1_parity {R}.
Arguments ncanon {R}.
Arguments graph_ok {R}.
Arguments nf_spec {R}.
Arguments graph_ok_spec {R}.

(** * Meaning of a graph as a loop nest *)

Section Meaning.
Variable O : ringops.
Variable E : env O.
Variable sizes : string -> Z.
Variable ords : string -> list nat.

Fixpoint ieval (rho : val) (e : iexpr O) : O :=
  match e with
  | IInt z => of_Z z
  | IFloat r => r
  | ITensor _ n idx _ => E n (map rho (dim_idx (ords n) idx))
  | IAdd a b => radd (ieval rho a) (ieval rho b)
  | IMul a b => rmul (ieval rho a) (ieval rho b)
  end.

Fixpoint gdenote (g : graph O) (rho : val) : O :=
  match g with
  | GTerminal e => ieval rho e
  | GIter k None next => rsum (map (fun v => gdenote next (upd rho k v)) (zrange (sizes k)))
  | GIter k (Some _) next => gdenote next rho
  | GSum ts => (fix go (l : list (graph O)) : O :=
                  match l with
                  | [] => r0
                  | t :: r => radd (gdenote t rho) (go r)
                  end) ts
  end.

(** meaning of a normal form *)
Definition ninterp1 (m : nmono O) (rho : val) : O :=
  sgn (nsign m) (sum_over sizes (nsummed m)
                   (fun r => rprod (map (eval_factor E r) (nfactors m))) rho).

Definition ninterp (ms : list (nmono O)) (rho : val) : O :=
  rsum (map (fun m => ninterp1 m rho) ms).

End Meaning.

Arguments ieval {O}.
Arguments gdenote {O}.
Arguments ninterp1 {O}.
Arguments ninterp {O}.
