(** Sugar-level expression AST of tensora (src/tensora/expression/ast.py), hand model.

    Shared by the C10 (argument validation) and C15 (determinism / caching) models.
    Python [dict]s are ordered association lists with unique keys; Python [set]s are
    duplicate-free lists *plus an iteration-order oracle* supplied where a set is iterated
    (a [Section] variable in the files that iterate them).

    No proofs in this file. *)

From Coq Require Import String List ZArith Bool Arith.
Import ListNotations.

(* ------------------------------------------------------------------------------------------ *)
(** * Results and the error enumeration (class + raise site; never a message) *)

Inductive error : Type :=
  (* expression/_exceptions.py, raised by Assignment.__post_init__ *)
  | EMutatingAssignment
  | EInconsistentDimensions
  | ENameConflict                       (* the reported name comes from set.pop(): not modelled *)
  (* problem.py *)
  | EUndefinedReference (name : string)
  | EIncorrectDimensions (name : string)
  | EUnusedFormat (name : string)
  (* compile/_tensor_method.py *)
  | EBroadcastTargetIndex (index : string)
  | ETypeErrorBind                      (* Signature.bind / interpreter: missing, extra, positional, repeated *)
  | ETypeErrorNotTensor (name : string)
  | EValueErrorOrder (name : string)
  | EValueErrorModes (name : string)
  | EValueErrorOrdering (name : string)
  | EValueErrorDimensions
  (* a KeyError / IndexError the code is not supposed to raise; excluded by the theorems *)
  | EInternal (what : string).

Inductive result (A : Type) : Type :=
  | Ok (a : A)
  | Error (e : error).
Arguments Ok {A} a.
Arguments Error {A} e.

Definition is_ok {A} (r : result A) : bool :=
  match r with Ok _ => true | Error _ => false end.

Definition bind_result {A B} (r : result A) (f : A -> result B) : result B :=
  match r with Ok a => f a | Error e => Error e end.

(* ------------------------------------------------------------------------------------------ *)
(** * Ordered association lists (Python dict with str keys) *)

Definition akeys {V} (l : list (string * V)) : list string := map fst l.

Fixpoint aget {V} (k : string) (l : list (string * V)) : option V :=
  match l with
  | [] => None
  | (k', v) :: t => if String.eqb k k' then Some v else aget k t
  end.

Definition amem {V} (k : string) (l : list (string * V)) : bool :=
  match aget k l with Some _ => true | None => false end.

(** [d[k] = v]: replace in place when present, else append at the end. *)
Fixpoint aput {V} (k : string) (v : V) (l : list (string * V)) : list (string * V) :=
  match l with
  | [] => [(k, v)]
  | (k', v') :: t => if String.eqb k k' then (k', v) :: t else (k', v') :: aput k v t
  end.

Fixpoint smem (x : string) (l : list string) : bool :=
  match l with [] => false | y :: t => String.eqb x y || smem x t end.

(** duplicate-free list of the elements of [l], by first occurrence *)
Fixpoint sdedup_acc (seen : list string) (l : list string) : list string :=
  match l with
  | [] => []
  | x :: t => if smem x seen then sdedup_acc seen t else x :: sdedup_acc (x :: seen) t
  end.
Definition sdedup (l : list string) : list string := sdedup_acc [] l.

(* ------------------------------------------------------------------------------------------ *)
(** * The AST *)

(** [Tensor(name, indexes)] *)
Inductive tref : Type := TRef (name : string) (indexes : list string).

Definition t_name (t : tref) : string := match t with TRef n _ => n end.
Definition t_indexes (t : tref) : list string := match t with TRef _ i => i end.
Definition t_order (t : tref) : nat := length (t_indexes t).

(** [Float]'s payload is an abstract identifier of the numeric value (Python compares the
    floats numerically; two literals get the same identifier iff they compare equal). *)
Inductive expr : Type :=
  | EInteger (v : Z)
  | EFloat (v : Z)
  | ETensor (t : tref)
  | EAdd (l r : expr)
  | ESubtract (l r : expr)
  | EMultiply (l r : expr).

Record assignment : Type := Assignment { a_target : tref; a_expr : expr }.

(** every tensor reference of an expression, left to right *)
Fixpoint occurrences (e : expr) : list tref :=
  match e with
  | EInteger _ | EFloat _ => []
  | ETensor t => [t]
  | EAdd l r | ESubtract l r | EMultiply l r => occurrences l ++ occurrences r
  end.

(* ------------------------------------------------------------------------------------------ *)
(** * [Expression.variables()] : dict[str, list[Tensor]] *)

Definition vars_add (acc : list (string * list tref)) (kv : string * list tref)
  : list (string * list tref) :=
  match aget (fst kv) acc with
  | Some old => aput (fst kv) (old ++ snd kv) acc
  | None => aput (fst kv) (snd kv) acc
  end.

Definition vars_merge (l r : list (string * list tref)) : list (string * list tref) :=
  fold_left vars_add r l.

Fixpoint variables (e : expr) : list (string * list tref) :=
  match e with
  | EInteger _ | EFloat _ => []
  | ETensor t => [(t_name t, [t])]
  | EAdd l r | ESubtract l r | EMultiply l r => vars_merge (variables l) (variables r)
  end.

(* ------------------------------------------------------------------------------------------ *)
(** * [index_participants()] : dict[str, set[tuple[str, int]]] *)

Definition participant : Type := (string * nat)%type.

Definition participant_eqb (a b : participant) : bool :=
  String.eqb (fst a) (fst b) && Nat.eqb (snd a) (snd b).

Fixpoint pmem (x : participant) (l : list participant) : bool :=
  match l with [] => false | y :: t => participant_eqb x y || pmem x t end.

(** set union [a | b] on duplicate-free lists *)
Definition punion (a b : list participant) : list participant :=
  a ++ filter (fun x => negb (pmem x a)) b.

Definition ipmap : Type := list (string * list participant).

Definition aget_nil (k : string) (m : ipmap) : list participant :=
  match aget k m with Some v => v | None => [] end.

(** [Tensor.index_participants]: insertion order = first occurrence of each index name *)
Fixpoint tensor_ip (name : string) (idx : list string) (i : nat) (acc : ipmap) : ipmap :=
  match idx with
  | [] => acc
  | x :: t => tensor_ip name t (S i) (aput x (punion (aget_nil x acc) [(name, i)]) acc)
  end.

(** A position in the syntax tree: names the place where a set is iterated, so that the
    iteration-order oracle may answer differently at different places even on equal sets. *)
Definition path : Type := list bool.

Section IndexParticipants.
  (** Iteration order of a [set[str]] at a given place: an arbitrary function. The theorems
      assume only that it returns a permutation of its argument. *)
  Variable ord : path -> list string -> list string.

  (** [merge_index_participants]: the dict comprehension runs over the *set*
      [{*left.keys(), *right.keys()}] -- the key order of the result is the oracle's. *)
  Definition merge_ip (pth : path) (l r : ipmap) : ipmap :=
    map (fun k => (k, punion (aget_nil k l) (aget_nil k r)))
        (ord pth (sdedup (akeys l ++ akeys r))).

  Fixpoint index_participants (pth : path) (e : expr) : ipmap :=
    match e with
    | EInteger _ | EFloat _ => []
    | ETensor t => tensor_ip (t_name t) (t_indexes t) 0 []
    | EAdd l r | ESubtract l r | EMultiply l r =>
        merge_ip pth (index_participants (false :: pth) l) (index_participants (true :: pth) r)
    end.

  (** [Assignment.index_participants] *)
  Definition assignment_index_participants (a : assignment) : ipmap :=
    merge_ip []
      (tensor_ip (t_name (a_target a)) (t_indexes (a_target a)) 0 [])
      (index_participants [true] (a_expr a)).
End IndexParticipants.

(** the oracle that iterates every set in list order *)
Definition ord_id : path -> list string -> list string := fun _ l => l.

(* ------------------------------------------------------------------------------------------ *)
(** * [Assignment.__post_init__] and [variable_orders()] *)

Definition first_order (refs : list tref) : nat :=
  match refs with [] => 0 | t :: _ => t_order t end.

(** the dict stored in [_variable_orders] (target first, then variables by first appearance) *)
Definition variable_orders (a : assignment) : list (string * nat) :=
  (t_name (a_target a), t_order (a_target a))
    :: map (fun kv => (fst kv, first_order (snd kv))) (variables (a_expr a)).

Fixpoint check_variables (target : string) (vs : list (string * list tref)) : result unit :=
  match vs with
  | [] => Ok tt
  | (n, refs) :: rest =>
      if String.eqb n target then Error EMutatingAssignment
      else match refs with
           | [] => Error (EInternal "variables(): empty list")
           | first :: others =>
               if forallb (fun v => Nat.eqb (t_order first) (t_order v)) others
               then check_variables target rest
               else Error EInconsistentDimensions
           end
  end.

Definition all_index_names (a : assignment) : list string :=
  t_indexes (a_target a) ++ flat_map t_indexes (occurrences (a_expr a)).

(** The checks of [Assignment.__post_init__]; an [Assignment] object exists iff this is [Ok]. *)
Definition assignment_check (a : assignment) : result unit :=
  match check_variables (t_name (a_target a)) (variables (a_expr a)) with
  | Error e => Error e
  | Ok _ =>
      if existsb (fun i => smem i (akeys (variable_orders a))) (all_index_names a)
      then Error ENameConflict
      else Ok tt
  end.

(* ------------------------------------------------------------------------------------------ *)
(** * Decidable equality (dataclass [__eq__]) *)

Fixpoint slist_eqb (a b : list string) : bool :=
  match a, b with
  | [], [] => true
  | x :: a', y :: b' => String.eqb x y && slist_eqb a' b'
  | _, _ => false
  end.

Definition tref_eqb (a b : tref) : bool :=
  String.eqb (t_name a) (t_name b) && slist_eqb (t_indexes a) (t_indexes b).

Fixpoint expr_eqb (a b : expr) : bool :=
  match a, b with
  | EInteger x, EInteger y => Z.eqb x y
  | EFloat x, EFloat y => Z.eqb x y
  | ETensor s, ETensor t => tref_eqb s t
  | EAdd l r, EAdd l' r' => expr_eqb l l' && expr_eqb r r'
  | ESubtract l r, ESubtract l' r' => expr_eqb l l' && expr_eqb r r'
  | EMultiply l r, EMultiply l' r' => expr_eqb l l' && expr_eqb r r'
  | _, _ => false
  end.

Definition assignment_eqb (a b : assignment) : bool :=
  tref_eqb (a_target a) (a_target b) && expr_eqb (a_expr a) (a_expr b).
