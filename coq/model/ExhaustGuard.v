(** Hand model of iteration_graph/identifiable_expression/_exhaust_tensor.py and of the guard of
    _generate_ir.py::to_ir_terminal_expression (property C03's mechanism):

        if self.expression != Integer(0):  raise every enclosing written flag

    Expressions: identifiable-expression AST (literals, tensor occurrences with their id, Add,
    Multiply).  The zero PRODUCED by exhaustion is a separate constructor [IZero] in the model; Python
    cannot tell it from a source literal [Integer(0)], and neither does [exhaust]: both satisfy
    [is_izero] and are treated alike (an [IZero] is printed as Integer(0) in the correspondence).
    [exhaust] returns the new expression and whether it is the SAME OBJECT as its argument (Python's
    [is] test: "short circuit when there are no changes").

    Tied to the Python function by correspondence only (tools/props/C03.py, "exhaust" stream).
    No proofs here (proofs/SupportExhaust.v). *)

From Coq Require Import ZArith List Bool String.
Import ListNotations.
Open Scope Z_scope.

Inductive iexpr : Type :=
  | IZero                                   (* Integer(0) produced by exhaust_tensor *)
  | ILit (is_int : bool) (v : Z)            (* Integer(v) / Float(v) of the source *)
  | ITen (id : string)
  | IAdd (l r : iexpr)
  | IMul (l r : iexpr).

(** [e == Integer(0)] (dataclass equality: same class, same value; Float(0.0) is not Integer(0)) *)
Definition is_izero (e : iexpr) : bool :=
  match e with
  | IZero => true
  | ILit true 0 => true
  | _ => false
  end.

Fixpoint exhaust (ref : string) (e : iexpr) : iexpr * bool :=
  match e with
  | IZero => (e, true)
  | ILit _ _ => (e, true)
  | ITen id => if String.eqb id ref then (IZero, false) else (e, true)
  | IAdd l r =>
      let '(l', ul) := exhaust ref l in
      let '(r', ur) := exhaust ref r in
      if ul && ur then (e, true)
      else if is_izero l' then (r', false)
      else if is_izero r' then (l', false)
      else (IAdd l' r', false)
  | IMul l r =>
      let '(l', ul) := exhaust ref l in
      let '(r', ur) := exhaust ref r in
      if ul && ur then (e, true)
      else if is_izero l' || is_izero r' then (IZero, false)
      else (IMul l' r', false)
  end.

Definition exhaust_all (refs : list string) (e : iexpr) : iexpr :=
  fold_left (fun acc r => fst (exhaust r acc)) refs e.

(** the guard of the terminal node *)
Definition raises_flags (e : iexpr) : bool := negb (is_izero e).

(** boolean support of an expression: literals present, [IZero] absent *)
Fixpoint isupp (present : string -> bool) (e : iexpr) : bool :=
  match e with
  | IZero => false
  | ILit _ _ => true
  | ITen id => present id
  | IAdd l r => isupp present l || isupp present r
  | IMul l r => isupp present l && isupp present r
  end.

Fixpoint mem_id (k : string) (l : list string) : bool :=
  match l with [] => false | x :: r => String.eqb x k || mem_id k r end.

(** a source expression contains no [IZero] *)
Fixpoint zfree (e : iexpr) : bool :=
  match e with
  | IZero => false
  | ILit _ _ | ITen _ => true
  | IAdd l r | IMul l r => zfree l && zfree r
  end.
