(** C01 part C -- hand transcription of
      tensora/iteration_graph/identifiable_expression/ast.py
      tensora/iteration_graph/identifiable_expression/_exhaust_tensor.py
      tensora/iteration_graph/identifiable_expression/_extract_context.py
    (the algebra of the co-iteration lattice), tied to /repo by correspondence on generated
    expression trees (tools/props/C01.py, stage "exhaust").

    Python's identity tests ([left_exhausted is self.left]) are modelled by returning, beside the
    result, whether it is THE SAME OBJECT as the argument; [== Integer(0)] is dataclass equality
    (same class, equal value), so [Float(0.0)] is not [Integer(0)].  [Float(0.0) == Float(-0.0)]
    holds in Python; the payload type [R] of a float literal comes with the zero test
    [is_zero].  No proofs here. *)

From Coq Require Import ZArith List Bool String.
From TV Require Import spec.Spec.
Import ListNotations.
Open Scope Z_scope.

Inductive mode : Type := MDense | MCompressed.

Section Syntax.
Variable R : Type.
Variable is_zero : R -> bool.

Inductive iexpr : Type :=
  | IInt (z : Z)
  | IFloat (r : R)
  | ITensor (id name : string) (idx : list string) (modes : list mode)
  | IAdd (a b : iexpr)
  | IMul (a b : iexpr).

(** [e == Integer(0)] *)
Definition is_int0 (e : iexpr) : bool :=
  match e with
  | IInt z => z =? 0
  | _ => false
  end.

(** exhaust_tensor; the boolean is [result is self]. *)
Fixpoint exhaust_aux (e : iexpr) (t : string) : iexpr * bool :=
  match e with
  | IInt _ | IFloat _ => (e, true)
  | ITensor id _ _ _ => if String.eqb id t then (IInt 0, false) else (e, true)
  | IAdd a b =>
      let (a', sa) := exhaust_aux a t in
      let (b', sb) := exhaust_aux b t in
      if sa && sb then (e, true)
      else if is_int0 a' then (b', false)
      else if is_int0 b' then (a', false)
      else (IAdd a' b', false)
  | IMul a b =>
      let (a', sa) := exhaust_aux a t in
      let (b', sb) := exhaust_aux b t in
      if sa && sb then (e, true)
      else if is_int0 a' || is_int0 b' then (IInt 0, false)
      else (IMul a' b', false)
  end.

Definition exhaust (e : iexpr) (t : string) : iexpr := fst (exhaust_aux e t).

(** A [TensorLayer]: (tensor id, layer). *)
Definition leaf : Type := (string * nat)%type.

Record context : Type := mkContext {
  is_sparse : bool;
  sparse_leaves : list leaf;
  dense_leaves : list leaf
}.

Definition ctx_add (x y : context) : context :=
  mkContext (is_sparse x && is_sparse y)
            (sparse_leaves x ++ sparse_leaves y) (dense_leaves x ++ dense_leaves y).

Definition ctx_mul (x y : context) : context :=
  mkContext (is_sparse x || is_sparse y)
            (sparse_leaves x ++ sparse_leaves y) (dense_leaves x ++ dense_leaves y).

(** [tuple.index]: position of the first occurrence. *)
Fixpoint index_of_str (k : string) (l : list string) : option nat :=
  match l with
  | [] => None
  | x :: r => if String.eqb x k then Some O
              else match index_of_str k r with Some n => Some (S n) | None => None end
  end.

(** extract_context; [None] is the IndexError of [self.modes[layer]] on an ill-formed tensor
    (fewer modes than indexes). *)
Fixpoint extract_context (e : iexpr) (k : string) : option context :=
  match e with
  | IInt z => Some (mkContext (z =? 0) [] [])
  | IFloat r => Some (mkContext (is_zero r) [] [])
  | ITensor id _ idx modes =>
      match index_of_str k idx with
      | None => Some (mkContext false [] [])
      | Some l =>
          match nth_error modes l with
          | None => None
          | Some MDense => Some (mkContext false [] [(id, l)])
          | Some MCompressed => Some (mkContext true [(id, l)] [])
          end
      end
  | IAdd a b =>
      match extract_context a k, extract_context b k with
      | Some x, Some y => Some (ctx_add x y)
      | _, _ => None
      end
  | IMul a b =>
      match extract_context a k, extract_context b k with
      | Some x, Some y => Some (ctx_mul x y)
      | _, _ => None
      end
  end.

(** Ids of the tensor leaves of an expression. *)
Fixpoint tensor_ids (e : iexpr) : list string :=
  match e with
  | IInt _ | IFloat _ => []
  | ITensor id _ _ _ => [id]
  | IAdd a b | IMul a b => tensor_ids a ++ tensor_ids b
  end.

End Syntax.

Arguments IInt {R}.
Arguments IFloat {R}.
Arguments ITensor {R}.
Arguments IAdd {R}.
Arguments IMul {R}.
Arguments is_int0 {R}.
Arguments exhaust_aux {R}.
Arguments exhaust {R}.
Arguments extract_context {R}.
Arguments tensor_ids {R}.

(** * Value of an identifiable expression at the current coordinates: [sigma id] is what the
    leaf [id] reads there. *)
Section Eval.
Variable O : ringops.

Fixpoint evalE (sigma : string -> O) (e : iexpr O) : O :=
  match e with
  | IInt z => of_Z z
  | IFloat r => r
  | ITensor id _ _ _ => sigma id
  | IAdd a b => radd (evalE sigma a) (evalE sigma b)
  | IMul a b => rmul (evalE sigma a) (evalE sigma b)
  end.

(** The leaf [t] reads 0 (it is exhausted / absent at the current coordinate). *)
Definition zeroed (sigma : string -> O) (t : string) : string -> O :=
  fun i => if String.eqb i t then r0 else sigma i.

End Eval.

Arguments evalE {O}.
Arguments zeroed {O}.

(** * Decidable equalities for the correspondence files *)

Definition mode_eqb (a b : mode) : bool :=
  match a, b with MDense, MDense | MCompressed, MCompressed => true | _, _ => false end.

Fixpoint list_eqb {A} (eqb : A -> A -> bool) (a b : list A) : bool :=
  match a, b with
  | [], [] => true
  | x :: a', y :: b' => eqb x y && list_eqb eqb a' b'
  | _, _ => false
  end.

Fixpoint iexpr_eqb {R} (Reqb : R -> R -> bool) (a b : iexpr R) : bool :=
  match a, b with
  | IInt x, IInt y => x =? y
  | IFloat x, IFloat y => Reqb x y
  | ITensor i n idx ms, ITensor j m idy ns =>
      String.eqb i j && String.eqb n m && list_eqb String.eqb idx idy && list_eqb mode_eqb ms ns
  | IAdd a1 a2, IAdd b1 b2 => iexpr_eqb Reqb a1 b1 && iexpr_eqb Reqb a2 b2
  | IMul a1 a2, IMul b1 b2 => iexpr_eqb Reqb a1 b1 && iexpr_eqb Reqb a2 b2
  | _, _ => false
  end.

Definition leaf_eqb (a b : leaf) : bool := String.eqb (fst a) (fst b) && Nat.eqb (snd a) (snd b).

Definition context_eqb (a b : option context) : bool :=
  match a, b with
  | None, None => true
  | Some x, Some y =>
      Bool.eqb (is_sparse x) (is_sparse y)
      && list_eqb leaf_eqb (sparse_leaves x) (sparse_leaves y)
      && list_eqb leaf_eqb (dense_leaves x) (dense_leaves y)
  | _, _ => false
  end.

(** One correspondence case over float payload [Z] (the float literal f is sent as 2f, so that
    0.0 and -0.0 are both 0): the tree, Python's exhaust_tensor results (tree, `is self`) per
    reference, Python's extract_context results per index. *)
Definition exhaust_case_ok
    (c : iexpr Z * list (string * (iexpr Z * bool)) * list (string * option context)) : bool :=
  let '(e, ex, cx) := c in
  forallb (fun '(t, (r, same)) =>
             let '(r', same') := exhaust_aux e t in
             iexpr_eqb Z.eqb r' r && Bool.eqb same' same) ex
  && forallb (fun '(k, ctx) => context_eqb (extract_context (Z.eqb 0) e k) ctx) cx.

Fixpoint false_positions_from (n : nat) (l : list bool) : list nat :=
  match l with
  | [] => []
  | b :: r => if b then false_positions_from (S n) r else n :: false_positions_from (S n) r
  end.
Definition false_positions (l : list bool) : list nat := false_positions_from 0 l.
