(** Hand model of src/tensora/desugar/_desugar_expression.py (desugar_assignment, as repaired by
    /repo 51a0a5b: a contraction is hoisted over a sum only when every additive term of both
    sides carries the index; a product whose shared contraction index has no single place is
    distributed first) and
    src/tensora/desugar/_index_dimensions.py (index_dimensions).

    Python [set[str]] values are duplicate-free lists; every *iteration* of a set goes through
    an oracle giving the order ([ord] for the loops of this file, [ordi] for the sets iterated
    inside the index_participants() calls it makes).  Both oracles receive the place (a path in
    the syntax tree) and may answer differently at every place.  No proofs in this file. *)

From Coq Require Import String List ZArith Bool Arith.
From TV Require Import model.ExprAst.
Import ListNotations.

(** desugar/ast.py *)
Inductive dexpr : Type :=
  | DInteger (v : Z)
  | DFloat (v : Z)
  | DTensor (id : nat) (name : string) (indexes : list string)
  | DAdd (l r : dexpr)
  | DMultiply (l r : dexpr)
  | DContract (index : string) (e : dexpr).

Record dassignment : Type := DAssignment { d_target : dexpr; d_expr : dexpr }.

(** [a.intersection(b)], [a - b] on duplicate-free lists *)
Definition sinter (a b : list string) : list string := filter (fun x => smem x b) a.
Definition sdiff (a b : list string) : list string := filter (fun x => negb (smem x b)) a.

(** [for index in l: output = Contract(index, output)] -- the first one iterated is innermost *)
Definition wrap (l : list string) (e : dexpr) : dexpr :=
  fold_left (fun out i => DContract i out) l e.

(** [carried_by_every_term(self, index)]: every additive term of the expanded (sum of products)
    expression has the index *)
Fixpoint carried_by_every_term (e : expr) (index : string) : bool :=
  match e with
  | ETensor t => smem index (t_indexes t)
  | EAdd l r | ESubtract l r => carried_by_every_term l index && carried_by_every_term r index
  | EMultiply l r => carried_by_every_term l index || carried_by_every_term r index
  | EInteger _ | EFloat _ => false
  end.

(** the factors of an expanded term are leaves of the sugar tree *)
Inductive leaf : Type :=
  | LInteger (v : Z)
  | LFloat (v : Z)
  | LTensor (t : tref).

Definition leaf_indexes (f : leaf) : list string :=
  match f with LTensor t => t_indexes t | _ => [] end.

(** one term of the expansion: negated?, and its non-empty list of factors (first, rest) *)
Definition term : Type := (bool * (leaf * list leaf))%type.

Definition term_factors (t : term) : list leaf := fst (snd t) :: snd (snd t).

(** [additive_terms(self)]: the sum-of-products expansion, left to right *)
Fixpoint additive_terms (e : expr) : list term :=
  match e with
  | EInteger v => [(false, (LInteger v, []))]
  | EFloat v => [(false, (LFloat v, []))]
  | ETensor t => [(false, (LTensor t, []))]
  | EAdd l r => additive_terms l ++ additive_terms r
  | ESubtract l r =>
      additive_terms l ++ map (fun t : term => (negb (fst t), snd t)) (additive_terms r)
  | EMultiply l r =>
      flat_map (fun lt : term =>
        map (fun rt : term =>
               (xorb (fst lt) (fst rt),
                (fst (snd lt), snd (snd lt) ++ term_factors rt)))
            (additive_terms r))
        (additive_terms l)
  end.

(** [desugar_expression(factor, set(), ids)] for a leaf: nothing to contract, no set iterated *)
Definition desugar_leaf (f : leaf) (next : nat) : dexpr * nat :=
  match f with
  | LInteger v => (DInteger v, next)
  | LFloat v => (DFloat v, next)
  | LTensor t => (DTensor next (t_name t) (t_indexes t), S next)
  end.

(** [reduce(desugar.Multiply, [desugar_expression(factor, set(), ids) for factor in factors])] *)
Fixpoint multiply_factors (acc : dexpr) (fs : list leaf) (next : nat) : dexpr * nat :=
  match fs with
  | [] => (acc, next)
  | f :: rest => let '(d, n) := desugar_leaf f next in multiply_factors (DMultiply acc d) rest n
  end.

(** [output = term if output is None else Add(output, term)] over a list of terms.  The
    expansion is never empty (proofs/DesugarOrder.v, [additive_terms_nonempty]); the [[]] case
    stands for Python's [None] and is unreachable. *)
Definition sum_terms (ds : list dexpr) : dexpr :=
  match ds with
  | [] => DInteger 0
  | d :: rest => fold_left DAdd rest d
  end.

(** the place of the set iterated for the [k]-th term of a distributed product at [pth] *)
Definition term_site (pth : path) (k : nat) : path := repeat true k ++ false :: pth.

Section Desugar.
  Variable ord : path -> list string -> list string.
  Variable ordi : path -> path -> list string -> list string.

  (** [left_indexes], [right_indexes], [left_indexes.intersection(right_indexes)] *)
  Definition shared_indexes (pth : path) (l r : expr) (contract : list string)
    : list string * list string * list string :=
    let left_indexes := sinter (akeys (index_participants (ordi pth) (false :: pth) l)) contract in
    let right_indexes := sinter (akeys (index_participants (ordi pth) (true :: pth) r)) contract in
    (left_indexes, right_indexes, sinter left_indexes right_indexes).

  (** desugar_add / desugar_subtract: hoist only the indexes every term of both sides carries *)
  Definition contract_split_add (pth : path) (l r : expr) (contract : list string)
    : list string * list string * list string :=
    let '(left_indexes, right_indexes, shared) := shared_indexes pth l r contract in
    let intersection_indexes :=
      filter (fun i => carried_by_every_term l i && carried_by_every_term r i) shared in
    (sdiff left_indexes intersection_indexes, sdiff right_indexes intersection_indexes,
     intersection_indexes).

  (** desugar_multiply, when it does not distribute *)
  Definition contract_split_mul (pth : path) (l r : expr) (contract : list string)
    : list string * list string * list string :=
    let '(left_indexes, right_indexes, shared) := shared_indexes pth l r contract in
    (sdiff left_indexes shared, sdiff right_indexes shared, shared).

  (** [all(carried_by_every_term(left, i) or carried_by_every_term(right, i) for i in shared)] *)
  Definition product_has_a_place (pth : path) (l r : expr) (contract : list string) : bool :=
    let '(_, _, shared) := shared_indexes pth l r contract in
    forallb (fun i => carried_by_every_term l i || carried_by_every_term r i) shared.

  (** one round of the loop of desugar_distributed *)
  Definition desugar_term (site : path) (contract : list string) (t : term) (next : nat)
    : dexpr * nat :=
    let '(d0, n0) := desugar_leaf (fst (snd t)) next in
    let '(body, n1) := multiply_factors d0 (snd (snd t)) n0 in
    let term_indexes := sdedup (flat_map leaf_indexes (term_factors t)) in
    let contracted := wrap (ord site (sinter term_indexes contract)) body in
    (if fst t then DMultiply (DInteger (-1)) contracted else contracted, n1).

  Fixpoint desugar_terms (pth : path) (k : nat) (contract : list string) (ts : list term)
           (next : nat) : list dexpr * nat :=
    match ts with
    | [] => ([], next)
    | t :: rest =>
        let '(d, n) := desugar_term (term_site pth k) contract t next in
        let '(ds, n') := desugar_terms pth (S k) contract rest n in
        (d :: ds, n')
    end.

  (** [desugar_distributed(self, contract_indexes, ids)] *)
  Definition desugar_distributed (pth : path) (e : expr) (contract : list string) (next : nat)
    : dexpr * nat :=
    let '(ds, n) := desugar_terms pth 0 contract (additive_terms e) next in
    (sum_terms ds, n).

  (** [desugar_expression(self, contract_indexes, ids)]; [next] is the state of [ids = count()] *)
  Fixpoint desugar_expression (pth : path) (e : expr) (contract : list string) (next : nat)
    : dexpr * nat :=
    match e with
    | EInteger v => (DInteger v, next)
    | EFloat v => (DFloat v, next)
    | ETensor t => (wrap (ord pth contract) (DTensor next (t_name t) (t_indexes t)), S next)
    | EAdd l r =>
        let '(cl, cr, inter) := contract_split_add pth l r contract in
        let '(l', n1) := desugar_expression (false :: pth) l cl next in
        let '(r', n2) := desugar_expression (true :: pth) r cr n1 in
        (wrap (ord pth inter) (DAdd l' r'), n2)
    | ESubtract l r =>
        let '(cl, cr, inter) := contract_split_add pth l r contract in
        let '(l', n1) := desugar_expression (false :: pth) l cl next in
        let '(r', n2) := desugar_expression (true :: pth) r cr n1 in
        (wrap (ord pth inter) (DAdd l' (DMultiply (DInteger (-1)) r')), n2)
    | EMultiply l r =>
        if product_has_a_place pth l r contract then
          let '(cl, cr, inter) := contract_split_mul pth l r contract in
          let '(l', n1) := desugar_expression (false :: pth) l cl next in
          let '(r', n2) := desugar_expression (true :: pth) r cr n1 in
          (wrap (ord pth inter) (DMultiply l' r'), n2)
        else
          (* some term of each factor lacks a shared contraction index: distribute first *)
          desugar_distributed pth (EMultiply l r) contract next
    end.

  Definition desugar_assignment (a : assignment) : dassignment :=
    let target := DTensor 0 (t_name (a_target a)) (t_indexes (a_target a)) in
    let all_indexes := akeys (assignment_index_participants (ordi []) a) in
    let contract_indexes := sdiff all_indexes (t_indexes (a_target a)) in
    DAssignment target (fst (desugar_expression [true] (a_expr a) contract_indexes 1)).
End Desugar.

Definition ordi_id : path -> path -> list string -> list string := fun _ _ l => l.

(* ------------------------------------------------------------------------------------------ *)
(** * index_dimensions: for each index, the first (tensor, dimension) that carries it *)

Definition dims_map : Type := list (string * (string * nat)).

Fixpoint tensor_dims (name : string) (idx : list string) (i : nat) (acc : dims_map) : dims_map :=
  match idx with
  | [] => acc
  | x :: t => tensor_dims name t (S i) (if amem x acc then acc else acc ++ [(x, (name, i))])
  end.

(** [indexes = left.copy(); for k, v in right.items(): if k not in indexes: indexes[k] = v] *)
Definition dims_merge (l r : dims_map) : dims_map :=
  fold_left (fun acc kv => if amem (fst kv) acc then acc else acc ++ [kv]) r l.

Fixpoint index_dimensions_expression (e : dexpr) : dims_map :=
  match e with
  | DInteger _ | DFloat _ => []
  | DTensor _ n idx => tensor_dims n idx 0 []
  | DAdd l r | DMultiply l r => dims_merge (index_dimensions_expression l) (index_dimensions_expression r)
  | DContract _ e' => index_dimensions_expression e'
  end.

Definition index_dimensions (a : dassignment) : dims_map :=
  dims_merge (index_dimensions_expression (d_target a)) (index_dimensions_expression (d_expr a)).

(* ------------------------------------------------------------------------------------------ *)
(** * comparing desugared trees up to the nesting order of adjacent Contract nodes (executable) *)

(** the maximal chain of Contract nodes on top of [e], and what is below it *)
Fixpoint chain (e : dexpr) : list string * dexpr :=
  match e with
  | DContract i e' => let '(c, b) := chain e' in (i :: c, b)
  | _ => ([], e)
  end.

Fixpoint sremove (x : string) (l : list string) : option (list string) :=
  match l with
  | [] => None
  | y :: t => if String.eqb x y then Some t
              else match sremove x t with Some t' => Some (y :: t') | None => None end
  end.

(** [a] is a permutation of [b] *)
Fixpoint sperm (a b : list string) : bool :=
  match a with
  | [] => match b with [] => true | _ => false end
  | x :: a' => match sremove x b with Some b' => sperm a' b' | None => false end
  end.

Fixpoint dsize (e : dexpr) : nat :=
  match e with
  | DAdd l r | DMultiply l r => S (dsize l + dsize r)
  | DContract _ e' => S (dsize e')
  | _ => 1
  end.

Fixpoint cequivb_fuel (fuel : nat) (a b : dexpr) : bool :=
  match fuel with
  | 0 => false
  | S f =>
      let '(ca, ba) := chain a in
      let '(cb, bb) := chain b in
      sperm ca cb &&
      match ba, bb with
      | DInteger x, DInteger y => Z.eqb x y
      | DFloat x, DFloat y => Z.eqb x y
      | DTensor i n idx, DTensor i' n' idx' => Nat.eqb i i' && String.eqb n n' && slist_eqb idx idx'
      | DAdd l r, DAdd l' r' => cequivb_fuel f l l' && cequivb_fuel f r r'
      | DMultiply l r, DMultiply l' r' => cequivb_fuel f l l' && cequivb_fuel f r r'
      | _, _ => false
      end
  end.

Definition cequivb (a b : dexpr) : bool := cequivb_fuel (S (dsize a)) a b.

Definition dassignment_equivb (a b : dassignment) : bool :=
  cequivb (d_target a) (d_target b) && cequivb (d_expr a) (d_expr b).
