(** Hand model of src/tensora/desugar/_desugar_expression.py (desugar_assignment) and
    src/tensora/desugar/_index_dimensions.py (index_dimensions).

    Python [set[str]] values are duplicate-free lists; every *iteration* of a set goes through
    an oracle giving the order ([ord] for the loops of this file, [ordi] for the sets iterated
    inside the index_participants() calls it makes).  Both oracles receive the place (a path in
    the syntax tree) and may answer differently at every place.  No proofs in this file. *)

From Coq Require Import String List ZArith Bool Arith.
From TV Require Import model.ExprAst.
Import ListNotations.

(** desugar/ast.py *)
Inductive dexpr : Type :=
  | DInteger (v : Z)
  | DFloat (v : Z)
  | DTensor (id : nat) (name : string) (indexes : list string)
  | DAdd (l r : dexpr)
  | DMultiply (l r : dexpr)
  | DContract (index : string) (e : dexpr).

Record dassignment : Type := DAssignment { d_target : dexpr; d_expr : dexpr }.

(** [a.intersection(b)], [a - b] on duplicate-free lists *)
Definition sinter (a b : list string) : list string := filter (fun x => smem x b) a.
Definition sdiff (a b : list string) : list string := filter (fun x => negb (smem x b)) a.

(** [for index in l: output = Contract(index, output)] -- the first one iterated is innermost *)
Definition wrap (l : list string) (e : dexpr) : dexpr :=
  fold_left (fun out i => DContract i out) l e.

Section Desugar.
  Variable ord : path -> list string -> list string.
  Variable ordi : path -> path -> list string -> list string.

  (** the shared body of desugar_add / desugar_subtract / desugar_multiply *)
  Definition contract_split (pth : path) (l r : expr) (contract : list string)
    : list string * list string * list string :=
    let left_indexes := sinter (akeys (index_participants (ordi pth) (false :: pth) l)) contract in
    let right_indexes := sinter (akeys (index_participants (ordi pth) (true :: pth) r)) contract in
    let intersection_indexes := sinter left_indexes right_indexes in
    (sdiff left_indexes intersection_indexes, sdiff right_indexes intersection_indexes,
     intersection_indexes).

  (** [desugar_expression(self, contract_indexes, ids)]; [next] is the state of [ids = count()] *)
  Fixpoint desugar_expression (pth : path) (e : expr) (contract : list string) (next : nat)
    : dexpr * nat :=
    match e with
    | EInteger v => (DInteger v, next)
    | EFloat v => (DFloat v, next)
    | ETensor t => (wrap (ord pth contract) (DTensor next (t_name t) (t_indexes t)), S next)
    | EAdd l r =>
        let '(cl, cr, inter) := contract_split pth l r contract in
        let '(l', n1) := desugar_expression (false :: pth) l cl next in
        let '(r', n2) := desugar_expression (true :: pth) r cr n1 in
        (wrap (ord pth inter) (DAdd l' r'), n2)
    | ESubtract l r =>
        let '(cl, cr, inter) := contract_split pth l r contract in
        let '(l', n1) := desugar_expression (false :: pth) l cl next in
        let '(r', n2) := desugar_expression (true :: pth) r cr n1 in
        (wrap (ord pth inter) (DAdd l' (DMultiply (DInteger (-1)) r')), n2)
    | EMultiply l r =>
        let '(cl, cr, inter) := contract_split pth l r contract in
        let '(l', n1) := desugar_expression (false :: pth) l cl next in
        let '(r', n2) := desugar_expression (true :: pth) r cr n1 in
        (wrap (ord pth inter) (DMultiply l' r'), n2)
    end.

  Definition desugar_assignment (a : assignment) : dassignment :=
    let target := DTensor 0 (t_name (a_target a)) (t_indexes (a_target a)) in
    let all_indexes := akeys (assignment_index_participants (ordi []) a) in
    let contract_indexes := sdiff all_indexes (t_indexes (a_target a)) in
    DAssignment target (fst (desugar_expression [true] (a_expr a) contract_indexes 1)).
End Desugar.

Definition ordi_id : path -> path -> list string -> list string := fun _ _ l => l.

(* ------------------------------------------------------------------------------------------ *)
(** * index_dimensions: for each index, the first (tensor, dimension) that carries it *)

Definition dims_map : Type := list (string * (string * nat)).

Fixpoint tensor_dims (name : string) (idx : list string) (i : nat) (acc : dims_map) : dims_map :=
  match idx with
  | [] => acc
  | x :: t => tensor_dims name t (S i) (if amem x acc then acc else acc ++ [(x, (name, i))])
  end.

(** [indexes = left.copy(); for k, v in right.items(): if k not in indexes: indexes[k] = v] *)
Definition dims_merge (l r : dims_map) : dims_map :=
  fold_left (fun acc kv => if amem (fst kv) acc then acc else acc ++ [kv]) r l.

Fixpoint index_dimensions_expression (e : dexpr) : dims_map :=
  match e with
  | DInteger _ | DFloat _ => []
  | DTensor _ n idx => tensor_dims n idx 0 []
  | DAdd l r | DMultiply l r => dims_merge (index_dimensions_expression l) (index_dimensions_expression r)
  | DContract _ e' => index_dimensions_expression e'
  end.

Definition index_dimensions (a : dassignment) : dims_map :=
  dims_merge (index_dimensions_expression (d_target a)) (index_dimensions_expression (d_expr a)).

(* ------------------------------------------------------------------------------------------ *)
(** * comparing desugared trees up to the nesting order of adjacent Contract nodes (executable) *)

(** the maximal chain of Contract nodes on top of [e], and what is below it *)
Fixpoint chain (e : dexpr) : list string * dexpr :=
  match e with
  | DContract i e' => let '(c, b) := chain e' in (i :: c, b)
  | _ => ([], e)
  end.

Fixpoint sremove (x : string) (l : list string) : option (list string) :=
  match l with
  | [] => None
  | y :: t => if String.eqb x y then Some t
              else match sremove x t with Some t' => Some (y :: t') | None => None end
  end.

(** [a] is a permutation of [b] *)
Fixpoint sperm (a b : list string) : bool :=
  match a with
  | [] => match b with [] => true | _ => false end
  | x :: a' => match sremove x b with Some b' => sperm a' b' | None => false end
  end.

Fixpoint dsize (e : dexpr) : nat :=
  match e with
  | DAdd l r | DMultiply l r => S (dsize l + dsize r)
  | DContract _ e' => S (dsize e')
  | _ => 1
  end.

Fixpoint cequivb_fuel (fuel : nat) (a b : dexpr) : bool :=
  match fuel with
  | 0 => false
  | S f =>
      let '(ca, ba) := chain a in
      let '(cb, bb) := chain b in
      sperm ca cb &&
      match ba, bb with
      | DInteger x, DInteger y => Z.eqb x y
      | DFloat x, DFloat y => Z.eqb x y
      | DTensor i n idx, DTensor i' n' idx' => Nat.eqb i i' && String.eqb n n' && slist_eqb idx idx'
      | DAdd l r, DAdd l' r' => cequivb_fuel f l l' && cequivb_fuel f r r'
      | DMultiply l r, DMultiply l' r' => cequivb_fuel f l l' && cequivb_fuel f r r'
      | _, _ => false
      end
  end.

Definition cequivb (a b : dexpr) : bool := cequivb_fuel (S (dsize a)) a b.

Definition dassignment_equivb (a b : dassignment) : bool :=
  cequivb (d_target a) (d_target b) && cequivb (d_expr a) (d_expr b).
