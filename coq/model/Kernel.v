(** C01G -- the abstract kernel model G.

    [G] interprets an iteration graph (the type of model/DesugarSemGraph.v, dumped 1:1 from
    tensora/iteration_graph/iteration_graph.py) directly on STORED input tensors
    ([Storage.tensor Z]) and produces the output as a trie, which [encode] turns into pos / crd /
    vals exactly as the kernel emitted by tensora/iteration_graph/_generate_ir.py appends them.

    What is modelled (hand model, tied to /repo by the raw-array correspondence of
    tools/props/_c01_kernel.py on every run):

    - to_ir_iteration_variable: at [GIter k out next] the node is SPARSE iff its context at [k] is
      sparse and its output layer is absent or compressed.  The coordinates are [0 .. sizes k - 1]
      in increasing order; at coordinate [v] every sparse leaf of the context whose stored segment
      (under the coordinates already bound) lacks [v] is exhausted (exhaust_tensor), which is what
      the subnode / subsubnode lattice of [generate_subgraphs] selects; a sparse node runs its body
      at [v] only if the exhausted graph still has a sparse leaf at [k] (otherwise the kernel does
      not visit [v] at all or falls into the skipped last branch); a dense node runs it always.
      Exhausting is carried as the list [dead] of exhausted leaf ids, applied at the terminals, so
      the recursion is structural on the graph.
    - to_ir_terminal_expression: the value is the exhausted expression evaluated on the stored
      values; the written flags are raised unless the exhausted expression is literally
      [Integer 0] ([is_int0]).
    - AppendOutput: the next output layer must be the layer of the node; a dense layer keeps every
      child, a compressed layer keeps a child iff a flag was raised below it.  Anything else
      (contraction node, sum node, later layer) switches to BucketOutput, which needs every
      remaining layer dense (otherwise the generator raises NotImplementedError: [supported]);
      the bucket is zero-initialised and every terminal below ADDS at the raveled coordinates.
    - write_cleanup: pos / crd / vals of the kept nodes, level by level ([encode]); the scratch
      element(s) behind the last value are not part of the model.

    The third component of every result is a sanity bit: it is [false] when the model had to
    read something the real kernel could not have read meaningfully (a live leaf that cannot be
    located, an unknown tensor, an ill-formed leaf).  The theorems show it is [true] on accepted
    graphs; the correspondence checks it on every case.

    No proofs here (proofs/Kernel*.v). *)

From Coq Require Import ZArith List Bool String.
From TV Require Import spec.Storage spec.Spec model.Exhaust model.DesugarSemGraph.
Import ListNotations.
Local Open Scope Z_scope.

(** * Output tries *)

Inductive trie : Type :=
  | TLeaf (v : Z)
  | TNode (kids : list (Z * trie)).

Definition kids_of (t : trie) : list (Z * trie) :=
  match t with TNode l => l | TLeaf _ => [] end.

Definition leaf_of (t : trie) : Z :=
  match t with TLeaf v => v | TNode _ => 0 end.

(** running sums: [cum a [n1; n2; ...] = [a+n1; a+n1+n2; ...]] *)
Fixpoint cum (a : Z) (l : list Z) : list Z :=
  match l with
  | [] => []
  | n :: r => (a + n) :: cum (a + n) r
  end.

(** [nodes]: the nodes of one level in storage order. *)
Fixpoint enc_levels (ms : list mode) (nodes : list trie) : list level * list Z :=
  match ms with
  | [] => ([], map leaf_of nodes)
  | m :: r =>
      let kids := flat_map kids_of nodes in
      let (lv, vs) := enc_levels r (map snd kids) in
      match m with
      | MDense => (LDense :: lv, vs)
      | MCompressed =>
          (LCompressed (0 :: cum 0 (map (fun n => zlen (kids_of n)) nodes)) (map fst kids) :: lv, vs)
      end
  end.

(** * Locating coordinates in a stored tensor *)

Definition find_crd (crd : list Z) (c : Z) (qs : list Z) : option Z :=
  find (fun q => nthZ (-1) crd q =? c) qs.

(** follow level-order coordinates [cs] from position [p]; [None] when a coordinate is not stored *)
Fixpoint locate (lv : list (level * Z)) (cs : list Z) (p : Z) : option Z :=
  match lv, cs with
  | [], [] => Some p
  | (LDense, d) :: r, c :: cs' =>
      if (0 <=? c) && (c <? d) then locate r cs' (p * d + c) else None
  | (LCompressed pos crd, _) :: r, c :: cs' =>
      match find_crd crd c (zrange2 (nthZ 0 pos p) (nthZ 0 pos (p + 1))) with
      | Some q => locate r cs' q
      | None => None
      end
  | _, _ => None
  end.

Definition tlevels (t : tensor Z) : list (level * Z) := combine (levels t) (level_dims t).

(** coordinates stored by level [l] under the level-order prefix [cs] (length [l]);
    [None] when the prefix is not stored or the level is not compressed *)
Definition seg_coords (t : tensor Z) (l : nat) (cs : list Z) : option (list Z) :=
  match locate (firstn l (tlevels t)) cs 0 with
  | Some p =>
      match nth_error (levels t) l with
      | Some (LCompressed pos crd) => Some (segment pos crd p)
      | _ => None
      end
  | None => None
  end.

(** * Leaves of a graph: id -> (name, level-order indexes, modes) *)

Definition leafinfo : Type := (string * (string * list string * list mode))%type.

Fixpoint iexpr_leaves (e : iexpr Z) : list leafinfo :=
  match e with
  | IInt _ | IFloat _ => []
  | ITensor id n idx ms => [(id, (n, idx, ms))]
  | IAdd a b | IMul a b => iexpr_leaves a ++ iexpr_leaves b
  end.

Fixpoint graph_leaves (g : graph Z) : list leafinfo :=
  match g with
  | GTerminal e => iexpr_leaves e
  | GIter _ _ next => graph_leaves next
  | GSum ts => (fix go (l : list (graph Z)) : list leafinfo :=
                  match l with
                  | [] => []
                  | t :: r => graph_leaves t ++ go r
                  end) ts
  end.

(** * Configuration of one kernel *)

Record kcfg : Type := mkCfg {
  k_ins : list (string * tensor Z);       (* stored inputs by tensor name *)
  k_sizes : string -> Z;                  (* size of every index variable *)
  k_oidx : list string;                   (* output index names in LEVEL order *)
  k_omodes : list mode;                   (* output modes in level order *)
  k_oord : list nat;                      (* output mode ordering *)
  k_leaves : list leafinfo                (* [graph_leaves] of the whole graph *)
}.

Section Model.
Variable cfg : kcfg.

Definition exhaust_list (e : iexpr Z) (dead : list string) : iexpr Z :=
  fold_left (fun x t => exhaust x t) dead e.

(** context of (the exhausted) graph at index [k]; [None] = IndexError on an ill-formed leaf *)
Fixpoint gctx (dead : list string) (k : string) (g : graph Z) : option context :=
  match g with
  | GTerminal e => extract_context (Z.eqb 0) (exhaust_list e dead) k
  | GIter _ _ next => gctx dead k next
  | GSum ts =>
      (fix go (acc : context) (l : list (graph Z)) : option context :=
         match l with
         | [] => Some acc
         | t :: r =>
             match gctx dead k t with
             | Some c => go (ctx_add acc c) r
             | None => None
             end
         end) (mkContext true [] []) ts
  end.

Definition input_of (id : string) : option (tensor Z * list string) :=
  match lookup id (k_leaves cfg) with
  | Some (n, idx, _) =>
      match lookup n (k_ins cfg) with
      | Some t => Some (t, idx)
      | None => None
      end
  | None => None
  end.

(** the coordinates the sparse leaf [(id, l)] offers under the current bindings *)
Definition leaf_coords (rho : val) (lf : leaf) : option (list Z) :=
  match input_of (fst lf) with
  | Some (t, idx) => seg_coords t (snd lf) (map rho (firstn (snd lf) idx))
  | None => None
  end.

(** the value the leaf [id] reads at the current bindings *)
Definition leaf_value (rho : val) (id : string) : option Z :=
  match input_of id with
  | Some (t, idx) =>
      match locate (tlevels t) (map rho idx) 0 with
      | Some p => Some (nthZ 0 (vals t) p)
      | None => None
      end
  | None => None
  end.

Fixpoint eval_term (rho : val) (e : iexpr Z) : Z * bool :=
  match e with
  | IInt z => (z, true)
  | IFloat r => (r, true)
  | ITensor id _ _ _ =>
      match leaf_value rho id with
      | Some v => (v, true)
      | None => (0, false)
      end
  | IAdd a b =>
      let (x, oa) := eval_term rho a in
      let (y, ob) := eval_term rho b in (x + y, oa && ob)
  | IMul a b =>
      let (x, oa) := eval_term rho a in
      let (y, ob) := eval_term rho b in (x * y, oa && ob)
  end.

Definition zmem (v : Z) (l : list Z) : bool := existsb (Z.eqb v) l.

(** is the sparse leaf absent at coordinate [v]?  (second component: sanity) *)
Definition leaf_absent (rho : val) (v : Z) (lf : leaf) : bool * bool :=
  match leaf_coords rho lf with
  | Some cs => (negb (zmem v cs), true)
  | None => (true, false)
  end.

Definition absent_ids (rho : val) (v : Z) (sl : list leaf) : list string :=
  map fst (filter (fun lf => fst (leaf_absent rho v lf)) sl).

Definition leaves_ok (rho : val) (sl : list leaf) : bool :=
  forallb (fun lf => match leaf_coords rho lf with Some _ => true | None => false end) sl.

Definition out_sparse (out : option nat) : bool :=
  match out with
  | None => true
  | Some l => match nth_error (k_omodes cfg) l with Some MCompressed => true | _ => false end
  end.

Definition has_sparse_leaf (c : option context) : bool :=
  match c with
  | Some x => match sparse_leaves x with [] => false | _ => true end
  | None => false
  end.

(** the coordinates at which the body of [GIter k out next] runs, each with the exhausted set
    handed to the body; and the sanity bit *)
Definition visits (k : string) (out : option nat) (next : graph Z) (dead : list string) (rho : val)
  : list (Z * list string) * bool :=
  match gctx dead k next with
  | None => ([], false)
  | Some ctx =>
      let sparse := is_sparse ctx && out_sparse out in
      (flat_map (fun v =>
                   let dead_v := dead ++ absent_ids rho v (sparse_leaves ctx) in
                   if negb sparse || has_sparse_leaf (gctx dead_v k next)
                   then [(v, dead_v)] else [])
                (zrange (k_sizes cfg k)),
       leaves_ok rho (sparse_leaves ctx))
  end.

(** ** Bucket mode: the contributions (coordinates of the bucket layers, value) in execution
    order, the written flag, sanity.  [bidx]: index names of the bucket layers. *)

Definition bres : Type := (list (list Z * Z) * bool * bool)%type.

Definition bres_app (a b : bres) : bres :=
  let '(ca, fa, oa) := a in let '(cb, fb, ob) := b in (ca ++ cb, fa || fb, oa && ob).

Definition bres_nil : bres := ([], false, true).

Fixpoint Gb (bidx : list string) (g : graph Z) (dead : list string) (rho : val) {struct g} : bres :=
  match g with
  | GTerminal e =>
      let e' := exhaust_list e dead in
      let (v, o) := eval_term rho e' in
      ([(map rho bidx, v)], negb (is_int0 e'), o)
  | GIter k out next =>
      let (vs, o) := visits k out next dead rho in
      bres_app
        (fold_right (fun vd acc => bres_app (Gb bidx next (snd vd) (upd rho k (fst vd))) acc)
                    bres_nil vs)
        ([], false, o)
  | GSum ts =>
      (fix go (l : list (graph Z)) : bres :=
         match l with
         | [] => bres_nil
         | t :: r => bres_app (Gb bidx t dead rho) (go r)
         end) ts
  end.

(** a complete dense trie over the box [ds] *)
Fixpoint tabulate (ds : list Z) (f : list Z -> Z) : trie :=
  match ds with
  | [] => TLeaf (f [])
  | d :: r => TNode (map (fun i => (i, tabulate r (fun c => f (i :: c)))) (zrange d))
  end.

Definition bucket_trie (ds : list Z) (cs : list (list Z * Z)) : trie :=
  tabulate ds (fun c => abs_entries (O := ZOps) cs c).

(** ** Append mode: [l] is the next output layer *)

Definition ares : Type := (trie * bool * bool)%type.

Definition mode_is_dense (m : mode) : bool := match m with MDense => true | MCompressed => false end.

Definition enter_bucket (l : nat) (g : graph Z) (dead : list string) (rho : val) : ares :=
  let bidx := skipn l (k_oidx cfg) in
  let '(cs, f, o) := Gb bidx g dead rho in
  (bucket_trie (map (k_sizes cfg) bidx) cs, f, o).

Fixpoint Ga (g : graph Z) (l : nat) (dead : list string) (rho : val) {struct g} : ares :=
  match g with
  | GTerminal e =>
      if Nat.eqb l (List.length (k_omodes cfg)) then
        let e' := exhaust_list e dead in
        let (v, o) := eval_term rho e' in
        (TLeaf v, negb (is_int0 e'), o)
      else (TLeaf 0, false, false)
  | GIter k (Some l') next =>
      if Nat.eqb l' l then
        let (vs, o) := visits k (Some l') next dead rho in
        let kids := map (fun vd => (fst vd, Ga next (S l) (snd vd) (upd rho k (fst vd)))) vs in
        let kept := match nth_error (k_omodes cfg) l with
                    | Some MCompressed => filter (fun c => snd (fst (snd c))) kids
                    | _ => kids
                    end in
        (TNode (map (fun c => (fst c, fst (fst (snd c)))) kept),
         existsb (fun c => snd (fst (snd c))) kids,
         o && forallb (fun c => snd (snd c)) kids)
      else enter_bucket l g dead rho
  | _ => enter_bucket l g dead rho
  end.

(** the generator refuses (NotImplementedError in AppendOutput.next_output) when it must open a
    bucket while a compressed layer remains; a terminal reached with output layers left is the
    RuntimeError of write_assignment *)
Fixpoint supported (g : graph Z) (l : nat) : bool :=
  match g with
  | GTerminal _ => Nat.eqb l (List.length (k_omodes cfg))
  | GIter _ (Some l') next =>
      if Nat.eqb l' l then supported next (S l)
      else forallb mode_is_dense (skipn l (k_omodes cfg))
  | _ => forallb mode_is_dense (skipn l (k_omodes cfg))
  end.

Definition G (g : graph Z) : ares := Ga g 0 [] (fun _ => 0).

Definition odims : list Z :=
  map (fun d => k_sizes cfg (nth (index_of d (k_oord cfg)) (k_oidx cfg) EmptyString))
      (seq 0 (List.length (k_oord cfg))).

Definition encode (t : trie) : tensor Z :=
  let (lv, vs) := enc_levels (k_omodes cfg) [t] in
  mkTensor odims (k_oord cfg) lv vs.

End Model.

(** * Comparison with the raw arrays of a real kernel *)

Definition level_eqb (a b : level) : bool :=
  match a, b with
  | LDense, LDense => true
  | LCompressed p c, LCompressed p' c' => list_eqb Z.eqb p p' && list_eqb Z.eqb c c'
  | _, _ => false
  end.

(** the real output carries scratch values behind the last leaf position: only the model's
    leaf positions are compared, and the real array must be at least that long *)
Definition out_matches (model real : tensor Z) : bool :=
  list_eqb Z.eqb (dims model) (dims real)
  && list_eqb Nat.eqb (ordering model) (ordering real)
  && list_eqb level_eqb (levels model) (levels real)
  && list_eqb Z.eqb (vals model) (firstn (List.length (vals model)) (vals real)).

Definition structure_matches (model real : tensor Z) : bool :=
  list_eqb Z.eqb (dims model) (dims real)
  && list_eqb Nat.eqb (ordering model) (ordering real)
  && list_eqb level_eqb (levels model) (levels real)
  && (List.length (vals model) <=? List.length (vals real))%nat.

(** one correspondence case: graph, inputs, sizes, output description, the real kernel's raw
    output ([None] = the generator refused with NotImplementedError), compare values? *)
Record kcase : Type := mkCase {
  c_graph : graph Z;
  c_ins : list (string * tensor Z);
  c_sizes : list (string * Z);
  c_oidx : list string;
  c_omodes : list mode;
  c_oord : list nat;
  c_real : option (tensor Z);
  c_values : bool
}.

Definition cfg_of (c : kcase) : kcfg :=
  mkCfg (c_ins c) (sizes_of (c_sizes c)) (c_oidx c) (c_omodes c) (c_oord c) (graph_leaves (c_graph c)).

Definition model_out (c : kcase) : tensor Z * bool :=
  let cfg := cfg_of c in
  let '(t, _, o) := G cfg (c_graph c) in (encode cfg t, o).

Definition kcase_ok (c : kcase) : bool :=
  let cfg := cfg_of c in
  match c_real c with
  | None => negb (supported cfg (c_graph c) 0)
  | Some real =>
      supported cfg (c_graph c) 0 &&
      let (m, o) := model_out c in
      o && (if c_values c then out_matches m real else structure_matches m real)
  end.
