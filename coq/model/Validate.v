(** Hand model of src/tensora/compile/_tensor_method.py (TensorMethod.__init__ checks and
    TensorMethod.__call__ argument validation) and of the evaluate entry points of
    src/tensora/compile/_porcelain.py.  No proofs in this file. *)

From Coq Require Import String List ZArith Bool Arith.
From TV Require Import model.ExprAst model.Problem.
Import ListNotations.

(* ------------------------------------------------------------------------------------------ *)
(** * Arguments *)

(** What the caller hands in for one parameter.  A real [Tensor] has
    [length modes = length ordering = length dims = order] ([arg_wf]). *)
Inductive argument : Type :=
  | ATensor (order : nat) (modes : list mode) (ordering : list nat) (dims : list Z)
  | ANotTensor.

Definition arg_wf (a : argument) : bool :=
  match a with
  | ATensor o m r d => Nat.eqb (length m) o && Nat.eqb (length r) o && Nat.eqb (length d) o
  | ANotTensor => true
  end.

Definition arg_dims (a : argument) : list Z :=
  match a with ATensor _ _ _ d => d | ANotTensor => [] end.

(** [f(positional..., keywords...)] *)
Record call_args : Type := CallArgs { positional : list argument; keywords : list (string * argument) }.

(* ------------------------------------------------------------------------------------------ *)
(** * [TensorMethod.__init__] *)

Definition output_name (p : problem) : string := t_name (a_target (p_assignment p)).

(** [self._input_formats]: the formats other than the output's, in the order of [problem.formats] *)
Definition input_formats (p : problem) : list (string * format) :=
  filter (fun kv => negb (String.eqb (fst kv) (output_name p))) (p_formats p).

Definition input_names (p : problem) : list string := akeys (input_formats p).

Fixpoint has_dup (l : list string) : bool :=
  match l with [] => false | x :: t => smem x t || has_dup t end.

Fixpoint first_not_in (xs : list string) (ys : list string) : option string :=
  match xs with
  | [] => None
  | x :: t => if smem x ys then first_not_in t ys else Some x
  end.

Section Oracles.
  (** iteration order of a [set[str]] / of a [set[tuple[str,int]]] at a place *)
  Variable ord : path -> list string -> list string.
  Variable ordp : string -> list participant -> list participant.

  (** The broadcast check of [__init__]: every target index is a key of the right-hand side's
      [index_participants()].  (Code generation, which may still refuse with DiagonalAccessError
      or NoKernelFoundError, is not part of this model.) *)
  Definition tm_init (p : problem) : result unit :=
    let input_indexes := akeys (index_participants ord [] (a_expr (p_assignment p))) in
    match first_not_in (t_indexes (a_target (p_assignment p))) input_indexes with
    | Some i => Error (EBroadcastTargetIndex i)
    | None =>
        match aget (output_name p) (p_formats p) with
        | Some _ => Ok tt
        | None => Error (EInternal "KeyError: output format")
        end
    end.

  (* ---------------------------------------------------------------------------------------- *)
  (** * [TensorMethod.__call__] *)

  (** [self.signature.bind(args, kwargs).arguments]: every parameter is keyword-only.
      A keyword given twice is refused by the interpreter with the same exception class.
      The result lists the parameters in signature order. *)
  Definition bind (params : list string) (c : call_args) : result (list (string * argument)) :=
    match positional c with
    | _ :: _ => Error ETypeErrorBind
    | [] =>
        if has_dup (akeys (keywords c)) then Error ETypeErrorBind
        else
          match first_not_in (akeys (keywords c)) params with
          | Some _ => Error ETypeErrorBind
          | None =>
              match first_not_in params (akeys (keywords c)) with
              | Some _ => Error ETypeErrorBind
              | None =>
                  Ok (map (fun n => (n, match aget n (keywords c) with
                                        | Some a => a
                                        | None => ANotTensor (* unreachable: n is a keyword *)
                                        end)) params)
              end
          end
    end.

  (** the per-argument loop: isinstance, order, modes, ordering -- in that order *)
  Definition check_argument (name : string) (a : argument) (f : format) : result unit :=
    match a with
    | ANotTensor => Error (ETypeErrorNotTensor name)
    | ATensor o m r _ =>
        if negb (Nat.eqb o (f_order f)) then Error (EValueErrorOrder name)
        else if negb (modes_eqb m (f_modes f)) then Error (EValueErrorModes name)
        else if negb (nats_eqb r (f_ordering f)) then Error (EValueErrorOrdering name)
        else Ok tt
    end.

  (** [zip(bound.keys(), bound.values(), formats.values(), strict=True)] *)
  Fixpoint check_arguments (bound : list (string * argument)) (fs : list (string * format))
    : result unit :=
    match bound, fs with
    | [], [] => Ok tt
    | (n, a) :: bt, (_, f) :: ft =>
        match check_argument n a f with
        | Ok _ => check_arguments bt ft
        | Error e => Error e
        end
    | _, _ => Error (EInternal "zip strict: length mismatch")
    end.

  (** [bound_arguments[variable].dimensions[dimension]] *)
  Definition size_of (bound : list (string * argument)) (pt : participant) : option Z :=
    match aget (fst pt) bound with
    | Some a => nth_error (arg_dims a) (snd pt)
    | None => None
    end.

  Fixpoint all_some (l : list (option Z)) : option (list Z) :=
    match l with
    | [] => Some []
    | Some x :: t => match all_some t with Some r => Some (x :: r) | None => None end
    | None :: _ => None
    end.

  (** one round of the "Validate dimensions" loop: the sizes of all participants of one index,
      in the set's iteration order; the first is the reference; the others must equal it *)
  Definition check_index (bound : list (string * argument)) (index : string)
             (participants : list participant) : result Z :=
    match all_some (map (size_of bound) (ordp index participants)) with
    | None => Error (EInternal "KeyError/IndexError: participant lookup")
    | Some [] => Error (EInternal "IndexError: no participant")
    | Some (reference :: others) =>
        if forallb (fun s => Z.eqb s reference) others then Ok reference
        else Error EValueErrorDimensions
    end.

  Fixpoint check_indexes (bound : list (string * argument)) (ip : ipmap)
    : result (list (string * Z)) :=
    match ip with
    | [] => Ok []
    | (index, participants) :: rest =>
        match check_index bound index participants with
        | Error e => Error e
        | Ok s =>
            match check_indexes bound rest with
            | Error e => Error e
            | Ok sizes => Ok ((index, s) :: sizes)
            end
        end
    end.

  (** [tuple(index_sizes[index] for index in target.indexes)] *)
  Fixpoint output_dimensions (sizes : list (string * Z)) (target : list string) : result (list Z) :=
    match target with
    | [] => Ok []
    | i :: t =>
        match aget i sizes with
        | None => Error (EInternal "KeyError: index_sizes")
        | Some s =>
            match output_dimensions sizes t with
            | Ok r => Ok (s :: r)
            | Error e => Error e
            end
        end
    end.

  (** Everything [__call__] does before it touches the kernel; [Ok dims] = the dimensions the
      output tensor is allocated with. *)
  Definition validate (p : problem) (c : call_args) : result (list Z) :=
    match bind (input_names p) c with
    | Error e => Error e
    | Ok bound =>
        match check_arguments bound (input_formats p) with
        | Error e => Error e
        | Ok _ =>
            match check_indexes bound (index_participants ord [] (a_expr (p_assignment p))) with
            | Error e => Error e
            | Ok sizes => output_dimensions sizes (t_indexes (a_target (p_assignment p)))
            end
        end
    end.

  Inductive outcome : Type :=
    | KernelEntered (output_dims : list Z)
    | Refused (e : error).

  (** [__call__]: the compiled function is called after, and only after, every check passed *)
  Definition call (p : problem) (c : call_args) : outcome :=
    match validate p c with
    | Ok d => KernelEntered d
    | Error e => Refused e
    end.

  (* ---------------------------------------------------------------------------------------- *)
  (** * [tensor_method(...)(inputs)] and [evaluate(assignment, output_format, inputs)] *)

  (** [tensor_method] : make_problem, then the (cached) TensorMethod *)
  Definition tensor_method_call (a : assignment) (formats : list (string * format))
             (c : call_args) : outcome :=
    match assignment_check a with
    | Error e => Refused e
    | Ok _ =>
        match make_problem a formats with
        | Error e => Refused e
        | Ok p =>
            match tm_init p with
            | Error e => Refused e
            | Ok _ => call p c
            end
        end
    end.

  (** [for name, tensor in inputs.items(): if not isinstance(tensor, Tensor): raise TypeError]
      then [{name: tensor.format for name, tensor in inputs.items()}] *)
  Fixpoint formats_of_inputs (inputs : list (string * argument)) : result (list (string * format)) :=
    match inputs with
    | [] => Ok []
    | (n, ANotTensor) :: _ => Error (ETypeErrorNotTensor n)
    | (n, ATensor _ m r _) :: t =>
        match formats_of_inputs t with
        | Ok fs => Ok ((n, Format m r) :: fs)
        | Error e => Error e
        end
    end.

  (** [{target: output_format} | input_formats] *)
  Definition dict_union (a b : list (string * format)) : list (string * format) :=
    fold_left (fun acc kv => aput (fst kv) (snd kv) acc) b a.

  Definition evaluate (a : assignment) (output_format : format) (inputs : list (string * argument))
    : outcome :=
    match assignment_check a with
    | Error e => Refused e
    | Ok _ =>
        match formats_of_inputs inputs with
        | Error e => Refused e
        | Ok input_fs =>
            match make_problem a (dict_union [(t_name (a_target a), output_format)] input_fs) with
            | Error e => Refused e
            | Ok p =>
                match tm_init p with
                | Error e => Refused e
                | Ok _ => call p (CallArgs [] inputs)
                end
            end
        end
    end.
End Oracles.

Definition ordp_id : string -> list participant -> list participant := fun _ l => l.
