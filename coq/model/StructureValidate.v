(** Hand transcription of the checks of
    /repo/src/tensora/compile/_cffi_ownership.py::taco_structure_to_cffi (including those of
    allocate_taco_structure, which it calls first), in the order in which the Python code performs
    them.  This is the contract that a user-supplied structure (and therefore a kernel output that is
    pickled, or re-used as an input) has to meet.

    The arguments are the RAW Python arguments, so ill-formed shapes can be expressed:
      indices : list[list[list[int]]], len(vals), mode_types, dimensions, mode_ordering.
    Integers are assumed to fit int32 (cffi would raise OverflowError otherwise; the correspondence
    generator stays inside that range).

    Tied to the Python function by correspondence only (tools/props/C02.py, "validate" stream). *)

From Coq Require Import ZArith List Bool Lia.
From TV Require Import spec.Storage.
Import ListNotations.
Open Scope Z_scope.

Record raw : Type := mkRaw {
  r_modes : list Z;                 (* mode_types: 0 dense, 1 compressed *)
  r_dims : list Z;                  (* dimensions *)
  r_ordering : list Z;              (* mode_ordering *)
  r_indices : list (list (list Z)); (* indices *)
  r_nvals : Z                       (* len(vals) *)
}.

(** One constructor per [raise ValueError] site, in source order; level-indexed ones carry the
    level. *)
Inductive verr : Type :=
  | VOk
  | ELengths           (* "Must all be the same length" *)
  | EModeType          (* "mode_types must only contain elements 0 or 1" *)
  | ENegDim            (* "All values in dimensions must be positive" *)
  | EOrdering          (* "mode_ordering must contain each number ..." *)
  | EIndicesLen        (* "Length of indices ... must be equal" *)
  | EDenseNonEmpty (l : Z)   (* "Level l is a dense mode and therefore expects ... empty" *)
  | ECompressedLen (l : Z)   (* "Level l is a compressed mode ... length 2" *)
  | EPosLen (l : Z)          (* "The pos array of level l ... must have length" *)
  | EPosFirst (l : Z)        (* "The first element of the pos array of level l must be 0" *)
  | EPosMono (l : Z)         (* "... must be weakly monotonically increasing" *)
  | ECrdLen (l : Z)          (* "The crd array of level l ... must have length" *)
  | ECrdRange (l : Z)        (* "All values in the crd array of level l ..." *)
  | EValsLen.          (* "Length of vals must be equal to the number of indexes" *)

Inductive vres : Type := VErr (e : verr) | VNnz (n : Z).

(** [set(mode_ordering) == set(range(n))] *)
Definition ordering_okb (n : Z) (ord : list Z) : bool :=
  forallb (fun x => (0 <=? x) && (x <? n)) ord
  && forallb (fun k => existsb (Z.eqb k) ord) (zrange n).

(** The [for i_level in range(order)] loop; each element is
    ((mode_types[i], indices[i]), dimensions[mode_ordering[i]]). *)
Fixpoint validate_levels (lv : list ((Z * list (list Z)) * Z)) (i : Z) (nnz : Z) : vres :=
  match lv with
  | [] => VNnz nnz
  | ((m, idx), d) :: r =>
      if m =? 0 then
        match idx with
        | [] => validate_levels r (i + 1) (nnz * d)
        | _ => VErr (EDenseNonEmpty i)
        end
      else (* m = 1: checked before *)
        match idx with
        | [pos; crd] =>
            if negb (zlen pos =? nnz + 1) then VErr (EPosLen i)
            else if negb (nthZ 0 pos 0 =? 0) then VErr (EPosFirst i)
            else if negb (weakly_increasing pos) then VErr (EPosMono i)
            else if negb (zlen crd =? nthZ 0 pos (zlen pos - 1)) then VErr (ECrdLen i)
            else if negb (forallb (fun x => (0 <=? x) && (x <? d)) crd) then VErr (ECrdRange i)
            else validate_levels r (i + 1) (zlen crd)
        | _ => VErr (ECompressedLen i)
        end
  end.

Definition validate (r : raw) : verr :=
  let n := zlen (r_modes r) in
  if negb ((n =? zlen (r_dims r)) && (zlen (r_dims r) =? zlen (r_ordering r))) then ELengths
  else if negb (forallb (fun m => (m =? 0) || (m =? 1)) (r_modes r)) then EModeType
  else if negb (forallb (fun d => 0 <=? d) (r_dims r)) then ENegDim
  else if negb (ordering_okb n (r_ordering r)) then EOrdering
  else if negb (zlen (r_indices r) =? n) then EIndicesLen
  else
    match validate_levels
            (combine (combine (r_modes r) (r_indices r))
                     (map (fun o => nthZ 0 (r_dims r) o) (r_ordering r))) 0 1 with
    | VErr e => e
    | VNnz nnz => if r_nvals r =? nnz then VOk else EValsLen
    end.

(** The Python arguments that describe a [Storage.tensor] (what [Tensor.__getstate__] produces). *)
Definition mode_of (l : level) : Z := match l with LDense => 0 | LCompressed _ _ => 1 end.
Definition indices_of (l : level) : list (list Z) :=
  match l with LDense => [] | LCompressed pos crd => [pos; crd] end.

Definition to_raw {V} (t : tensor V) : raw :=
  mkRaw (map mode_of (levels t)) (dims t) (map Z.of_nat (ordering t)) (map indices_of (levels t))
        (zlen (vals t)).
