(** C12 -- hand model of tensora's format parser and printer (character level).

    Models  src/tensora/format/_parser.py  (FormatParsers, parse_format, parse_named_format)
            src/tensora/format/_format.py  (Format.__post_init__, Format.deparse).

    The format grammar has NO whitespace skipping (ParserContext without a whitespace argument).
      format = rep(mode) | rep(mode integer)       longest alternative, first on a tie
    Both alternatives are always run, and [Format(...)] is constructed (hence validated) inside
    each alternative, before end-of-input is checked: "d1d" is an InvalidModeOrderingError, not a
    ParseError.

    No proofs in this file. *)

From Coq Require Import String Ascii List NArith Bool Arith.
From TV Require Import model.Parser.
Import ListNotations.

Inductive mode : Type := MDense | MCompressed.

Record format : Type := Format { modes : list mode; ordering : list N }.

Definition mode_eq_dec (a b : mode) : {a = b} + {a <> b}.
Proof. decide equality. Defined.

Definition format_eq_dec (a b : format) : {a = b} + {a <> b}.
Proof. decide equality; [apply (list_eq_dec N.eq_dec) | apply (list_eq_dec mode_eq_dec)]. Defined.

Definition mode_of_char (c : ascii) : option mode :=
  if Ascii.eqb c "d" then Some MDense
  else if Ascii.eqb c "s" then Some MCompressed
  else None.

Definition mode_char (m : mode) : ascii :=
  match m with MDense => "d"%char | MCompressed => "s"%char end.

(** tuple(range(n)) *)
Definition range (n : nat) : list N := map N.of_nat (seq 0 n).

(** Format.__post_init__:  set(ordering) == set(range(len(modes))) *)
Definition check_ordering (nmodes : nat) (ord : list N) : bool :=
  forallb (fun o => (o <? N.of_nat nmodes)%N) ord
  && forallb (fun k => existsb (N.eqb k) ord) (range nmodes).

(** rep(mode) *)
Fixpoint rep_modes (s : list ascii) : list mode * list ascii :=
  match s with
  | c :: r =>
      match mode_of_char c with
      | Some m => let (ms, r') := rep_modes r in (m :: ms, r')
      | None => ([], s)
      end
  | [] => ([], [])
  end.

(** rep(mode & integer); a mode that is not followed by a digit is not consumed.
    [None] = out of fuel. *)
Fixpoint rep_pairs (n : nat) (s : list ascii) : option (list (mode * N) * list ascii) :=
  match n with
  | O => None
  | S n' =>
      match s with
      | c :: d :: r =>
          match mode_of_char c with
          | Some m =>
              if is_digit d then
                let (ds, r') := take_while is_digit (d :: r) in
                match rep_pairs n' r' with
                | Some (ps, r'') => Some ((m, digits_val ds) :: ps, r'')
                | None => None
                end
              else Some ([], s)
          | None => Some ([], s)
          end
      | _ => Some ([], s)
      end
  end.

Inductive fres (A : Type) : Type :=
  | FOk (f : A)
  | FSyntax          (* parsita ParseError *)
  | FInvalid         (* InvalidModeOrderingError *)
  | FFuel.           (* model out of fuel; excluded by the theorems *)
Arguments FOk {A} f.
Arguments FSyntax {A}.
Arguments FInvalid {A}.
Arguments FFuel {A}.

(** the [format] parser followed by end of input *)
Definition parse_format_chars (s : list ascii) : fres format :=
  match rep_pairs (S (length s)) s with
  | None => FFuel
  | Some ([], _) =>
      (* format_with_orderings matched nothing: Format((), ()) is valid; the result is
         format_without_orderings (at least as long; first on a tie) *)
      let (ms, r0) := rep_modes s in
      match r0 with
      | [] => FOk (Format ms (range (length ms)))
      | _ => FSyntax
      end
  | Some (ps, r1) =>
      (* at least one pair: format_with_orderings is strictly longer than the single mode
         format_without_orderings can take; its Format(...) is constructed first *)
      let ms := map fst ps in
      let ord := map snd ps in
      if check_ordering (length ms) ord then
        match r1 with
        | [] => FOk (Format ms ord)
        | _ => FSyntax
        end
      else FInvalid
  end.

Definition parse_format (s : string) : fres format := parse_format_chars (list_ascii_of_string s).

(** variable = [a-zA-Z_][a-zA-Z0-9_]* *)
Definition is_var_start (c : ascii) : bool := is_alpha c || Ascii.eqb c "_".
Definition is_var_char (c : ascii) : bool := is_alnum c || Ascii.eqb c "_".

Definition parse_named_format_chars (s : list ascii) : fres (string * format) :=
  match s with
  | c :: _ =>
      if is_var_start c then
        let (nm, r) := take_while is_var_char s in
        match r with
        | ":"%char :: r' =>
            match parse_format_chars r' with
            | FOk f => FOk (string_of_list_ascii nm, f)
            | FSyntax => FSyntax
            | FInvalid => FInvalid
            | FFuel => FFuel
            end
        | _ => FSyntax
        end
      else FSyntax
  | [] => FSyntax
  end.

Definition parse_named_format (s : string) : fres (string * format) :=
  parse_named_format_chars (list_ascii_of_string s).

(** Format.deparse.  [None] = the ValueError of zip(strict=True), only reachable for a directly
    constructed Format whose two tuples differ in length. *)
Definition list_N_eqb (a b : list N) : bool := if list_eq_dec N.eq_dec a b then true else false.

Definition deparse_format (f : format) : option (list ascii) :=
  if list_N_eqb (ordering f) (range (length (modes f))) then Some (map mode_char (modes f))
  else if Nat.eqb (length (modes f)) (length (ordering f)) then
    Some (flat_map (fun p => mode_char (fst p) :: show_N (snd p)) (combine (modes f) (ordering f)))
  else None.

(** what a Format object must satisfy to exist at all (constructor check) *)
Definition format_constructible (f : format) : bool :=
  check_ordering (length (modes f)) (ordering f).

(** formats the parsers can return *)
Definition wf_format (f : format) : bool :=
  Nat.eqb (length (modes f)) (length (ordering f)) && format_constructible f.

(* helpers for the correspondence files *)
Definition fres_format_eqb (a b : fres format) : bool :=
  match a, b with
  | FOk x, FOk y => if format_eq_dec x y then true else false
  | FSyntax, FSyntax | FInvalid, FInvalid | FFuel, FFuel => true
  | _, _ => false
  end.

Definition fres_named_eqb (a b : fres (string * format)) : bool :=
  match a, b with
  | FOk (n1, x), FOk (n2, y) => String.eqb n1 n2 && (if format_eq_dec x y then true else false)
  | FSyntax, FSyntax | FInvalid, FInvalid | FFuel, FFuel => true
  | _, _ => false
  end.

Definition ostring_eqb (a : option (list ascii)) (b : string) : bool :=
  match a with Some l => String.eqb (string_of_list_ascii l) b | None => false end.
