(* TIE "concurrency" — the fixed, hand-written half: a small Python abstract syntax (what the translator
   tools/py2coq/extra_concurrency.py dumps, statement for statement, into gen/ConcurrencyGen.v) and its EFFECT
   SEMANTICS: an abstract interpreter that follows one call of evaluate_* / tensor_method(...)(...) through
   compile/_porcelain.py, _tensor_method.py, _compile_cffi.py, _compile_llvm.py and records, in program order,
   every operation on state that other threads can see:

     cache look-up / insert of an lru_cache'd function   (one atomic C-level operation each: MODELLED)
     acquire / release of a module-level threading.Lock  (`with lock:`, released on every exit)
     FFI.compile, FFI.dlopen, MCJIT finalize_object       (the compilers: MODELLED)
     allocate_taco_structure / take_ownership_of_arrays   (global_weakkeydict[own structure]; their bodies are
                                                           the TIE target "ownership")
     the call of the compiled kernel
     reads and writes of attributes of the TensorMethod object (object under construction / published)
     reads and writes of module-level objects

   Values are abstract: WHERE an object lives (made by this call, the caller's arguments, the object under
   construction, reachable from the cached method object, a module global) — the identity component — and
   what it may contain — the content component.  Everything the interpreter does not know is LStuck
   (fail closed: every theorem of proofs/GenConcurrency_equiv.v excludes it).

   No proofs here. *)
From Coq Require Import List String Ascii Bool Arith PeanoNat.
From TV Require Import model.Concurrency.
Import ListNotations.
Open Scope string_scope.
Open Scope list_scope.
Notation "a +++ b" := (String.append a b) (at level 60, right associativity).

(* ------------------------------------------------------------------------------------------------ syntax *)

Inductive expr :=
| EName (x : string)
| EConst (r : string)                                (* literal (its repr) *)
| EAttr (e : expr) (a : string)
| ECall (f : expr) (args : list (string * expr))     (* tag "" positional, "*" starred, "**" double-starred, "=k" keyword k *)
| ESub (e i : expr)
| EMk (kind : string) (parts : list expr)            (* a NEW object computed from the parts (evaluated left to right):
                                                        displays, f-strings, operators, slices *)
| EComp (kind : string) (elts : list expr) (gens : list (expr * expr * list expr)).  (* comprehension: (target, iter, ifs) *)

Inductive pat := PValue (e : expr) | PClass (cls : expr) (caps : list string) | PWild.

Inductive stmt :=
| SAssign (targets : list expr) (v : expr)
| SExpr (e : expr)
| SIf (c : expr) (a b : list stmt)
| SFor (t it : expr) (body : list stmt)
| SWith (ctx : expr) (asname : string) (body : list stmt)
| SMatch (subj : expr) (cases : list (pat * list stmt))
| SRaise (e : expr)
| SReturn (e : expr)
| SImport (name modl orig : string)
| SPass.

Record fundef := { f_decorators : list expr; f_params : list (string * option expr);
                   f_vararg : string; f_kwarg : string; f_body : list stmt }.

Record pymodule := { m_name : string;
                     m_imports : list (string * (string * string));   (* local name -> (module, original name; "" = the module itself) *)
                     m_assigns : list (string * expr);                (* module-level `x = e` *)
                     m_funs : list (string * fundef);
                     m_classes : list (string * list (string * fundef)) }.

Definition program := list pymodule.

(* ------------------------------------------------------------------------------------------------ values *)

Inductive prov :=
| PFresh                       (* made during this call by this thread (or an immutable scalar) *)
| PArg                         (* the caller's arguments and what is read out of them *)
| PNew                         (* the object under construction (TensorMethod.__init__'s self): local until inserted *)
| PShared (path : list string) (* the cached method object (path []) or something reached through its attributes *)
| PGlob (m x : string)         (* module-level object *)
| PFun (m f : string)          (* function of a translated module *)
| PClassV (m c : string)       (* class of a translated module *)
| PExt (q : string)            (* library name, e.g. "functools.lru_cache", "cffi.FFI", "builtins.len" *)
| PEnum (c x : string)         (* attribute of a class of ours: BackendCompiler.cffi *)
| PFfi                         (* a cffi.FFI() made by this call *)
| PLib (b : backend)           (* the compiled library / engine *)
| PAddr                        (* engine.get_function_address(...) *)
| PKernel                      (* the callable compiled kernel *)
| PLock (m x : string)         (* module-level threading.Lock() *)
| PStruct                      (* the structure allocate_taco_structure returned to this call *)
| POut                         (* Tensor(<that structure>) *)
| PTop.                        (* unknown *)

Definition aval := (prov * prov)%type.     (* identity, content *)
Definition fresh : aval := (PFresh, PFresh).
Definition mono (p : prov) : aval := (p, p).
Definition env := list (string * aval).

Definition rank (p : prov) : nat :=
  match p with PTop => 6 | PShared _ => 5 | PGlob _ _ => 4 | PArg => 3 | PNew => 2 | PFresh => 0 | _ => 1 end.
Definition worst (a b : prov) : prov := if Nat.ltb (rank a) (rank b) then b else a.
Definition taint (vs : list aval) : prov := fold_left (fun acc v => worst (worst acc (fst v)) (snd v)) vs PFresh.

Fixpoint strs_eqb (a b : list string) : bool :=
  match a, b with [] , [] => true | x :: a', y :: b' => String.eqb x y && strs_eqb a' b' | _, _ => false end.

Definition backend_code (b : backend) := match b with Llvm => 0 | Cffi => 1 end.

Definition prov_eqb (a b : prov) : bool :=
  match a, b with
  | PFresh, PFresh | PArg, PArg | PNew, PNew | PFfi, PFfi | PAddr, PAddr | PKernel, PKernel
  | PStruct, PStruct | POut, POut | PTop, PTop => true
  | PShared p, PShared q => strs_eqb p q
  | PGlob m x, PGlob m' x' | PFun m x, PFun m' x' | PClassV m x, PClassV m' x' | PEnum m x, PEnum m' x'
  | PLock m x, PLock m' x' => String.eqb m m' && String.eqb x x'
  | PExt q, PExt q' => String.eqb q q'
  | PLib b, PLib b' => Nat.eqb (backend_code b) (backend_code b')
  | _, _ => false
  end.

Definition aval_eqb (a b : aval) : bool := prov_eqb (fst a) (fst b) && prov_eqb (snd a) (snd b).

Fixpoint env_eqb (a b : env) : bool :=
  match a, b with
  | [], [] => true
  | (x, v) :: a', (y, w) :: b' => String.eqb x y && aval_eqb v w && env_eqb a' b'
  | _, _ => false
  end.

Fixpoint lookup_s {A} (x : string) (l : list (string * A)) : option A :=
  match l with [] => None | (y, v) :: r => if String.eqb x y then Some v else lookup_s x r end.

Fixpoint update_s {A} (x : string) (v : A) (l : list (string * A)) : list (string * A) :=
  match l with [] => [(x, v)] | (y, w) :: r => if String.eqb x y then (x, v) :: r else (y, w) :: update_s x v r end.

Definition join_aval (a b : aval) : aval :=
  ((if prov_eqb (fst a) (fst b) then fst a else PTop), worst (snd a) (snd b)).

(* join of the environment before a loop with one after its body: variables keep their place *)
Definition join_env (a b : env) : env :=
  fold_left (fun acc xv => match lookup_s (fst xv) acc with
                           | Some w => update_s (fst xv) (join_aval w (snd xv)) acc
                           | None => update_s (fst xv) (snd xv) acc
                           end) b a.

(* ------------------------------------------------------------------------------------------------ effects *)

Inductive eff :=
| ECacheLookup (fn : string) (hit : bool)   (* lru_cache wrapper: look the key (all arguments) up *)
| ECacheInsert (fn : string)                (* lru_cache wrapper: store the result unless the key appeared meanwhile *)
| EAcquire (lk : string)
| ERelease (lk : string)
| ECompileCffi                              (* FFI.compile of a builder made by this call *)
| EDlopen                                   (* FFI.dlopen of it *)
| ECompileLlvm                              (* engine.finalize_object() of an engine made by this call *)
| EAlloc                                    (* allocate_taco_structure(...) *)
| ERun                                      (* the compiled kernel is called *)
| EOwn                                      (* take_ownership_of_arrays(<the structure of this call>) *)
| EReturn                                   (* the entry point returns the Tensor of this call's structure *)
| ENewWrite (a : string)                    (* attribute of the object under construction *)
| ENewRead (a : string)
| ESharedRead (p : list string)             (* read of / through an attribute of the published method object *)
| ESharedWrite (p : list string)            (* store into / mutation of something reached from it *)
| EGlobalRead (g : string)
| EGlobalWrite (g : string)
| EArgWrite                                 (* mutation of a caller's argument *)
| EOwnOther                                 (* take_ownership_of_arrays on something else than this call's structure *)
| EReturnOther                              (* the entry point returns something else *)
| EUnknown (what : string).                 (* an operation on a value of unknown origin *)

Inductive leaf :=
| LNorm (vars heap : env)       (* a statement list ran to its end *)
| LVal (v : aval) (heap : env)  (* an expression has a value *)
| LVals (vs : list (string * aval)) (heap : env)
| LRet (v : aval) (heap : env)  (* `return` *)
| LExc                          (* an exception propagates *)
| LStuck (why : string).        (* outside the fragment *)

Inductive tree :=
| Leaf (l : leaf)
| Eff (e : eff) (k : tree)
| Choice (a b : tree)
| Loop (body k : tree).         (* body: LNorm = next iteration; k: after the loop *)

Definition is_norm (l : leaf) : bool := match l with LNorm _ _ => true | _ => false end.
Definition is_exc (l : leaf) : bool := match l with LExc => true | _ => false end.

Fixpoint bind_exc (t : tree) (f : leaf -> tree) : tree :=
  match t with
  | Leaf l => if is_norm l then Leaf l else f l
  | Eff e k => Eff e (bind_exc k f)
  | Choice a b => Choice (bind_exc a f) (bind_exc b f)
  | Loop body k => Loop (bind_exc body f) (bind_exc k f)
  end.

Fixpoint bind (t : tree) (f : leaf -> tree) : tree :=
  match t with
  | Leaf l => f l
  | Eff e k => Eff e (bind k f)
  | Choice a b => Choice (bind a f) (bind b f)
  | Loop body k => Loop (bind_exc body f) (bind k f)
  end.

Definition stuck (s : string) : tree := Leaf (LStuck s).

Definition bindV (t : tree) (f : aval -> env -> tree) : tree :=
  bind t (fun l => match l with
                   | LVal v h => f v h
                   | LExc => Leaf LExc | LStuck s => Leaf (LStuck s)
                   | _ => stuck "bindV: not a value"
                   end).

Definition bindVs (t : tree) (f : list (string * aval) -> env -> tree) : tree :=
  bind t (fun l => match l with
                   | LVals vs h => f vs h
                   | LExc => Leaf LExc | LStuck s => Leaf (LStuck s)
                   | _ => stuck "bindVs: not a value list"
                   end).

Definition bindN (t : tree) (f : env -> env -> tree) : tree :=
  bind t (fun l => match l with
                   | LNorm vs h => f vs h
                   | LVal _ _ | LVals _ _ => stuck "bindN: a value"
                   | other => Leaf other
                   end).

(* a library call: returns or raises *)
Definition may_raise (v : aval) (h : env) : tree := Choice (Leaf (LVal v h)) (Leaf LExc).

Fixpoint norm_leaves (t : tree) : list (env * env) :=
  match t with
  | Leaf (LNorm v h) => [(v, h)]
  | Leaf _ => []
  | Eff _ k => norm_leaves k
  | Choice a b => norm_leaves a ++ norm_leaves b
  | Loop _ k => norm_leaves k
  end.

Fixpoint has_ret (t : tree) : bool :=
  match t with
  | Leaf (LRet _ _) | Leaf (LVal _ _) | Leaf (LVals _ _) => true
  | Leaf _ => false
  | Eff _ k => has_ret k
  | Choice a b => has_ret a || has_ret b
  | Loop body k => has_ret body || has_ret k
  end.

(* the heap at the first normal value of a tree (used for the cache-hit path: the attributes an earlier,
   identical construction gave the object) *)
Fixpoint first_val_heap (t : tree) : option env :=
  match t with
  | Leaf (LVal _ h) => Some h
  | Leaf _ => None
  | Eff _ k => first_val_heap k
  | Choice a b => match first_val_heap a with Some h => Some h | None => first_val_heap b end
  | Loop _ k => first_val_heap k
  end.

(* ------------------------------------------------------------------------------------------------ the API tables *)

(* library functions / classes that touch no state shared between tensora calls (ASSUMED; listed in
   design.d/TIE_concurrency.md).  Anything else that is called: LStuck. *)
Definition pure_ext : list string :=
  [ "builtins.isinstance"; "builtins.type"; "builtins.tuple"; "builtins.set"; "builtins.zip"; "builtins.len";
    "builtins.dict"; "builtins.dict.fromkeys"; "builtins.list"; "builtins.str"; "builtins.TypeError"; "builtins.ValueError";
    "builtins.RuntimeError"; "builtins.range"; "builtins.enumerate"; "builtins.sorted";
    "inspect.Signature"; "inspect.Parameter"; "re.search"; "tempfile.TemporaryDirectory";
    "..expression.parse_assignment"; "..format.parse_format"; "..problem.make_problem";
    "..generate.generate_code"; "..generate.generate_module_tensora"; "..codegen.ir_to_llvm";
    "..tensor.Tensor"; "cffi.FFI";
    "llvmlite.binding.parse_assembly"; "llvmlite.binding.create_mcjit_compiler" ].

(* module-level objects that may be READ (their thread-safety is the library's: cffi's FFI has its own lock,
   llvmlite serialises LLVM calls): MODELLED *)
Definition readable_globals : list string := [ "_cffi_ownership.tensor_cdefs"; "_initialize_llvm.target" ].

Definition mutating_methods : list string :=
  [ "append"; "extend"; "insert"; "remove"; "pop"; "clear"; "sort"; "reverse"; "update"; "setdefault"; "popitem";
    "add"; "discard"; "__setitem__"; "__delitem__"; "__setattr__"; "__delattr__"; "move_to_end"; "cache_clear";
    "difference_update"; "intersection_update"; "symmetric_difference_update" ].

Definition mem_s (x : string) (l : list string) : bool := existsb (String.eqb x) l.

Definition exhaustive_pairs : list (string * string) := [ ("returns.result.Failure", "returns.result.Success") ].

Definition dot (a b : string) : string := a +++ "." +++ b.

(* ------------------------------------------------------------------------------------------------ the interpreter *)

Section Interp.
Variable P : program.

Fixpoint find_module (m : string) (l : program) : option pymodule :=
  match l with [] => None | x :: r => if String.eqb (m_name x) m then Some x else find_module m r end.

Definition defined_in (md : pymodule) (x : string) : bool :=
  match lookup_s x (m_funs md), lookup_s x (m_classes md), lookup_s x (m_assigns md), lookup_s x (m_imports md) with
  | None, None, None, None => false
  | _, _, _, _ => true
  end.

(* what a global name of module m is; n bounds the chain of imports *)
Fixpoint resolve (n : nat) (m x : string) : aval :=
  match n with
  | 0 => mono PTop
  | S n' =>
    match find_module m P with
    | None => mono (PExt (dot m x))
    | Some md =>
      match lookup_s x (m_funs md) with
      | Some _ => mono (PFun m x)
      | None =>
        match lookup_s x (m_classes md) with
        | Some _ => mono (PClassV m x)
        | None =>
          match lookup_s x (m_assigns md) with
          | Some (ECall (EAttr (EName t) "Lock") []) =>
              match lookup_s t (m_imports md) with
              | Some ("threading", "") => mono (PLock m x)
              | _ => mono (PGlob m x)
              end
          | Some (EConst _) => fresh                       (* a module-level literal: immutable *)
          | Some _ => mono (PGlob m x)
          | None =>
            match lookup_s x (m_imports md) with
            | Some (m', "") => mono (PExt m')
            | Some (m', x') => match find_module m' P with
                               | Some md' => if defined_in md' x' then resolve n' m' x' else mono (PExt (dot m' x'))
                               | None => mono (PExt (dot m' x'))
                               end
            | None => mono (PExt (dot "builtins" x))
            end
          end
        end
      end
    end
  end.

Definition find_fun (m f : string) : option fundef :=
  match find_module m P with Some md => lookup_s f (m_funs md) | None => None end.

Definition find_method (m c f : string) : option fundef :=
  match find_module m P with
  | Some md => match lookup_s c (m_classes md) with Some ms => lookup_s f ms | None => None end
  | None => None
  end.

Definition glob_name (m x : string) := dot m x.

(* reading attribute a of a value *)
Definition read_attr (v : aval) (a : string) (h : env) : tree :=
  match fst v with
  | PNew => match lookup_s a h with
            | Some w => Eff (ENewRead a) (Leaf (LVal w h))
            | None => stuck ("attribute of the object under construction read before it is set: " +++ a)
            end
  | PShared p =>
      let w := match p, lookup_s a h with
               | [], Some (PKernel, _) => mono PKernel
               | [], Some (PLib b, _) => mono (PLib b)
               | _, _ => mono (PShared (p ++ [a]))
               end in
      Eff (ESharedRead (p ++ [a])) (Leaf (LVal w h))
  | PGlob m x => (if mem_s (glob_name m x) readable_globals then Eff (EGlobalRead (glob_name m x)) else Eff (EUnknown ("read of module global " +++ glob_name m x)))
                   (Leaf (LVal (mono (PGlob m x)) h))
  | PClassV m c => Leaf (LVal (mono (PEnum c a)) h)
  | PExt q => Leaf (LVal (mono (PExt (dot q a))) h)
  | PLib Cffi => Leaf (LVal (if String.eqb a "evaluate" then mono PKernel else fresh) h)
  | POut => Leaf (LVal (if String.eqb a "cffi_tensor" then mono PStruct else fresh) h)
  | PTop => Eff (EUnknown ("attribute of an unknown value: " +++ a)) (Leaf (LVal (mono PTop) h))
  | PFresh | PArg | PFfi | PLib Llvm | PAddr | PKernel | PStruct | PEnum _ _ => Leaf (LVal (mono (snd v)) h)
  | PFun _ _ | PLock _ _ => stuck ("attribute of a function or lock: " +++ a)
  end.

(* a store into / mutation of the object v (attribute store, subscript store, mutating method) *)
Definition write_to (v : aval) (what : string) (k : tree) : tree :=
  match fst v with
  | PFresh | PFfi | PStruct | POut | PLib _ => k           (* local to this call *)
  | PShared p => Eff (ESharedWrite p) k
  | PGlob m x => Eff (EGlobalWrite (glob_name m x)) k
  | PArg => Eff EArgWrite k
  | PTop => Eff (EUnknown ("write to an unknown value: " +++ what)) k
  | _ => stuck ("write to " +++ what)
  end.

(* binding of targets (names, tuples of names) to the elements / the value *)
Fixpoint bind_target (n : nat) (t : expr) (v : aval) (vars : env) : option env :=
  match n with
  | 0 => None
  | S n' =>
    match t with
    | EName x => Some (update_s x v vars)
    | EMk "tuple" ts | EMk "list" ts =>
        fold_left (fun acc t' => match acc with Some vs => bind_target n' t' (mono (snd v)) vs | None => None end) ts (Some vars)
    | _ => None
    end
  end.

Definition is_kw (tag : string) : option string :=
  match tag with String "="%char k => Some k | _ => None end.

(* parameters <- arguments *)
Fixpoint bind_params (ps : list (string * option expr)) (pos : list aval) (kws : list (string * aval))
         (acc : env) : option (env * list aval * list (string * option expr)) :=
  match ps with
  | [] => Some (acc, pos, [])
  | (x, d) :: r =>
    match pos with
    | v :: pos' => bind_params r pos' kws (acc ++ [(x, v)])
    | [] =>
      match lookup_s x kws with
      | Some v => bind_params r [] kws (acc ++ [(x, v)])
      | None => match d with
                | Some _ => match bind_params r [] kws acc with
                            | Some (a, p, ds) => Some (a, p, (x, d) :: ds)
                            | None => None
                            end
                | None => None
                end
      end
    end
  end.

Definition positional (args : list (string * aval)) : list aval :=
  map snd (filter (fun a => String.eqb (fst a) "") args).
Definition keywords (args : list (string * aval)) : list (string * aval) :=
  flat_map (fun a => match is_kw (fst a) with Some k => [(k, snd a)] | None => [] end) args.
Definition starred (tag : string) (args : list (string * aval)) : list aval :=
  map snd (filter (fun a => String.eqb (fst a) tag) args).

Fixpoint eval (n : nat) (m : string) (vars heap : env) (e : expr) {struct n} : tree :=
  match n with
  | 0 => stuck "fuel"
  | S n' =>
    match e with
    | EName x => match lookup_s x vars with
                 | Some v => Leaf (LVal v heap)
                 | None =>
                   let g := resolve 8 m x in
                   match fst g with
                   | PGlob gm gx =>
                       (if mem_s (glob_name gm gx) readable_globals then Eff (EGlobalRead (glob_name gm gx))
                        else Eff (EUnknown ("read of module global " +++ glob_name gm gx))) (Leaf (LVal g heap))
                   | _ => Leaf (LVal g heap)
                   end
                 end
    | EConst _ => Leaf (LVal fresh heap)
    | EAttr o a => bindV (eval n' m vars heap o) (fun v h => read_attr v a h)
    | ESub o i => bindV (eval n' m vars heap o) (fun v h =>
                  bindV (eval n' m vars h i) (fun _ h' =>
                    match fst v with
                    | PShared p => Eff (ESharedRead p) (Leaf (LVal (mono (PShared p)) h'))
                    | PTop => Eff (EUnknown "subscript of an unknown value") (Leaf (LVal (mono PTop) h'))
                    | PNew | PFun _ _ | PClassV _ _ | PLock _ _ => stuck "subscript"
                    | _ => Leaf (LVal (mono (snd v)) h')
                    end))
    | EMk _ parts => bindVs (evals n' m vars heap (map (fun p => ("", p)) parts)) (fun vs h =>
                       Leaf (LVal (PFresh, taint (map snd vs)) h))
    | EComp _ elts gens => comp n' m vars heap elts gens
    | ECall (EAttr o meth) args =>
        bindV (eval n' m vars heap o) (fun v h =>
          match fst v, lookup_s meth h with
          | PShared [], Some _ =>
              (* an instance attribute of the published object is called: read it, then call the value *)
              bindV (read_attr v meth h) (fun fv h0 =>
              bindVs (evals n' m vars h0 args) (fun vs h' => call_value n' fv vs h'))
          | _, _ => bindVs (evals n' m vars h args) (fun vs h' => call_method n' m v meth vs h')
          end)
    | ECall f args =>
        bindV (eval n' m vars heap f) (fun v h =>
        bindVs (evals n' m vars h args) (fun vs h' => call_value n' v vs h'))
    end
  end

with evals (n : nat) (m : string) (vars heap : env) (es : list (string * expr)) {struct n} : tree :=
  match n with
  | 0 => stuck "fuel"
  | S n' =>
    match es with
    | [] => Leaf (LVals [] heap)
    | (tag, e) :: r => bindV (eval n' m vars heap e) (fun v h =>
                       bindVs (evals n' m vars h r) (fun vs h' => Leaf (LVals ((tag, v) :: vs) h')))
    end
  end

(* comprehension: the generators nest; the element expressions run once per innermost iteration *)
with comp (n : nat) (m : string) (vars heap : env) (elts : list expr) (gens : list (expr * expr * list expr)) {struct n} : tree :=
  match n with
  | 0 => stuck "fuel"
  | S n' =>
    match gens with
    | [] => bindVs (evals n' m vars heap (map (fun p => ("", p)) elts)) (fun vs h => Leaf (LVal (PFresh, taint (map snd vs)) h))
    | (t, it, ifs) :: r =>
        bindV (eval n' m vars heap it) (fun v h =>
          match bind_target 8 t (mono (snd v)) vars with
          | None => stuck "comprehension target"
          | Some vars' =>
            let body := bindVs (evals n' m vars' h (map (fun p => ("", p)) ifs)) (fun _ h1 =>
                        bindV (comp n' m vars' h1 elts r) (fun w h2 =>
                          if env_eqb h2 h then Leaf (LNorm [("", w)] h) else stuck "comprehension changes the object under construction")) in
            let w := fold_left (fun acc l => worst acc (match lookup_s "" (fst l) with Some x => snd x | None => PFresh end))
                               (norm_leaves body) (snd v) in
            Loop body (Leaf (LVal (PFresh, w) h))
          end)
    end
  end

with call_method (n : nat) (m : string) (o : aval) (meth : string) (args : list (string * aval)) (heap : env) {struct n} : tree :=
  match n with
  | 0 => stuck "fuel"
  | S n' =>
    let avs := map snd args in
    let mut := mem_s meth mutating_methods in
    match fst o with
    | PFfi =>
        if String.eqb meth "compile" then Eff ECompileCffi (may_raise fresh heap)
        else if String.eqb meth "dlopen" then Eff EDlopen (may_raise (mono (PLib Cffi)) heap)
        else may_raise fresh heap
    | PLib Llvm =>
        if String.eqb meth "finalize_object" then Eff ECompileLlvm (may_raise fresh heap)
        else if String.eqb meth "get_function_address" then may_raise (mono PAddr) heap
        else may_raise fresh heap
    | PFresh | PStruct | POut | PLib Cffi | PAddr | PEnum _ _ =>
        may_raise (PFresh, worst (snd o) (taint avs)) heap
    | PArg => if mut then Eff EArgWrite (may_raise (mono PArg) heap) else may_raise (mono PArg) heap
    | PShared p =>
        if mut then Eff (ESharedWrite p) (may_raise (mono (PShared p)) heap)
        else Eff (ESharedRead p) (may_raise (mono (PShared p)) heap)
    | PGlob gm gx =>
        let g := glob_name gm gx in
        if mut then Eff (EGlobalWrite g) (may_raise (mono (PGlob gm gx)) heap)
        else if mem_s g readable_globals then
          Eff (EGlobalRead g)
              (may_raise (if String.eqb g "_cffi_ownership.tensor_cdefs" && String.eqb meth "cast" &&
                             existsb (fun v => prov_eqb (fst v) PAddr) avs
                          then mono PKernel else (PFresh, taint avs)) heap)
        else Eff (EUnknown ("method of module global " +++ g)) (may_raise (mono PTop) heap)
    | PExt q => call_value n' (mono (PExt (dot q meth))) args heap
    | PClassV _ _ | PFun _ _ => stuck ("method of a class or function object: " +++ meth)
    | PKernel => stuck "method of the kernel"
    | PNew => stuck ("method of the object under construction: " +++ meth)
    | PLock _ _ => stuck "explicit lock method (only `with lock:` is understood)"
    | PTop => Eff (EUnknown ("method of an unknown value: " +++ meth)) (may_raise (mono PTop) heap)
    end
  end

with call_value (n : nat) (f : aval) (args : list (string * aval)) (heap : env) {struct n} : tree :=
  match n with
  | 0 => stuck "fuel"
  | S n' =>
    let avs := map snd args in
    match fst f with
    | PExt q =>
        if String.eqb q "._cffi_ownership.allocate_taco_structure" || String.eqb q "_cffi_ownership.allocate_taco_structure"
        then Eff EAlloc (may_raise (mono PStruct) heap)
        else if String.eqb q "._cffi_ownership.take_ownership_of_arrays" || String.eqb q "_cffi_ownership.take_ownership_of_arrays"
        then match args with
             | [("", (PStruct, _))] => Eff EOwn (may_raise fresh heap)
             | _ => Eff EOwnOther (may_raise fresh heap)
             end
        else if mem_s q pure_ext then
          may_raise (if String.eqb q "cffi.FFI" then mono PFfi
                     else if String.eqb q "llvmlite.binding.create_mcjit_compiler" then mono (PLib Llvm)
                     else if String.eqb q "..tensor.Tensor" then
                       match args with [("", (PStruct, _))] => mono POut | _ => (PFresh, taint avs) end
                     else (PFresh, taint avs)) heap
        else stuck ("call of a library function that is not known to be free of shared state: " +++ q)
    | PFun fm fname =>
        match find_fun fm fname with
        | None => stuck "function not found"
        | Some fd =>
          let run := inline n' fm fd [] args heap in
          match f_decorators fd with
          | [] => run
          | [d] =>
            match fst (resolve 8 fm (match d with EName x => x | _ => "?" end)) with
            | PExt "functools.lru_cache" =>
                let fn := dot fm fname in
                Choice
                  (Eff (ECacheLookup fn true)
                       (match first_val_heap run with
                        | Some h' => Leaf (LVal (mono (PShared [])) h')
                        | None => stuck "the cached function has no normal result"
                        end))
                  (Eff (ECacheLookup fn false)
                       (bindV run (fun v h =>
                          match fst v with
                          | PNew => Eff (ECacheInsert fn) (Leaf (LVal (mono (PShared [])) h))
                          | _ => stuck "the cached function does not return the object it constructs"
                          end)))
            | _ => stuck "decorator"
            end
          | _ => stuck "decorators"
          end
        end
    | PClassV cm c =>
        match find_method cm c "__init__" with
        | None => may_raise (PFresh, taint avs) heap              (* Enum member look-up, exception class *)
        | Some fd =>
            match heap with
            | [] => bindV (inline n' cm fd [("self", mono PNew)] args heap) (fun _ h => Leaf (LVal (mono PNew) h))
            | _ => stuck "a second object under construction"
            end
        end
    | PShared [] =>
        (* the published method object is called: TensorMethod.__call__ *)
        match find_method "_tensor_method" "TensorMethod" "__call__" with
        | Some fd => inline n' "_tensor_method" fd [("self", mono (PShared []))] args heap
        | None => stuck "TensorMethod.__call__ not found"
        end
    | PKernel => Eff ERun (Leaf (LVal fresh heap))
    | PFresh | PArg => may_raise (PFresh, worst (snd f) (taint avs)) heap
    | PTop => Eff (EUnknown "call of an unknown value") (may_raise (mono PTop) heap)
    | _ => stuck "call"
    end
  end

(* the body of a function of ours, with its parameters bound *)
with inline (n : nat) (m : string) (fd : fundef) (pre : env) (args : list (string * aval)) (heap : env) {struct n} : tree :=
  match n with
  | 0 => stuck "fuel"
  | S n' =>
    let npre := List.length pre in
    match bind_params (skipn npre (f_params fd)) (positional args) (keywords args) pre with
    | None => stuck "a parameter without argument"
    | Some (vars, extra_pos, defaults) =>
      let star := starred "*" args in
      let sstar := starred "**" args in
      let extra_kw := filter (fun kv => negb (existsb (fun p => String.eqb (fst p) (fst kv)) (f_params fd))) (keywords args) in
      if (match extra_pos ++ star with [] => false | _ => String.eqb (f_vararg fd) "" end)
         || (match sstar ++ map snd extra_kw with [] => false | _ => String.eqb (f_kwarg fd) "" end)
      then stuck "arguments the function has no parameter for"
      else
        let vars1 := if String.eqb (f_vararg fd) "" then vars else vars ++ [(f_vararg fd, (PFresh, taint (extra_pos ++ star)))] in
        let vars2 := if String.eqb (f_kwarg fd) "" then vars1 else vars1 ++ [(f_kwarg fd, (PFresh, taint (sstar ++ map snd extra_kw)))] in
        (* defaults are evaluated in the module of the function (at definition time) *)
        let with_defaults :=
          fold_left (fun acc xd => bindN acc (fun vs h =>
                       match snd xd with
                       | Some de => bindV (eval n' m [] h de) (fun v h' => Leaf (LNorm (vs ++ [(fst xd, v)]) h'))
                       | None => stuck "default"
                       end)) defaults (Leaf (LNorm vars2 heap)) in
        bind (bindN with_defaults (fun vs h => exec n' m vs h (f_body fd)))
             (fun l => match l with
                       | LRet v h => Leaf (LVal v h)
                       | LNorm _ h => Leaf (LVal fresh h)
                       | LVal _ _ | LVals _ _ => stuck "inline"
                       | other => Leaf other
                       end)
    end
  end

with exec (n : nat) (m : string) (vars heap : env) (ss : list stmt) {struct n} : tree :=
  match n with
  | 0 => stuck "fuel"
  | S n' =>
    match ss with
    | [] => Leaf (LNorm vars heap)
    | s :: rest =>
      let continue_ := fun vs h => exec n' m vs h rest in
      match s with
      | SPass => continue_ vars heap
      | SExpr e => bindV (eval n' m vars heap e) (fun _ h => continue_ vars h)
      | SReturn e => bindV (eval n' m vars heap e) (fun v h => Leaf (LRet v h))
      | SRaise e => bindV (eval n' m vars heap e) (fun _ _ => Leaf LExc)
      | SImport x md orig =>
          continue_ (update_s x (match find_module md P with Some _ => resolve 8 md orig | None => mono (PExt (dot md orig)) end) vars) heap
      | SAssign [t] e =>
          bindV (eval n' m vars heap e) (fun v h =>
            match t with
            | EAttr o a =>
                bindV (eval n' m vars h o) (fun ov h1 =>
                  match fst ov with
                  | PNew => Eff (ENewWrite a) (continue_ vars (update_s a v h1))
                  | PShared p => Eff (ESharedWrite (p ++ [a])) (continue_ vars h1)
                  | _ => write_to ov ("attribute " +++ a) (continue_ vars h1)
                  end)
            | ESub o i =>
                bindV (eval n' m vars h o) (fun ov h1 =>
                bindV (eval n' m vars h1 i) (fun _ h2 =>
                  let vars' := match o with
                               | EName x => match lookup_s x vars with
                                            | Some (idp, c) => update_s x (idp, worst c (worst (fst v) (snd v))) vars
                                            | None => vars
                                            end
                               | _ => vars
                               end in
                  write_to ov "subscript" (continue_ vars' h2)))
            | _ => match bind_target 8 t v vars with
                   | Some vars' => continue_ vars' h
                   | None => stuck "assignment target"
                   end
            end)
      | SAssign _ _ => stuck "multiple assignment"
      | SIf c a b =>
          bindV (eval n' m vars heap c) (fun _ h =>
            Choice (bindN (exec n' m vars h a) continue_) (bindN (exec n' m vars h b) continue_))
      | SFor t it body =>
          bindV (eval n' m vars heap it) (fun v h =>
            match bind_target 8 t (mono (snd v)) vars with
            | None => stuck "loop target"
            | Some vars0 =>
              let t1 := exec n' m vars0 h body in
              let vj := fold_left (fun acc l => join_env acc (fst l)) (norm_leaves t1) vars0 in
              let hj := fold_left (fun acc l => join_env acc (snd l)) (norm_leaves t1) h in
              let t2 := exec n' m vj hj body in
              let vj2 := fold_left (fun acc l => join_env acc (fst l)) (norm_leaves t2) vj in
              let hj2 := fold_left (fun acc l => join_env acc (snd l)) (norm_leaves t2) hj in
              if has_ret t2 then stuck "return inside a loop"
              else if env_eqb vj vj2 && env_eqb hj hj2 && env_eqb hj h
              then Loop t2 (continue_ vj hj)
              else stuck "loop: the abstract state does not stabilise"
            end)
      | SWith ctx asname body =>
          bindV (eval n' m vars heap ctx) (fun v h =>
            match fst v with
            | PLock lm lx =>
                if String.eqb asname "" then
                  let lk := glob_name lm lx in
                  Eff (EAcquire lk)
                      (bind (exec n' m vars h body)
                            (fun l => match l with
                                      | LNorm vs h' => Eff (ERelease lk) (continue_ vs h')
                                      | LStuck s => Leaf (LStuck s)
                                      | other => Eff (ERelease lk) (Leaf other)
                                      end))
                else stuck "with lock as"
            | PFresh =>
                bindN (exec n' m (if String.eqb asname "" then vars else update_s asname (mono (snd v)) vars) h body) continue_
            | _ => stuck "with: context manager"
            end)
      | SMatch subj cases =>
          bindV (eval n' m vars heap subj) (fun v h => bindN (matchc n' m vars h v cases) continue_)
      end
    end
  end

with matchc (n : nat) (m : string) (vars heap : env) (v : aval) (cases : list (pat * list stmt)) {struct n} : tree :=
  match n with
  | 0 => stuck "fuel"
  | S n' =>
    match cases with
    | [] => Leaf (LNorm vars heap)                    (* no case matches: the statement does nothing *)
    | (PWild, body) :: _ => exec n' m vars heap body
    | (PValue pe, body) :: rest =>
        bindV (eval n' m vars heap pe) (fun pv h =>
          match fst v, fst pv with
          | PEnum c x, PEnum c' x' =>
              if String.eqb c c' then (if String.eqb x x' then exec n' m vars h body else matchc n' m vars h v rest)
              else stuck "match: values of different classes"
          | _, _ => stuck "match: a value pattern on something that is not a known enumeration member"
          end)
    | (PClass ce caps, body) :: rest =>
        bindV (eval n' m vars heap ce) (fun cv h =>
          let vars' := fold_left (fun acc x => update_s x (mono (snd v)) acc) caps vars in
          let this := exec n' m vars' h body in
          match rest, fst cv with
          | [], _ => (* the last class pattern: taken when the earlier ones are not, if the pair is exhaustive *)
              this
          | [(PClass ce2 _, _)], PExt q1 =>
              bindV (eval n' m vars h ce2) (fun cv2 _ =>
                match fst cv2 with
                | PExt q2 => if existsb (fun p => String.eqb (fst p) q1 && String.eqb (snd p) q2) exhaustive_pairs
                             then Choice this (matchc n' m vars h v rest)
                             else stuck "match: class patterns that are not known to be exhaustive"
                | _ => stuck "match: class pattern"
                end)
          | _, _ => stuck "match: class patterns"
          end)
    end
  end.

End Interp.

(* ------------------------------------------------------------------------------------------------ entry points *)

Definition fuel : nat := 400.

Definition backend_member (b : backend) : aval :=
  mono (PEnum "BackendCompiler" (match b with Llvm => "llvm" | Cffi => "cffi" end)).

(* the entry point returns v *)
Definition finish (t : tree) : tree :=
  bindV t (fun v h => match fst v with
                      | POut => Eff EReturn (Leaf (LVal v h))
                      | _ => Eff EReturnOther (Leaf (LVal v h))
                      end).

(* evaluate_cffi / evaluate_tensora / evaluate (assignment, output_format, **inputs) *)
Definition entry_evaluate (P : program) (f : string) : tree :=
  finish (call_value P fuel (mono (PFun "_porcelain" f))
                     [("", mono PArg); ("", mono PArg); ("**", mono PArg)] []).

(* tensor_method(assignment, formats, backend) called with the inputs as keyword arguments *)
Definition entry_tensor_method (P : program) (b : backend) : tree :=
  finish (bindV (call_value P fuel (mono (PFun "_porcelain" "tensor_method"))
                            [("", mono PArg); ("", mono PArg); ("", backend_member b)] [])
                (fun v h => call_value P fuel v [("**", mono PArg)] h)).

(* the attributes TensorMethod.__init__ gives the object, for back end b *)
Definition init_heap (P : program) (b : backend) : option env :=
  first_val_heap (call_value P fuel (mono (PClassV "_tensor_method" "TensorMethod"))
                             [("", mono PArg); ("=backend", backend_member b)] []).

(* one call of an already published method object: TensorMethod.__call__(self, **inputs) *)
Definition method_call (P : program) (b : backend) : tree :=
  match init_heap P b with
  | Some h => call_value P fuel (mono (PShared [])) [("**", mono PArg)] h
  | None => stuck "TensorMethod.__init__ has no normal end"
  end.

(* ------------------------------------------------------------------------------------------------ paths, projections *)

Inductive path : tree -> list eff -> leaf -> Prop :=
| P_leaf : forall l, path (Leaf l) [] l
| P_eff : forall e k tr l, path k tr l -> path (Eff e k) (e :: tr) l
| P_left : forall a b tr l, path a tr l -> path (Choice a b) tr l
| P_right : forall a b tr l, path b tr l -> path (Choice a b) tr l
| P_loop_exit : forall body k tr l, path k tr l -> path (Loop body k) tr l
| P_loop_iter : forall body k tr1 vs h tr2 l,
    path body tr1 (LNorm vs h) -> path (Loop body k) tr2 l -> path (Loop body k) (tr1 ++ tr2) l
| P_loop_abort : forall body k tr l, path body tr l -> is_norm l = false -> path (Loop body k) tr l.

(* the step of model/Concurrency.v an effect is; None = not a step of the model *)
Definition pc_of (e : eff) : option pc :=
  match e with
  | ECacheLookup "_porcelain.cachable_tensor_method" _ => Some PLookup
  | ECacheInsert "_porcelain.cachable_tensor_method" => Some PInsert
  | EAcquire "_compile_cffi.lock" => Some PAcquire
  | ERelease "_compile_cffi.lock" => Some PRelease
  | ECompileCffi => Some PCompileCffi
  | ECompileLlvm => Some PCompileLlvm
  | EAlloc => Some PAlloc
  | ERun => Some PRun
  | EOwn => Some POwn
  | EReturn => Some PReturn
  | _ => None
  end.

(* effects that are not steps of the model and that the model may ignore:
   - the object under construction is not reachable by other threads before ECacheInsert;
   - reads of the published object (nobody writes it: gen_call_no_shared_write);
   - reads of the two library objects in readable_globals;
   - dlopen of the library this call has just compiled (a private file in a private temporary directory). *)
Definition silent (e : eff) : bool :=
  match e with
  | ENewWrite _ | ENewRead _ | ESharedRead _ | EGlobalRead _ | EDlopen => true
  | _ => false
  end.

(* neither a model step nor silent: a write to shared state the model does not have, another cache, another lock,
   a return of something else, an operation on an unknown value *)
Definition offending (e : eff) : bool :=
  match pc_of e with Some _ => false | None => negb (silent e) end.

Definition steps (tr : list eff) : list pc :=
  flat_map (fun e => match pc_of e with Some p => [p] | None => [] end) tr.

(* the model's programme of one call: model/Concurrency.v thread_step, from PLookup *)
Definition model_steps (b : backend) (hit : bool) : list pc :=
  PLookup :: (if hit then [] else match b with
                                  | Cffi => [PAcquire; PCompileCffi; PRelease; PInsert]
                                  | Llvm => [PCompileLlvm; PInsert]
                                  end) ++ [PAlloc; PRun; POwn; PReturn].

Definition trace_hit (tr : list eff) : option bool :=
  match filter (fun e => match e with ECacheLookup _ _ => true | _ => false end) tr with
  | [ECacheLookup _ h] => Some h
  | _ => None
  end.

(* ------------------------------------------------------------------------------------------------ checkers (computed on the regenerated programme) *)

Definition pc_code (p : pc) : nat :=
  match p with PLookup => 0 | PAcquire => 1 | PCompileCffi => 2 | PRelease => 3 | PCompileLlvm => 4 | PInsert => 5
             | PAlloc => 6 | PRun => 7 | POwn => 8 | PReturn => 9 | PError => 10 end.

Fixpoint pcs_eqb (a b : list pc) : bool :=
  match a, b with
  | [], [] => true
  | x :: a', y :: b' => Nat.eqb (pc_code x) (pc_code y) && pcs_eqb a' b'
  | _, _ => false
  end.

(* every effect in the tree satisfies Q *)
Fixpoint all_eff (Q : eff -> bool) (t : tree) : bool :=
  match t with
  | Leaf _ => true
  | Eff e k => Q e && all_eff Q k
  | Choice a b => all_eff Q a && all_eff Q b
  | Loop body k => all_eff Q body && all_eff Q k
  end.

(* no leaf is stuck *)
Fixpoint no_stuck (t : tree) : bool :=
  match t with
  | Leaf (LStuck _) => false
  | Leaf _ => true
  | Eff _ k => no_stuck k
  | Choice a b => no_stuck a && no_stuck b
  | Loop body k => no_stuck body && no_stuck k
  end.

(* summary of the model steps along the paths that end in a leaf selected by sel, given the cache outcome hit
   (paths through the other outcome of a look-up are not selected):
   None = such paths disagree; Some None = there is no such path; Some (Some l) = they all make the steps l *)
Fixpoint summ (hit : bool) (sel : leaf -> bool) (t : tree) : option (option (list pc)) :=
  match t with
  | Leaf l => if sel l then Some (Some []) else Some None
  | Eff e k =>
      match e with
      | ECacheLookup _ h' => if Bool.eqb h' hit then
                               match summ hit sel k with
                               | Some (Some l) => Some (Some (steps [e] ++ l))
                               | r => r
                               end
                             else Some None
      | _ => match summ hit sel k with
             | Some (Some l) => Some (Some (steps [e] ++ l))
             | r => r
             end
      end
  | Choice a b =>
      match summ hit sel a, summ hit sel b with
      | Some None, r => r
      | r, Some None => r
      | Some (Some x), Some (Some y) => if pcs_eqb x y then Some (Some x) else None
      | _, _ => None
      end
  | Loop body k =>
      match summ hit is_norm body, summ hit (fun l => sel l && negb (is_norm l)) body with
      | Some None, Some None => summ hit sel k
      | Some (Some []), Some None => summ hit sel k
      | _, _ => None
      end
  end.

Definition is_val (l : leaf) : bool := match l with LVal _ _ => true | _ => false end.

(* the lock automaton over a trace: Some held', or None when the discipline is broken *)
Definition lock_step (held : bool) (e : eff) : option bool :=
  match e with
  | EAcquire _ => if held then None else Some true
  | ERelease _ => if held then Some false else None
  | ECompileCffi => if held then Some held else None       (* FFI.compile only while holding the lock *)
  | ECacheInsert _ | ECacheLookup _ _ | EAlloc | ERun | EOwn | EReturn | ECompileLlvm =>
      if held then None else Some held                     (* nothing else of the protocol inside the lock *)
  | _ => Some held
  end.

Fixpoint lock_run (held : bool) (tr : list eff) : option bool :=
  match tr with
  | [] => Some held
  | e :: r => match lock_step held e with Some h => lock_run h r | None => None end
  end.

(* h0: what must hold at an LNorm leaf (end of a loop body); every other leaf: the lock is free *)
Fixpoint lockchk (h0 held : bool) (t : tree) : bool :=
  match t with
  | Leaf l => if is_norm l then Bool.eqb held h0 else negb held
  | Eff e k => match lock_step held e with Some h => lockchk h0 h k | None => false end
  | Choice a b => lockchk h0 held a && lockchk h0 held b
  | Loop body k => lockchk held held body && lockchk h0 held k
  end.

(* what __call__ may do to state other threads see *)
Definition call_effect_ok (e : eff) : bool :=
  match e with
  | ESharedRead _ | EGlobalRead _ | EAlloc | ERun | EOwn => true
  | _ => false
  end.
