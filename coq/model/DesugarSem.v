(** C01 -- hand model of tensora/desugar/_desugar_expression.py (desugar_assignment) and the
    meaning of the desugared AST (tensora/desugar/ast.py).

    Python sets of index names are modelled as duplicate-free lists; every place where Python
    ITERATES over a set (the loops that wrap [Contract] nodes) goes through the oracle
    [ord : nat -> list string -> list string], about which the theorems assume nothing but
    [Permutation (ord n l) l] (the [nat] is the value of the id counter at that point, so that
    two iterations over equal sets may still use different orders).  Tensor ids come from a
    counter threaded left to right, exactly as [itertools.count].

    [desugar false] is the function as it is in /repo today (contractions shared by both operands
    are hoisted unconditionally -- finding K-C01-F2); [desugar true] is the repaired function
    (hoist an index over [+]/[-] only when every additive term of both operands carries it, over
    [*] only when every additive term of one operand carries it, and otherwise distribute the
    product).  The check decides by correspondence which of the two /repo implements.

    No proofs in this file (proofs/DesugarSem*.v). *)

From Coq Require Import ZArith List Bool String.
From TV Require Import spec.Storage spec.Spec.
Import ListNotations.
Open Scope Z_scope.

Section Syntax.
Variable R : Type.

(** tensora/desugar/ast.py *)
Inductive dexpr : Type :=
  | DInt (z : Z)
  | DFloat (r : R)
  | DTensor (id : nat) (name : string) (idx : list string)
  | DAdd (a b : dexpr)
  | DMul (a b : dexpr)
  | DContract (k : string) (e : dexpr).

(** Sets of index names as duplicate-free lists. *)
Definition sdedup (l : list string) : list string := nodup string_dec l.
Definition sinter (a b : list string) : list string := filter (fun k => smem k b) a.
Definition sdiff (a b : list string) : list string := filter (fun k => negb (smem k b)) a.

(** [set(e.index_participants().keys())] *)
Definition iparts (e : expr R) : list string := sdedup (expr_idx e).

(** Every additive term of the expanded expression carries index [k]. *)
Fixpoint carried (e : expr R) (k : string) : bool :=
  match e with
  | EInt _ | EFloat _ => false
  | ETensor _ idx => smem k idx
  | EAdd a b | ESub a b => carried a k && carried b k
  | EMul a b => carried a k || carried b k
  end.

Variable ord : nat -> list string -> list string.

(** [for index in ks: output = Contract(index, output)] *)
Definition wrap (ks : list string) (e : dexpr) : dexpr :=
  fold_left (fun acc k => DContract k acc) ks e.

(** *** the distributed form used by the repaired [desugar_multiply] *)

Definition desugar_leaf (f : factor R) (n : nat) : dexpr * nat :=
  match f with
  | FInt z => (DInt z, n)
  | FFloat r => (DFloat r, n)
  | FTensor nm idx => (DTensor n nm idx, S n)
  end.

(** left-nested product [reduce(Multiply, leaves)] *)
Fixpoint desugar_factors (fs : list (factor R)) (acc : dexpr) (n : nat) : dexpr * nat :=
  match fs with
  | [] => (acc, n)
  | f :: r => let (d, n1) := desugar_leaf f n in desugar_factors r (DMul acc d) n1
  end.

Definition desugar_mono (K : list string) (m : monomial R) (n : nat) : dexpr * nat :=
  match snd m with
  | [] => (DInt 1, n)
  | f :: r =>
      let (d0, n0) := desugar_leaf f n in
      let (p, n1) := desugar_factors r d0 n0 in
      let t := wrap (ord n (sinter (sdedup (midx m)) K)) p in
      (if fst m then DMul (DInt (-1)) t else t, n1)
  end.

Fixpoint desugar_terms_aux (K : list string) (ms : list (monomial R)) (acc : dexpr) (n : nat)
    : dexpr * nat :=
  match ms with
  | [] => (acc, n)
  | m :: r => let (t, n1) := desugar_mono K m n in desugar_terms_aux K r (DAdd acc t) n1
  end.

Definition desugar_terms (K : list string) (ms : list (monomial R)) (n : nat) : dexpr * nat :=
  match ms with
  | [] => (DInt 0, n)
  | m :: r => let (t, n1) := desugar_mono K m n in desugar_terms_aux K r t n1
  end.

(** *** desugar_expression.  [fixed = false]: /repo today; [fixed = true]: repaired. *)

Variable fixed : bool.

Fixpoint desugar (e : expr R) (K : list string) (n : nat) : dexpr * nat :=
  match e with
  | EInt z => (DInt z, n)
  | EFloat r => (DFloat r, n)
  | ETensor nm idx => (wrap (ord n K) (DTensor n nm idx), S n)
  | EAdd a b =>
      let LK := sinter (iparts a) K in
      let RK := sinter (iparts b) K in
      let S0 := sinter LK RK in
      let I := if fixed then filter (fun k => carried a k && carried b k) S0 else S0 in
      let (da, n1) := desugar a (sdiff LK I) n in
      let (db, n2) := desugar b (sdiff RK I) n1 in
      (wrap (ord n I) (DAdd da db), n2)
  | ESub a b =>
      let LK := sinter (iparts a) K in
      let RK := sinter (iparts b) K in
      let S0 := sinter LK RK in
      let I := if fixed then filter (fun k => carried a k && carried b k) S0 else S0 in
      let (da, n1) := desugar a (sdiff LK I) n in
      let (db, n2) := desugar b (sdiff RK I) n1 in
      (wrap (ord n I) (DAdd da (DMul (DInt (-1)) db)), n2)
  | EMul a b =>
      let LK := sinter (iparts a) K in
      let RK := sinter (iparts b) K in
      let I := sinter LK RK in
      if fixed && negb (forallb (fun k => carried a k || carried b k) I)
      then desugar_terms K (monomials e) n
      else
        let (da, n1) := desugar a (sdiff LK I) n in
        let (db, n2) := desugar b (sdiff RK I) n1 in
        (wrap (ord n I) (DMul da db), n2)
  end.

(** The places where today's function hoists a contraction it must not hoist: [hoist_ok e K]
    holds iff, along the recursion of [desugar false e K], every index hoisted over a sum is
    carried by every additive term of both operands, and every index hoisted over a product by
    every additive term of one operand. *)
Fixpoint hoist_ok (e : expr R) (K : list string) : bool :=
  match e with
  | EInt _ | EFloat _ | ETensor _ _ => true
  | EAdd a b | ESub a b =>
      let LK := sinter (iparts a) K in
      let RK := sinter (iparts b) K in
      let I := sinter LK RK in
      forallb (fun k => carried a k && carried b k) I
      && hoist_ok a (sdiff LK I) && hoist_ok b (sdiff RK I)
  | EMul a b =>
      let LK := sinter (iparts a) K in
      let RK := sinter (iparts b) K in
      let I := sinter LK RK in
      forallb (fun k => carried a k || carried b k) I
      && hoist_ok a (sdiff LK I) && hoist_ok b (sdiff RK I)
  end.

(** desugar_assignment: [all_indexes - set(target.indexes)] *)
Definition contract_indexes (a : assignment R) : list string :=
  sdiff (sdedup (tgt_idx a ++ expr_idx (rhs a))) (tgt_idx a).

Definition desugar_rhs (a : assignment R) : dexpr :=
  fst (desugar (rhs a) (contract_indexes a) 1).

Definition desugar_assignment (a : assignment R) : dexpr * dexpr :=
  (DTensor 0 (tgt_name a) (tgt_idx a), desugar_rhs a).

Definition assignment_hoist_ok (a : assignment R) : bool :=
  hoist_ok (rhs a) (contract_indexes a).

End Syntax.

Arguments DInt {R}.
Arguments DFloat {R}.
Arguments DTensor {R}.
Arguments DAdd {R}.
Arguments DMul {R}.
Arguments DContract {R}.
Arguments iparts {R}.
Arguments carried {R}.
Arguments wrap {R}.
Arguments desugar_leaf {R}.
Arguments desugar_factors {R}.
Arguments desugar_mono {R}.
Arguments desugar_terms_aux {R}.
Arguments desugar_terms {R}.
Arguments desugar {R}.
Arguments hoist_ok {R}.
Arguments contract_indexes {R}.
Arguments desugar_rhs {R}.
Arguments desugar_assignment {R}.
Arguments assignment_hoist_ok {R}.

(** * Meaning of the desugared AST: [Contract k e] sums [e] over [k]. *)

Section Denote.
Variable O : ringops.

Fixpoint denote (E : env O) (sizes : string -> Z) (e : dexpr O) (rho : val) : O :=
  match e with
  | DInt z => of_Z z
  | DFloat r => r
  | DTensor _ n idx => E n (map rho idx)
  | DAdd a b => radd (denote E sizes a rho) (denote E sizes b rho)
  | DMul a b => rmul (denote E sizes a rho) (denote E sizes b rho)
  | DContract k e' => rsum (map (fun v => denote E sizes e' (upd rho k v)) (zrange (sizes k)))
  end.

(** Meaning of a desugared assignment at an output coordinate. *)
Definition denote_at (tgt : list string) (E : env O) (sizes : string -> Z) (e : dexpr O)
    (c : list Z) : O :=
  denote E sizes e (bind tgt c).

End Denote.

Arguments denote {O}.
Arguments denote_at {O}.

(** * A concrete oracle for the correspondence: iterate every set in sorted order.  The Python
    side normalises each chain of nested [Contract] nodes the same way before comparing. *)

Fixpoint sinsert (s : string) (l : list string) : list string :=
  match l with
  | [] => [s]
  | x :: r => if String.leb s x then s :: l else x :: sinsert s r
  end.

Definition ssort (l : list string) : list string := fold_right sinsert [] l.

Definition ord_sorted : nat -> list string -> list string := fun _ l => ssort l.

(** Contract chains normalised: the indexes of each maximal chain of nested [DContract] nodes
    re-nested in sorted order (outermost = last of the sorted list, as [wrap (ssort ks)]). *)
Fixpoint strip_contracts {R} (e : dexpr R) : list string * dexpr R :=
  match e with
  | DContract k e' => let (ks, b) := strip_contracts e' in (k :: ks, b)
  | _ => ([], e)
  end.

Fixpoint dnormalise {R} (e : dexpr R) : dexpr R :=
  match e with
  | DAdd a b => DAdd (dnormalise a) (dnormalise b)
  | DMul a b => DMul (dnormalise a) (dnormalise b)
  | DContract k e' =>
      (* collect the chain below, normalise the body, re-nest *)
      (fix chain (ks : list string) (x : dexpr R) {struct x} : dexpr R :=
         match x with
         | DContract k' x' => chain (k' :: ks) x'
         | DAdd a b => wrap (ssort ks) (DAdd (dnormalise a) (dnormalise b))
         | DMul a b => wrap (ssort ks) (DMul (dnormalise a) (dnormalise b))
         | _ => wrap (ssort ks) x
         end) [k] e'
  | _ => e
  end.

(** * Decidable equality of desugared trees, for the correspondence files *)

Fixpoint strs_eqb (a b : list string) : bool :=
  match a, b with
  | [], [] => true
  | x :: a', y :: b' => String.eqb x y && strs_eqb a' b'
  | _, _ => false
  end.

Fixpoint dexpr_eqb {R} (Reqb : R -> R -> bool) (a b : dexpr R) : bool :=
  match a, b with
  | DInt x, DInt y => x =? y
  | DFloat x, DFloat y => Reqb x y
  | DTensor i n idx, DTensor j m idy => Nat.eqb i j && String.eqb n m && strs_eqb idx idy
  | DAdd a1 a2, DAdd b1 b2 => dexpr_eqb Reqb a1 b1 && dexpr_eqb Reqb a2 b2
  | DMul a1 a2, DMul b1 b2 => dexpr_eqb Reqb a1 b1 && dexpr_eqb Reqb a2 b2
  | DContract k x, DContract j y => String.eqb k j && dexpr_eqb Reqb x y
  | _, _ => false
  end.

(** positions of the [false] entries *)
Fixpoint false_positions_from (n : nat) (l : list bool) : list nat :=
  match l with
  | [] => []
  | b :: r => if b then false_positions_from (S n) r else n :: false_positions_from (S n) r
  end.
Definition false_positions (l : list bool) : list nat := false_positions_from 0 l.

(** one correspondence case: the assignment, and Python's desugared (target, right-hand side)
    with its Contract chains normalised; [true] iff the model with flag [fixed] produces
    exactly that *)
Definition desugar_case_ok (fixed : bool) (c : assignment Z * (dexpr Z * dexpr Z)) : bool :=
  let '(a, (t, d)) := c in
  let '(t', d') := desugar_assignment ord_sorted fixed a in
  dexpr_eqb Z.eqb t' t && dexpr_eqb Z.eqb (dnormalise d') d.
