(** Python-library layer used by gen/TensorBuildGen.v (regenerated from /repo/src/tensora/tensor.py
    and compile/_cffi_ownership.py by tools/py2coq/extra_tensorbuild.py).  Definitions only; the
    facts are in proofs/GenTensorBuild_*.v.

    Results are three-valued: [Val a] (normal completion), [Exc] (SOME Python exception was raised;
    the class is not kept -- nothing in the translated code catches exceptions, so the first failure
    aborts the whole call whatever its class), [NoFuel] (the explicit recursion fuel ran out; the
    theorems give a sufficient fuel and exclude this value). *)

From Coq Require Import ZArith List Bool Lia.
From TV Require Import spec.PyBase spec.PyLib spec.Storage.
Import ListNotations.
Open Scope Z_scope.

Inductive R (A : Type) : Type := Val (a : A) | Exc | NoFuel.
Arguments Val {A}. Arguments Exc {A}. Arguments NoFuel {A}.

Definition rbind {A B} (r : R A) (f : A -> R B) : R B :=
  match r with Val a => f a | Exc => Exc | NoFuel => NoFuel end.

Definition of_opt {A} (o : option A) : R A := match o with Some a => Val a | None => Exc end.

(** the dynamically typed values ([Any]) of coordinates_to_tree / tree_to_indices_and_values:
    a float (leaf) or a dict from int to such values *)
Inductive pytree (V : Type) : Type :=
  | PLeaf (v : V)
  | PDict (d : list (Z * pytree V)).
Arguments PLeaf {V}. Arguments PDict {V}.

(** use of an [Any] as a float / as a dict; [Exc] = TypeError / AttributeError *)
Definition as_float {V} (t : pytree V) : R V := match t with PLeaf v => Val v | PDict _ => Exc end.
Definition as_dict {V} (t : pytree V) : R (list (Z * pytree V)) :=
  match t with PDict d => Val d | PLeaf _ => Exc end.

(** the [Any] of lol_to_coordinates_and_values: a number or a list of such values *)
Inductive pylol (V : Type) : Type :=
  | LolNum (v : V)
  | LolList (l : list (pylol V)).
Arguments LolNum {V}. Arguments LolList {V}.

(** [xs[i]] on a list / tuple (negative indexes as in Python) *)
Definition r_getitem {A} (xs : list A) (i : Z) : R A := of_opt (py_getitem xs i).

Fixpoint set_nth {A} (xs : list A) (n : nat) (v : A) : list A :=
  match xs, n with
  | [], _ => []
  | _ :: r, O => v :: r
  | x :: r, S k => x :: set_nth r k v
  end.

(** [xs[i] = v] *)
Definition r_setitem {A} (xs : list A) (i : Z) (v : A) : R (list A) :=
  let n := Z.of_nat (List.length xs) in
  if (0 <=? i) && (i <? n) then Val (set_nth xs (Z.to_nat i) v)
  else if (- n <=? i) && (i <? 0) then Val (set_nth xs (Z.to_nat (n + i)) v)
  else Exc.

(** [p[i]] on a C array reached through cffi: defined only inside the array (no negative indexes;
    reading outside is undefined behaviour in C and is an error value here) *)
Definition c_getitem {A} (xs : list A) (i : Z) : R A :=
  if i <? 0 then Exc else of_opt (nth_error xs (Z.to_nat i)).

(** [p[lo:hi]] on a C array reached through cffi: the elements lo .. hi-1, defined only when they are
    all inside the array ([0 <= lo <= hi <= length]); anything else is the error value *)
Definition c_slice {A} (xs : list A) (lo hi : Z) : R (list A) :=
  if (0 <=? lo) && (lo <=? hi) && (hi <=? Z.of_nat (List.length xs))
  then Val (firstn (Z.to_nat (hi - lo)) (skipn (Z.to_nat lo) xs)) else Exc.

(** [xs[i:]] for a literal [i >= 0] *)
Definition py_slice_from {A} (xs : list A) (i : Z) : list A := skipn (Z.to_nat i) xs.

(** [for x in xs: body] -- the variables the body assigns or mutates are the accumulator *)
Fixpoint rfold {S A} (f : S -> A -> R S) (xs : list A) (s : S) : R S :=
  match xs with
  | [] => Val s
  | x :: r => rbind (f s x) (rfold f r)
  end.

(** [for x, y in zip(xs, ys, strict=True): body] -- zip is lazy: the body runs on the common prefix,
    the ValueError comes when one side is exhausted first *)
Fixpoint rfold_zip_strict {S A B} (f : S -> A * B -> R S) (xs : list A) (ys : list B) (s : S) : R S :=
  match xs, ys with
  | [], [] => Val s
  | x :: xr, y :: yr => rbind (f s (x, y)) (rfold_zip_strict f xr yr)
  | _, _ => Exc
  end.

(** [[f(x) for x in xs]] when [f] may raise *)
Fixpoint rmap {A B} (f : A -> R B) (xs : list A) : R (list B) :=
  match xs with
  | [] => Val []
  | x :: r => rbind (f x) (fun y => rbind (rmap f r) (fun ys => Val (y :: ys)))
  end.

(** [all(f(x) for x in xs)] when [f] may raise: stops at the first false *)
Fixpoint rall {A} (f : A -> R bool) (xs : list A) : R bool :=
  match xs with
  | [] => Val true
  | x :: r => rbind (f x) (fun b => if b then rall f r else Val false)
  end.

(** [sorted(xs)] on ints.  Python's sort is a stable merge sort; on a total order without distinct
    equal elements every correct sort returns the same list (proofs/GenTensorBuild_lib.v:
    [py_sorted] is a sorted permutation, and sorted permutations are unique). *)
Fixpoint insert_le (k : Z) (l : list Z) : list Z :=
  match l with
  | [] => [k]
  | h :: t => if k <=? h then k :: l else h :: insert_le k t
  end.
Definition py_sorted (l : list Z) : list Z := fold_right insert_le [] l.

(** [itertools.pairwise] *)
Fixpoint py_pairwise {A} (l : list A) : list (A * A) :=
  match l with
  | a :: ((b :: _) as r) => (a, b) :: py_pairwise r
  | _ => []
  end.

(** [set(a) == set(b)] on ints *)
Definition zset_eqb (a b : list Z) : bool :=
  forallb (fun x => existsb (Z.eqb x) b) a && forallb (fun x => existsb (Z.eqb x) a) b.

(** [dict(pairs)] / a dict comprehension: later duplicates overwrite in place *)
Definition py_dict_of {K W} (eqb : K -> K -> bool) (l : list (K * W)) : list (K * W) :=
  fold_left (fun d kv => dict_set eqb (fst kv) (snd kv) d) l [].

(** the list of [zip] of all columns (strict): rows of the transposed matrix; no column gives no row *)
Fixpoint py_transpose_strict {A} (cols : list (list A)) : R (list (list A)) :=
  match cols with
  | [] => Val []
  | [c] => Val (map (fun x => [x]) c)
  | c :: r =>
      rbind (py_transpose_strict r) (fun rows =>
        (fix zip (a : list A) (b : list (list A)) : R (list (list A)) :=
           match a, b with
           | [], [] => Val []
           | x :: a', y :: b' => rbind (zip a' b') (fun t => Val ((x :: y) :: t))
           | _, _ => Exc
           end) c rows)
  end.
