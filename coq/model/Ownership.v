(* C13 — protocol model of tensora's ownership of kernel-allocated arrays.

   Hand model of
     compile/_cffi_ownership.py   global_weakkeydict, allocate_taco_structure, taco_structure_to_cffi,
                                  take_ownership_of_arrays
     compile/_tensor_method.py    TensorMethod.__call__  (allocate output; call kernel; take ownership)
     tensor.py                    Tensor wraps cffi_tensor; __getstate__/__setstate__ (pickling)
   together with the part of CPython/cffi they rely on: names -> objects, reference counting,
   WeakKeyDictionary (entry disappears with its key), ffi.gc (destructor calls free), ffi.new
   (the cdata owns its inline data).

   Executable, total, no proofs here (proofs: proofs/Ownership*.v).  Tied to the implementation by
   tools/props/C13.py: the free counts predicted by [run_counts] are compared, step by step, with what
   an LD_PRELOAD interposer sees for the addresses stored in the returned tensors' C arrays. *)

From Coq Require Import List Arith Bool PeanoNat.
Import ListNotations.

Notation name := nat (only parsing).   (* a Python variable of the driving script (a root) *)
Notation oid := nat (only parsing).   (* identity of a Python object *)
Notation addr := nat (only parsing).   (* identity (address) of one C array *)

(* What an evaluation allocates depends only on the output format:
   [Sparse k]: k+1 compressed levels -> pos and crd per level, then vals;
   [SparseEmpty k]: k+1 compressed levels, no stored entry: the kernel's final realloc(crd, 0)
                  releases every crd and stores NULL, so the structure carries one pos per level and vals;
   [Dense], [Scalar]: vals only. *)
Inductive shape := Sparse (k : nat) | SparseEmpty (k : nat) | Dense | Scalar.

Definition shape_blocks (s : shape) : nat :=
  match s with
  | Sparse k => 2 * S k + 1
  | SparseEmpty k => S k + 1
  | Dense => 1
  | Scalar => 1
  end.

(* The history alphabet of the property. *)
Inductive op :=
| Eval (out : name) (ins : list name) (sh : shape)  (* out = evaluate(..., **ins); "feed as input" = non-empty ins *)
| Build (out : name) (sh : shape)                   (* out = Tensor.from_lol(...): arrays owned by ffi.new *)
| Alias (new old : name)                            (* new = old *)
| StructRef (new old : name)                        (* new = old.cffi_tensor : a name for the C structure itself *)
| Read (n : name)                                   (* read every stored array through n *)
| Pickle (new old : name)                           (* new = pickle.loads(pickle.dumps(old)) *)
| Del (n : name)                                    (* del n *)
| Collect.                                          (* gc.collect() *)

Inductive value := VTensor (w : oid) | VStruct (s : oid).

Inductive bkind :=
| Kernel    (* malloc'ed inside a kernel; must be released by free() exactly once *)
| CffiNew.  (* inline data of an ffi.new cdata; released with that cdata, never through free() *)

Inductive status := Live | Freed (n : nat).   (* Freed n: released n times (n >= 1); n >= 2 is a double free *)

Record block := { b_kind : bkind; b_status : status }.

(* an entry of a memory holder: an object that owns one array *)
Inductive hentry :=
| HGc (a : addr)    (* ffi.gc(ptr, free): its destructor calls free(a) *)
| HNew (a : addr).  (* the ffi.new cdata whose data is a *)

Definition haddr (e : hentry) : addr := match e with HGc a => a | HNew a => a end.

Record state := {
  names   : list (name * value);       (* roots *)
  tensors : list (oid * oid);          (* live Tensor wrappers: wrapper -> its cffi_tensor *)
  structs : list (oid * list addr);    (* live cffi structures: struct -> addresses in its pos/crd/vals fields *)
  wkd     : list (oid * list hentry);  (* global_weakkeydict: struct (weak key) -> memory holder *)
  heap    : list (addr * block);       (* every array ever allocated, in allocation order *)
  next    : nat                        (* fresh identities *)
}.

Definition init : state :=
  {| names := []; tensors := []; structs := []; wkd := []; heap := []; next := 0 |}.

Inductive outcome :=
| Ok
| Rejected   (* Python raises (NameError, TypeError, KeyError) *)
| Fault.     (* a released array is used: undefined behaviour in C *)

(* ------------------------------------------------------------------ association lists *)

Fixpoint lookup {A} (k : nat) (l : list (nat * A)) : option A :=
  match l with
  | [] => None
  | (k', v) :: r => if Nat.eqb k' k then Some v else lookup k r
  end.

Definition remove_key {A} (k : nat) (l : list (nat * A)) : list (nat * A) :=
  filter (fun p => negb (Nat.eqb (fst p) k)) l.

Definition bind {A} (k : nat) (v : A) (l : list (nat * A)) : list (nat * A) :=
  (k, v) :: remove_key k l.

Definition has_key {A} (k : nat) (l : list (nat * A)) : bool :=
  existsb (fun p => Nat.eqb (fst p) k) l.

Definition mem (a : nat) (l : list nat) : bool := existsb (Nat.eqb a) l.

(* ------------------------------------------------------------------ C memory *)

Definition bump (s : status) : status :=
  match s with Live => Freed 1 | Freed n => Freed (S n) end.

Fixpoint bump_n (n : nat) (s : status) : status :=
  match n with 0 => s | S m => bump (bump_n m s) end.

(* number of times a block has been released *)
Definition nfree (s : status) : nat := match s with Live => 0 | Freed n => n end.

(* release every address of [l] once per occurrence *)
Definition release_all (l : list addr) (h : list (addr * block)) : list (addr * block) :=
  map (fun p => (fst p, {| b_kind := b_kind (snd p);
                           b_status := bump_n (count_occ Nat.eq_dec l (fst p)) (b_status (snd p)) |})) h.

Definition is_live (st : state) (a : addr) : bool :=
  match lookup a (heap st) with
  | Some b => match b_status b with Live => true | Freed _ => false end
  | None => false
  end.

(* the free() calls made when the entries [l] of memory holders are dropped *)
Definition gc_frees (l : list hentry) : list addr :=
  flat_map (fun e => match e with HGc a => [a] | HNew _ => [] end) l.

(* ------------------------------------------------------------------ reference counting *)

Definition names_tensor (st : state) (w : oid) : bool :=
  existsb (fun p => match snd p with VTensor w' => Nat.eqb w' w | VStruct _ => false end) (names st).

Definition names_struct (st : state) (s : oid) : bool :=
  existsb (fun p => match snd p with VStruct s' => Nat.eqb s' s | VTensor _ => false end) (names st).

(* One cascade of reference counting (no cycles exist: names -> Tensor -> struct):
   Tensor wrappers no name refers to die; structures that neither a name nor a surviving wrapper
   refers to die; the weak dictionary drops the entries of dead keys; a dropped holder drops its
   entries; an ffi.gc entry calls free, an ffi.new entry releases its own data. *)
Definition sweep (st : state) : state * list addr :=
  let tensors' := filter (fun p => names_tensor st (fst p)) (tensors st) in
  let alive s := names_struct st s || existsb (fun p => Nat.eqb (snd p) s) tensors' in
  let structs' := filter (fun p => alive (fst p)) (structs st) in
  let dropped := flat_map (fun p => if has_key (fst p) structs' then [] else snd p) (wkd st) in
  let wkd' := filter (fun p => has_key (fst p) structs') (wkd st) in
  ({| names := names st; tensors := tensors'; structs := structs'; wkd := wkd';
      heap := release_all (map haddr dropped) (heap st); next := next st |},
   gc_frees dropped).

(* ------------------------------------------------------------------ the library's protocol *)

(* the structure a name leads to *)
Definition struct_of (st : state) (v : value) : option oid :=
  match v with
  | VStruct s => Some s
  | VTensor w => lookup w (tensors st)
  end.

Definition fields_of (st : state) (v : value) : option (list addr) :=
  match struct_of st v with
  | Some s => lookup s (structs st)
  | None => None
  end.

Definition all_live (st : state) (l : list addr) : bool := forallb (is_live st) l.

(* allocate_taco_structure: a fresh structure with NULL array fields and a holder without array
   owners, registered in the weak dictionary; Tensor(cffi_tensor): a fresh wrapper.
   Returns (state, struct id, wrapper id). *)
Definition allocate_structure (st : state) : state * oid * oid :=
  let s := next st in
  let w := S (next st) in
  ({| names := names st; tensors := (w, s) :: tensors st; structs := (s, []) :: structs st;
      wkd := (s, []) :: wkd st; heap := heap st; next := S (S (next st)) |}, s, w).

Definition fresh_addrs (st : state) (n : nat) : list addr := seq (next st) n.

(* set the array fields of structure s *)
Definition set_fields (s : oid) (f : list addr) (l : list (oid * list addr)) : list (oid * list addr) :=
  map (fun p => if Nat.eqb (fst p) s then (fst p, f) else p) l.

(* the kernel: malloc one block per array of the output format, store the addresses in the
   structure (growth by realloc inside the kernel is not modelled: these are the final blocks) *)
Definition run_kernel (st : state) (s : oid) (sh : shape) : state :=
  let a := fresh_addrs st (shape_blocks sh) in
  {| names := names st; tensors := tensors st; structs := set_fields s a (structs st);
     wkd := wkd st;
     heap := heap st ++ map (fun x => (x, {| b_kind := Kernel; b_status := Live |})) a;
     next := next st + shape_blocks sh |}.

(* take_ownership_of_arrays: look the holder up in the weak dictionary (KeyError when absent) and
   store one ffi.gc(ptr, free) per array field in it.  The entries that were in those slots before
   are dropped (which releases what they own). *)
Definition take_ownership (st : state) (s : oid) : option (state * list addr) :=
  match lookup s (wkd st), lookup s (structs st) with
  | Some old, Some f =>
      Some ({| names := names st; tensors := tensors st; structs := structs st;
               wkd := map (fun p => if Nat.eqb (fst p) s then (fst p, map HGc f) else p) (wkd st);
               heap := release_all (map haddr old) (heap st); next := next st |},
            gc_frees old)
  | _, _ => None
  end.

(* taco_structure_to_cffi (Tensor.from_*, __setstate__): every array is an ffi.new cdata stored in the holder *)
Definition fill_from_python (st : state) (s : oid) (n : nat) : state :=
  let a := fresh_addrs st n in
  {| names := names st; tensors := tensors st; structs := set_fields s a (structs st);
     wkd := map (fun p => if Nat.eqb (fst p) s then (fst p, map HNew a) else p) (wkd st);
     heap := heap st ++ map (fun x => (x, {| b_kind := CffiNew; b_status := Live |})) a;
     next := next st + n |}.

(* input arguments of a call must be Tensor objects *)
Fixpoint input_fields (st : state) (ins : list name) : option (list addr) :=
  match ins with
  | [] => Some []
  | n :: r =>
      match lookup n (names st) with
      | Some (VTensor w) =>
          match fields_of st (VTensor w), input_fields st r with
          | Some f, Some g => Some (f ++ g)
          | _, _ => None
          end
      | _ => None
      end
  end.

(* TensorMethod.__call__ up to `return output`: no name is bound yet.
   Result: new state, the new wrapper, the free() calls made, outcome. *)
Definition eval_call (st : state) (ins : list name) (sh : shape) : state * oid * list addr * outcome :=
  match input_fields st ins with
  | None => (st, 0, [], Rejected)
  | Some inf =>
      if negb (all_live st inf) then (st, 0, [], Fault) else
      let '(st1, s, w) := allocate_structure st in
      let st2 := run_kernel st1 s sh in
      match take_ownership st2 s with
      | None => (st2, w, [], Rejected)
      | Some (st3, fr) => (st3, w, fr, Ok)
      end
  end.

Definition set_names (st : state) (nm : list (name * value)) : state :=
  {| names := nm; tensors := tensors st; structs := structs st; wkd := wkd st; heap := heap st; next := next st |}.

(* one operation, before the reference-counting cascade *)
Definition apply_op (st : state) (o : op) : state * list addr * outcome :=
  match o with
  | Eval out ins sh =>
      let '(st', w, fr, oc) := eval_call st ins sh in
      match oc with
      | Ok => (set_names st' (bind out (VTensor w) (names st')), fr, Ok)
      | _ => (st', fr, oc)   (* an exception: `out` is not rebound; the fresh objects are garbage *)
      end
  | Build out sh =>
      let '(st1, s, w) := allocate_structure st in
      let st2 := fill_from_python st1 s (shape_blocks sh) in
      (set_names st2 (bind out (VTensor w) (names st2)), [], Ok)
  | Alias new old =>
      match lookup old (names st) with
      | Some v => (set_names st (bind new v (names st)), [], Ok)
      | None => (st, [], Rejected)
      end
  | StructRef new old =>
      match lookup old (names st) with
      | Some (VTensor w) =>
          match lookup w (tensors st) with
          | Some s => (set_names st (bind new (VStruct s) (names st)), [], Ok)
          | None => (st, [], Rejected)
          end
      | _ => (st, [], Rejected)
      end
  | Read n =>
      match lookup n (names st) with
      | Some v =>
          match fields_of st v with
          | Some f => (st, [], if all_live st f then Ok else Fault)
          | None => (st, [], Rejected)
          end
      | None => (st, [], Rejected)
      end
  | Pickle new old =>
      match lookup old (names st) with
      | Some (VTensor w) =>
          match fields_of st (VTensor w) with
          | Some f =>
              if negb (all_live st f) then (st, [], Fault) else
              let '(st1, s, w') := allocate_structure st in
              let st2 := fill_from_python st1 s (length f) in
              (set_names st2 (bind new (VTensor w') (names st2)), [], Ok)
          | None => (st, [], Rejected)
          end
      | _ => (st, [], Rejected)
      end
  | Del n =>
      match lookup n (names st) with
      | Some _ => (set_names st (remove_key n (names st)), [], Ok)
      | None => (st, [], Rejected)
      end
  | Collect => (st, [], Ok)
  end.

(* [eager = true]: CPython, every operation ends with the reference-counting cascade.
   [eager = false]: an implementation that reclaims only at gc.collect() (the theorems hold for both;
   the correspondence with CPython uses [true]). *)
Definition step (eager : bool) (st : state) (o : op) : state * list addr * outcome :=
  let '(st1, fr1, oc) := apply_op st o in
  let collect_now := eager || match o with Collect => true | _ => false end in
  if collect_now then
    let '(st2, fr2) := sweep st1 in (st2, fr1 ++ fr2, oc)
  else (st1, fr1, oc).

Record trace := { t_state : state; t_frees : list addr; t_outcomes : list outcome }.

Definition run_from (eager : bool) (st : state) (ops : list op) : trace :=
  fold_left
    (fun t o =>
       let '(st', fr, oc) := step eager (t_state t) o in
       {| t_state := st'; t_frees := t_frees t ++ fr; t_outcomes := t_outcomes t ++ [oc] |})
    ops {| t_state := st; t_frees := []; t_outcomes := [] |}.

Definition run (eager : bool) (ops : list op) : trace := run_from eager init ops.

(* ------------------------------------------------------------------ observations for the correspondence *)

(* free counts of the kernel blocks, in allocation order: what the interposer reports *)
Definition kernel_counts (st : state) : list nat :=
  flat_map (fun p => match b_kind (snd p) with Kernel => [nfree (b_status (snd p))] | CffiNew => [] end) (heap st).

(* after every step: (outcome, free counts of all kernel blocks allocated so far) *)
Fixpoint run_counts (eager : bool) (st : state) (ops : list op) : list (outcome * list nat) :=
  match ops with
  | [] => []
  | o :: r =>
      let '(st', _, oc) := step eager st o in
      (oc, kernel_counts st') :: run_counts eager st' r
  end.

Definition outcome_eqb (a b : outcome) : bool :=
  match a, b with Ok, Ok => true | Rejected, Rejected => true | Fault, Fault => true | _, _ => false end.

Fixpoint list_nat_eqb (a b : list nat) : bool :=
  match a, b with
  | [], [] => true
  | x :: a', y :: b' => Nat.eqb x y && list_nat_eqb a' b'
  | _, _ => false
  end.

Fixpoint obs_eqb (a b : list (outcome * list nat)) : bool :=
  match a, b with
  | [], [] => true
  | (o1, c1) :: a', (o2, c2) :: b' => outcome_eqb o1 o2 && list_nat_eqb c1 c2 && obs_eqb a' b'
  | _, _ => false
  end.

(* indexes of the cases whose observed behaviour differs from the model's prediction *)
Fixpoint failing_from (i : nat) (cases : list (list op * list (outcome * list nat))) : list nat :=
  match cases with
  | [] => []
  | (ops, obs) :: r =>
      if obs_eqb (run_counts true init ops) obs then failing_from (S i) r else i :: failing_from (S i) r
  end.

(* array a is reachable from a name (directly through a structure, or through a Tensor wrapper): used to
   state the theorems *)
Definition reaches (st : state) (a : addr) : Prop :=
  exists n v f, In (n, v) (names st) /\ fields_of st v = Some f /\ In a f.
