(** Statement structure of tensora's C printer, at token level
    (/repo/src/tensora/codegen/_ir_to_c.py: ir_to_c_block, ir_to_c_branch, ir_to_c_loop,
    ir_to_c_function_definition, ir_to_c).

    - [sst] / [ssts] / [selse]: SKELETONS -- the statement structure of a piece of C text, with the
      expressions and the simple statements kept as token lists (their grammar is spec/CGrammar.v:
      [Derives], [DerivesStmt]);
    - [flat]: a skeleton as tokens: [if ( c ) { .. }], [else { .. }], [else if ..], [while ( c ) { .. }];
    - [sparse]: an executable parser from tokens back to skeletons (C99 6.8: selection and iteration
      statements whose bodies are compound statements, [else] followed by a compound statement or by an
      [if] statement; a simple statement runs to its [;]).  Because the body of every [if] is braced,
      there is no dangling else in this fragment;
    - [skel]: the skeleton the printer produces for an IR statement ([None] = Python exception);
      [cprint_stmts s] = its tokens -- the hand model of [ir_to_c_statement] on all statements;
    - [snorm]: the IR statement list that a skeleton can still tell apart: nested Blocks spliced
      (the printer prints a Block without braces), comments dropped;
    - function definitions and modules: [fskel], [cprint_function], [cprint_module].
    Definitions only; proofs in proofs/GenCStruct_equiv.v. *)

From Coq Require Import ZArith Bool List String.
From TV Require Import spec.Num gen.IRAst spec.CGrammar model.CPrint model.CLexer.
Import ListNotations.
Local Open Scope list_scope.

Inductive sst : Type :=
  | SSimple (ts : list ctoken)                          (* a simple statement, its [;] included *)
  | SIfS (c : list ctoken) (th : ssts) (el : selse)      (* if ( c ) { th } el *)
  | SWhileS (c : list ctoken) (b : ssts)                 (* while ( c ) { b } *)
with ssts : Type :=
  | SNil
  | SCons (s : sst) (r : ssts)
with selse : Type :=
  | ENone                                                (* no else *)
  | EBlock (l : ssts)                                    (* else { l } *)
  | EIf (s : sst).                                       (* else if ... : [s] is an [SIfS] *)

Scheme sst_mind := Induction for sst Sort Prop
  with ssts_mind := Induction for ssts Sort Prop
  with selse_mind := Induction for selse Sort Prop.
Combined Scheme sst_ssts_selse_ind from sst_mind, ssts_mind, selse_mind.

Fixpoint sapp (a b : ssts) : ssts :=
  match a with SNil => b | SCons s r => SCons s (sapp r b) end.

(** * Skeleton -> tokens *)
Fixpoint flat (s : sst) : list stok :=
  match s with
  | SSimple ts => map SK ts
  | SIfS c th el =>
      SIf :: SK TLParen :: map SK c ++ SK TRParen :: SLBrace :: flats th ++ SRBrace :: flate el
  | SWhileS c b =>
      SWhile :: SK TLParen :: map SK c ++ SK TRParen :: SLBrace :: flats b ++ [SRBrace]
  end
with flats (l : ssts) : list stok :=
  match l with SNil => [] | SCons s r => flat s ++ flats r end
with flate (e : selse) : list stok :=
  match e with
  | ENone => []
  | EBlock l => SElse :: SLBrace :: flats l ++ [SRBrace]
  | EIf s => SElse :: flat s
  end.

(** the same at the level of [lex] (structure tokens as pseudo identifiers, see model/CLexer.v) *)
Fixpoint cflat (s : sst) : list ctoken :=
  match s with
  | SSimple ts => ts
  | SIfS c th el =>
      TId "if" :: TLParen :: c ++ TRParen :: TId "{" :: cflats th ++ TId "}" :: cflate el
  | SWhileS c b =>
      TId "while" :: TLParen :: c ++ TRParen :: TId "{" :: cflats b ++ [TId "}"]
  end
with cflats (l : ssts) : list ctoken :=
  match l with SNil => [] | SCons s r => cflat s ++ cflats r end
with cflate (e : selse) : list ctoken :=
  match e with
  | ENone => []
  | EBlock l => TId "else" :: TId "{" :: cflats l ++ [TId "}"]
  | EIf s => TId "else" :: cflat s
  end.

(** leaf tokens: not a [;], not one of the five pseudo identifiers *)
Definition plain (t : ctoken) : bool :=
  negb (ctoken_eqb t TSemi) && match stok_of t with SK _ => true | _ => false end.

(** * Tokens -> skeleton *)

(** the tokens of a condition: everything up to the [{]; its last token is the closing [)] *)
Fixpoint take_cond (ts : list stok) (acc : list ctoken) : option (list ctoken * list stok) :=
  match ts with
  | SK t :: r => take_cond r (acc ++ [t])
  | SLBrace :: r =>
      match rev acc with
      | TRParen :: c => Some (rev c, r)
      | _ => None
      end
  | _ => None
  end.

(** a simple statement: expression-level tokens up to and including the first [;] *)
Fixpoint take_simple (ts : list stok) (acc : list ctoken) : option (list ctoken * list stok) :=
  match ts with
  | SK TSemi :: r => Some (acc ++ [TSemi], r)
  | SK t :: r => take_simple r (acc ++ [t])
  | _ => None
  end.

Fixpoint p_stmts (n : nat) (ts : list stok) {struct n} : option (ssts * list stok) :=
  match n with
  | O => None
  | S n =>
      match ts with
      | [] => Some (SNil, [])
      | SRBrace :: _ => Some (SNil, ts)
      | _ =>
          match p_stmt n ts with
          | Some (s, r) =>
              match p_stmts n r with
              | Some (l, r') => Some (SCons s l, r')
              | None => None
              end
          | None => None
          end
      end
  end
with p_stmt (n : nat) (ts : list stok) {struct n} : option (sst * list stok) :=
  match n with
  | O => None
  | S n =>
      match ts with
      | SIf :: SK TLParen :: r =>
          match take_cond r [] with
          | Some (c, r1) =>
              match p_stmts n r1 with
              | Some (th, SRBrace :: r2) =>
                  match r2 with
                  | SElse :: SLBrace :: r3 =>
                      match p_stmts n r3 with
                      | Some (el, SRBrace :: r4) => Some (SIfS c th (EBlock el), r4)
                      | _ => None
                      end
                  | SElse :: SIf :: r3 =>
                      match p_stmt n (SIf :: r3) with
                      | Some (s, r4) => Some (SIfS c th (EIf s), r4)
                      | None => None
                      end
                  | SElse :: _ => None
                  | _ => Some (SIfS c th ENone, r2)
                  end
              | _ => None
              end
          | None => None
          end
      | SWhile :: SK TLParen :: r =>
          match take_cond r [] with
          | Some (c, r1) =>
              match p_stmts n r1 with
              | Some (b, SRBrace :: r2) => Some (SWhileS c b, r2)
              | _ => None
              end
          | None => None
          end
      | SK _ :: _ =>
          match take_simple ts [] with
          | Some (chunk, r) => Some (SSimple chunk, r)
          | None => None
          end
      | _ => None
      end
  end.

(** the whole token list is a statement sequence *)
Definition sparse (ts : list stok) : option ssts :=
  match p_stmts (S (List.length ts)) ts with
  | Some (l, []) => Some l
  | _ => None
  end.

(** * Well-formed skeletons (what [flat] prints unambiguously) *)
Fixpoint simple_ok (ts : list ctoken) : bool :=
  match ts with
  | [] => false
  | [t] => ctoken_eqb t TSemi
  | t :: r => negb (ctoken_eqb t TSemi) && simple_ok r
  end.

(** fuel that [p_stmt] / [p_stmts] need *)
Fixpoint sz (s : sst) : nat :=
  match s with
  | SSimple _ => 1
  | SIfS _ th el => S (Nat.max (szs th) (sze el))
  | SWhileS _ b => S (szs b)
  end
with szs (l : ssts) : nat :=
  match l with SNil => 1 | SCons s r => S (Nat.max (sz s) (szs r)) end
with sze (e : selse) : nat :=
  match e with ENone => 0 | EBlock l => szs l | EIf s => sz s end.

Fixpoint wf (s : sst) : bool :=
  match s with
  | SSimple ts => simple_ok ts
  | SIfS _ th el => wfs th && wfe el
  | SWhileS _ b => wfs b
  end
with wfs (l : ssts) : bool :=
  match l with SNil => true | SCons s r => wf s && wfs r end
with wfe (e : selse) : bool :=
  match e with
  | ENone => true
  | EBlock l => wfs l
  | EIf s => match s with SIfS _ _ _ => wf s | _ => false end
  end.

(** * The printer's skeleton of an IR statement *)

Definition is_empty_block (s : stmt) : bool :=
  match s with Block [] None => true | _ => false end.

Definition else_of (f : stmt) (b : ssts) : selse :=
  if is_Branch f then match b with SCons s SNil => EIf s | _ => EBlock b end
  else if is_empty_block f then ENone
  else EBlock b.

Fixpoint skel (s : stmt) : option ssts :=
  match s with
  | Block ss _ =>
      (fix go (l : list stmt) : option ssts :=
         match l with
         | [] => Some SNil
         | x :: r =>
             match skel x, go r with
             | Some a, Some b => Some (sapp a b)
             | _, _ => None
             end
         end) ss
  | Branch c t f =>
      match skel t, skel f with
      | Some a, Some b => Some (SCons (SIfS (cprint c) a (else_of f b)) SNil)
      | _, _ => None
      end
  | Loop c b =>
      match skel b with
      | Some a => Some (SCons (SWhileS (cprint c) a) SNil)
      | None => None
      end
  | _ =>
      match cprint_stmt s with
      | Some ts => Some (SCons (SSimple ts) SNil)
      | None => None
      end
  end.

(** the hand model of [ir_to_c_statement], all statements: tokens *)
Definition cprint_stmts (s : stmt) : option (list stok) :=
  match skel s with Some l => Some (flats l) | None => None end.

(** * What the skeleton still distinguishes: nested Blocks spliced, comments dropped *)
Fixpoint snorm (s : stmt) : list stmt :=
  match s with
  | Block ss _ => flat_map snorm ss
  | Branch c t f => [Branch c (Block (snorm t) None) (Block (snorm f) None)]
  | Loop c b => [Loop c (Block (snorm b) None)]
  | _ => [s]
  end.

(** * Names *)
Fixpoint deep_names_ok (s : stmt) : bool :=
  match s with
  | Block ss c =>
      forallb deep_names_ok ss && match c with Some x => no_newline x | None => true end
  | Branch c t f => names_ok c && deep_names_ok t && deep_names_ok f
  | Loop c b => names_ok c && deep_names_ok b
  | _ => stmt_names_ok s
  end.

(** * Function definitions and modules *)

(** [T1 x1, T2 x2, ...] *)
Fixpoint params_tokens (ps : list (list ctoken)) : list ctoken :=
  match ps with
  | [] => []
  | [p] => p
  | p :: r => p ++ TComma :: params_tokens r
  end.

Fixpoint omap_decl (ps : list stmt) : option (list (list ctoken)) :=
  match ps with
  | [] => Some []
  | p :: r =>
      match cprint_declaration p, omap_decl r with
      | Some a, Some b => Some (a :: b)
      | _, _ => None
      end
  end.

(** return-type name ( parameters ) { body } *)
Definition cprint_function (f : function_definition) : option (list stok) :=
  match f with
  | FunctionDefinition name params ret body =>
      match omap_decl params, cprint_stmts body with
      | Some ps, Some b =>
          Some (map SK (type_tokens ret None ++ cprint name ++ TLParen :: params_tokens ps ++ [TRParen])
                ++ SLBrace :: b ++ [SRBrace])
      | _, _ => None
      end
  end.

Fixpoint cprint_functions (fs : list function_definition) : option (list stok) :=
  match fs with
  | [] => Some []
  | f :: r =>
      match cprint_function f, cprint_functions r with
      | Some a, Some b => Some (a ++ b)
      | _, _ => None
      end
  end.

Definition cprint_module (m : module) : option (list stok) :=
  match m with IRModule fs => cprint_functions fs end.

Definition function_names_ok (f : function_definition) : bool :=
  match f with
  | FunctionDefinition name params _ body =>
      names_ok name && forallb decl_names_ok params && deep_names_ok body
  end.

(** a function header: tokens up to the [{]; then the body; used to read a printed function back *)
Definition p_function (ts : list stok) : option (list ctoken * ssts * list stok) :=
  (fix hdr (n : nat) (ts : list stok) (acc : list ctoken) : option (list ctoken * ssts * list stok) :=
     match ts with
     | SK t :: r => hdr n r (acc ++ [t])
     | SLBrace :: r =>
         match p_stmts n r with
         | Some (b, SRBrace :: r') => Some (acc, b, r')
         | _ => None
         end
     | _ => None
     end) (S (List.length ts)) ts [].
