(** * OutputOrder: the part of the IR generator that can FAIL, and [generate] (property C08)

    Transcribes the control flow of
      /repo/src/tensora/iteration_graph/_generate_ir.py   (to_ir_iteration_graph: which nodes are
          visited with which Output object, for which kernel type)
      /repo/src/tensora/iteration_graph/outputs/_append.py (AppendOutput.next_output,
          AppendOutput.write_assignment: the two raise sites)
      /repo/src/tensora/iteration_graph/outputs/_bucket.py (BucketOutput.next_output /
          write_assignment: never raise)
      /repo/src/tensora/generate/_tensora.py, generate/_base.py (Result plumbing)
      /repo/src/tensora/compile/_tensor_method.py (the broadcast check of TensorMethod.__init__).

    What is kept of an Output object is only what decides failure:
      AppendOutput(output, next_layer)  ~  [OAppend next_layer]
      BucketOutput(output, layers, unfulfilled) ~ [OBucket]   (neither method can raise)

    What is kept of [to_ir_iteration_variable] is the recursion:
      - early return for a non-compute kernel whose output has no compressed level;
      - [output.next_output(self.output, kernel_type)]  (may raise);
      - the recursive call [to_ir_iteration_graph(subsubnode.next, next_output, kernel_type)] is
        issued for the un-exhausted node itself unless the node is sparse and has no sparse leaf
        (then the only subnode is skipped by `continue`).  Exhausted sub(sub)nodes keep the skeleton
        (IterationNodes, outputs, SumNodes with >= 2 terms) and only visit fewer nodes, so they
        cannot raise where the un-exhausted traversal does not (argued in design.d/C08.md, tied
        by the outcome correspondence).

    No proofs in this file. *)

From Coq Require Import List String Bool Arith ZArith.
From TV Require Import model.Graphs.
Import ListNotations.
Open Scope string_scope.
Open Scope list_scope.

Inductive kind := Assemble | Compute | Evaluate.

Definition is_assemble (k : kind) : bool := match k with Compute => false | _ => true end.
Definition is_compute (k : kind) : bool := match k with Assemble => false | _ => true end.

Inductive ostate :=
| OAppend (next_layer : nat)
| OBucket.

(** raise sites *)
Inductive failure :=
| FAppendNextOutput      (* NotImplementedError in AppendOutput.next_output *)
| FWriteAssignment.      (* RuntimeError in AppendOutput.write_assignment *)

Inductive wres (A : Type) := WOk (x : A) | WFail (f : failure).
Arguments WOk {A} x.
Arguments WFail {A} f.

Definition has_sparse_layer (modes : list mode) : bool := existsb is_compressed modes.

(** AppendOutput.next_output / BucketOutput.next_output *)
Definition next_output (modes : list mode) (st : ostate) (out : option olayer) : wres ostate :=
  match st with
  | OBucket => WOk OBucket
  | OAppend n =>
      let matches := match out with Some o => Nat.eqb n (ol_layer o) | None => false end in
      if matches then WOk (OAppend (S n))
      else if forallb is_dense (skipn n modes) then WOk OBucket
      else WFail FAppendNextOutput
  end.

(** write_assignment *)
Definition write_assignment (modes : list mode) (st : ostate) : wres unit :=
  match st with
  | OBucket => WOk tt
  | OAppend n => if Nat.eqb n (List.length modes) then WOk tt else WFail FWriteAssignment
  end.

(** is_sparse of to_ir_iteration_variable and "no subnode is ever entered" *)
Definition node_skips_body (index : string) (out : option olayer) (next : graph) : bool :=
  let '(sparse_input, has_leaf) := graph_context next index in
  let sparse_output := match out with
                       | None => true
                       | Some o => match ol_mode o with Some Compressed => true | _ => false end
                       end in
  (sparse_input && sparse_output) && negb has_leaf.

(** to_ir_iteration_graph, failure part: first failure in program order *)
Fixpoint walk (k : kind) (modes : list mode) (g : graph) (st : ostate) {struct g} : wres unit :=
  match g with
  | TerminalNode _ =>
      if is_compute k then write_assignment modes st else WOk tt
  | IterationNode i out next =>
      if negb (is_compute k) && negb (has_sparse_layer modes) then WOk tt
      else
        match next_output modes st out with
        | WFail f => WFail f
        | WOk st' => if node_skips_body i out next then WOk tt else walk k modes next st'
        end
  | SumNode _ terms =>
      if is_compute k || has_sparse_layer modes then
        match next_output modes st None with
        | WFail f => WFail f
        | WOk st' =>
            (fix go (ts : list graph) : wres unit :=
               match ts with
               | [] => WOk tt
               | t :: r => match walk k modes t st' with
                           | WFail f => WFail f
                           | WOk _ => go r
                           end
               end) terms
        end
      else WOk tt
  end.

(** generate_ir for one kernel type: AppendOutput(definition.output_variable, 0) *)
Definition generate_ir (modes : list mode) (g : graph) (k : kind) : wres unit :=
  walk k modes g (OAppend 0).

(** [functions = [generate_ir(definition, graph, kernel_type) for kernel_type in kernel_types]] *)
Fixpoint generate_all (modes : list mode) (g : graph) (ks : list kind) : wres unit :=
  match ks with
  | [] => WOk tt
  | k :: r => match generate_ir modes g k with
              | WFail f => WFail f
              | WOk _ => generate_all modes g r
              end
  end.

Inductive outcome :=
| Code
| Diagonal                     (* Failure(DiagonalAccessError) *)
| NoKernel                     (* Failure(NoKernelFoundError) *)
| BroadcastTarget              (* BroadcastTargetIndexError (tensor_method only) *)
| InternalAppendNextOutput     (* NotImplementedError escaping from outputs/_append.py next_output *)
| InternalWriteAssignment      (* RuntimeError escaping from AppendOutput.write_assignment *)
| IllFormed.                   (* KeyError / IndexError: request violates wf_problem *)

Definition outcome_eqb (a b : outcome) : bool :=
  match a, b with
  | Code, Code | Diagonal, Diagonal | NoKernel, NoKernel | BroadcastTarget, BroadcastTarget
  | InternalAppendNextOutput, InternalAppendNextOutput
  | InternalWriteAssignment, InternalWriteAssignment | IllFormed, IllFormed => true
  | _, _ => false
  end.

(** modes of the output tensor: [definition.output_variable.modes = formats[target.name].modes] *)
Definition output_modes (a : dassign) (fs : formats) : option (list mode) :=
  match lookup (d_name (a_target a)) fs with
  | Some f => Some (f_modes f)
  | None => None
  end.

(** generate_module_tensora / generate_code (the language does not influence the outcome) *)
Definition generate_from (modes : list mode) (b : best) (ks : list kind) : outcome :=
  match b with
  | BDiagonal => Diagonal
  | BNoKernel => NoKernel
  | BIllFormed => IllFormed
  | BGraph g =>
      match generate_all modes g ks with
      | WOk _ => Code
      | WFail FAppendNextOutput => InternalAppendNextOutput
      | WFail FWriteAssignment => InternalWriteAssignment
      end
  end.

Definition generate (a : dassign) (fs : formats) (ks : list kind) : outcome :=
  match output_modes a fs with
  | None => IllFormed                          (* to_identifiable: formats[self.name] *)
  | Some modes => generate_from modes (best_algorithm a fs) ks
  end.

(** indexes mentioned on the right-hand side *)
Fixpoint expr_indexes (e : dexpr) : list string :=
  match e with
  | DTensor t => d_indexes t
  | DAdd l r | DMultiply l r => expr_indexes l ++ expr_indexes r
  | DContract _ x => expr_indexes x
  | _ => []
  end.

(** TensorMethod.__init__: broadcast check first, then generate with [evaluate] *)
Definition tensor_method (a : dassign) (fs : formats) : outcome :=
  if forallb (fun i => mem i (expr_indexes (a_expr a))) (d_indexes (a_target a))
  then generate a fs [Evaluate]
  else BroadcastTarget.

(** ** The structural reading of "the IR generator raises NotImplementedError on this graph" *)

(** walking in state [OAppend n], some reachable node is not output layer [n] while a compressed
    level >= n is still to come *)
Fixpoint bad_from (modes : list mode) (n : nat) (g : graph) {struct g} : bool :=
  match g with
  | TerminalNode _ => false
  | IterationNode i out next =>
      let matches := match out with Some o => Nat.eqb n (ol_layer o) | None => false end in
      if matches then negb (node_skips_body i out next) && bad_from modes (S n) next
      else negb (forallb is_dense (skipn n modes))
  | SumNode _ _ => negb (forallb is_dense (skipn n modes))
  end.

Definition graph_bad (modes : list mode) (g : graph) : bool := bad_from modes 0 g.

(** the same without looking at expressions (a node whose body is never entered still counts):
    what a purely structural filter, e.g. on the iteration order of the target, can see *)
Fixpoint bad_struct_from (modes : list mode) (n : nat) (g : graph) {struct g} : bool :=
  match g with
  | TerminalNode _ => false
  | IterationNode i out next =>
      let matches := match out with Some o => Nat.eqb n (ol_layer o) | None => false end in
      if matches then bad_struct_from modes (S n) next
      else negb (forallb is_dense (skipn n modes))
  | SumNode _ _ => negb (forallb is_dense (skipn n modes))
  end.

Definition graph_bad_struct (modes : list mode) (g : graph) : bool := bad_struct_from modes 0 g.

(** With at least one kernel type requested.  (A bad graph has a compressed output level, so the
    early return for assemble kernels with fully dense outputs never hides it.) *)
Definition first_graph_bad (a : dassign) (fs : formats) (ks : list kind) : bool :=
  match output_modes a fs, best_algorithm a fs, ks with
  | Some modes, BGraph g, _ :: _ => graph_bad modes g
  | _, _, _ => false
  end.

(** ** Model of the candidate repair "skip graphs the IR generator cannot lower": the first graph
    that is not bad is used (DESIGN section 5, F4). *)
Definition filter_good (modes : list mode) (r : res (list graph)) : res (list graph) :=
  match r with
  | ROk gs => ROk (filter (fun g => negb (graph_bad modes g)) gs)
  | other => other
  end.

Definition generate_filtered (a : dassign) (fs : formats) (ks : list kind) : outcome :=
  match output_modes a fs with
  | None => IllFormed
  | Some modes => generate_from modes (best_of (filter_good modes (to_iteration_graphs a fs))) ks
  end.

(** structural variant (equivalent to skipping unsupported iteration orders of the target) *)
Definition filter_good_struct (modes : list mode) (r : res (list graph)) : res (list graph) :=
  match r with
  | ROk gs => ROk (filter (fun g => negb (graph_bad_struct modes g)) gs)
  | other => other
  end.

Definition generate_filtered_struct (a : dassign) (fs : formats) (ks : list kind) : outcome :=
  match output_modes a fs with
  | None => IllFormed
  | Some modes => generate_from modes (best_of (filter_good_struct modes (to_iteration_graphs a fs))) ks
  end.

(** ** Well-formed problems (boolean): what Problem.__post_init__ / Format.__post_init__ /
    Assignment.__post_init__ guarantee and the model needs *)

Definition is_perm_of_range (ordering : list nat) : bool :=
  let n := List.length ordering in
  forallb (fun k => existsb (Nat.eqb k) ordering) (seq 0 n)
  && forallb (fun o => Nat.ltb o n) ordering.

Definition wf_tensor (fs : formats) (t : dtensor) : bool :=
  match lookup (d_name t) fs with
  | None => false
  | Some f =>
      Nat.eqb (List.length (f_modes f)) (List.length (d_indexes t))
      && Nat.eqb (List.length (f_ordering f)) (List.length (d_indexes t))
      && is_perm_of_range (f_ordering f)
  end.

Fixpoint wf_expr (fs : formats) (e : dexpr) : bool :=
  match e with
  | DTensor t => wf_tensor fs t
  | DAdd l r | DMultiply l r => wf_expr fs l && wf_expr fs r
  | DContract _ x => wf_expr fs x
  | _ => true
  end.

Definition wf_problem (a : dassign) (fs : formats) : bool :=
  wf_tensor fs (a_target a) && wf_expr fs (a_expr a).

(** ** The same functions with the enumeration shared (used by the correspondence harness so that
    the list of graphs is computed once per problem; [proofs/OutputOrderFacts.v] shows they are the
    functions above). *)
Definition generate_r (a : dassign) (fs : formats) (r : res (list graph)) (ks : list kind) : outcome :=
  match output_modes a fs with
  | None => IllFormed
  | Some modes => generate_from modes (best_of r) ks
  end.

Definition tensor_method_r (a : dassign) (fs : formats) (r : res (list graph)) : outcome :=
  if forallb (fun i => mem i (expr_indexes (a_expr a))) (d_indexes (a_target a))
  then generate_r a fs r [Evaluate]
  else BroadcastTarget.

Definition first_graph_bad_r (a : dassign) (fs : formats) (r : res (list graph)) : bool :=
  match output_modes a fs, best_of r with
  | Some modes, BGraph g => graph_bad modes g
  | _, _ => false
  end.

Definition filter_good_r (a : dassign) (fs : formats) (r : res (list graph)) : res (list graph) :=
  match output_modes a fs with
  | Some modes => filter_good modes r
  | None => r
  end.

Definition filter_good_struct_r (a : dassign) (fs : formats) (r : res (list graph)) : res (list graph) :=
  match output_modes a fs with
  | Some modes => filter_good_struct modes r
  | None => r
  end.

Definition first_graph_bad_struct_r (a : dassign) (fs : formats) (r : res (list graph)) : bool :=
  match output_modes a fs, best_of r with
  | Some modes, BGraph g => graph_bad_struct modes g
  | _, _ => false
  end.
