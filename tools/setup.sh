#!/bin/bash
# MANIFEST.setup_cmd: build the whole framework from files on disk (offline).
set -u
cd "$(dirname "$0")/.."
export PYTHONHASHSEED=0 PYTHONDONTWRITEBYTECODE=1
mkdir -p build/cases evidence replays
/venv/bin/python -B tools/regen.py || echo "regen reported problems (checks will report them)"
/venv/bin/python -B -c "import sys; sys.path.insert(0,'tools'); from vlib.core import coq_project_setup; coq_project_setup()"
( cd coq && timeout 3000 make -j16 -k ) > build/setup_make.log 2>&1
echo "make exit: $?" >> build/setup_make.log
tail -3 build/setup_make.log
for f in tools/setup_extra.d/*.sh; do [ -x "$f" ] && timeout 600 "$f"; done
exit 0
