"""Write MANIFEST.json from tools/manifest_entries.py (single source of truth)."""
import json
import sys
from pathlib import Path

sys.path.insert(0, str(Path(__file__).resolve().parent))
from manifest_entries import CHECKS, NOT_APPLICABLE, HOOK_COMMITS  # noqa: E402

V = Path(__file__).resolve().parents[1]
m = {
    "version": 1,
    "setup_cmd": "./tools/setup.sh",
    "hooks": {
        "guard": "TENSORA_VERIF_INITIAL_CAPACITY",
        "enable": "export TENSORA_VERIF_INITIAL_CAPACITY=<n> before importing tensora (read once in iteration_graph/outputs/_append.py); unset = upstream behaviour",
        "baseline_off_cmd": "cd /repo && env -u TENSORA_VERIF_INITIAL_CAPACITY /venv/bin/python -m pytest -ra -q -p no:cacheprovider --timeout=900 --continue-on-collection-errors",
        "source_commits": HOOK_COMMITS,
        "add_only": True,
    },
    "engines": [
        {"name": "coq", "path": "coq/", "serves_properties": sorted(c["property_id"] for c in CHECKS),
         "kind_free_text": "Coq 8.16 development (models, specifications, theorems); gen/ regenerated from /repo by tools/py2coq on every run"},
        {"name": "harness", "path": "tools/", "serves_properties": sorted(c["property_id"] for c in CHECKS),
         "kind_free_text": "Python driver: regenerates the model, builds the proofs, runs model-vs-implementation correspondence, searches for failing inputs"},
    ],
    "checks": [],
    "not_applicable": NOT_APPLICABLE,
    "notes": "See DESIGN.md. Every check: ./check <id> --tier quick|thorough; replay: ./check <id> --replay <file>.",
}
for c in CHECKS:
    pid = c["property_id"]
    m["checks"].append({
        "property_id": pid,
        "quick_cmd": f"./check {pid} --tier quick",
        "thorough_cmd": f"./check {pid} --tier thorough",
        "evidence_file": f"evidence/{pid}.json",
        "replay_cmd_template": f"./check {pid} --replay {{path}}",
        "engine": "coq",
        "level_claimed": {"category": "proof", "text": c["text"], "design_ref": c.get("design_ref", "DESIGN.md section 4")},
        "level_note": c["note"],
        "technique": c["technique"],
    })
(V / "MANIFEST.json").write_text(json.dumps(m, indent=1) + "\n")
print("MANIFEST.json written:", len(m["checks"]), "checks,", len(NOT_APPLICABLE), "not_applicable")
