"""C08 worker: runs /repo's kernel generation on a batch of requests and reports canonical outcomes.

stdin : JSON {"cases": [case...], "call_timeout": seconds}
        case = {"id": int, "assignment": str, "formats": [[name, fmt], ...],
                "kinds_sets": [[kind,...],...], "langs": ["c","llvm"],
                "tm": bool, "tm_cffi": bool, "cli": bool, "graph": "none"|"first"|"all",
                "ccheck": bool}
stdout: one JSON object per line, per case.

Outcome enum (canonical): "Code" | "Diagonal" | "NoKernel" | "BroadcastTarget" |
  "Problem:<Class>" (Result-typed refusals of parsing / make_problem) |
  "Internal:<Class>@<file>:<function>" (any other exception, raise site = innermost frame inside
  tensora's sources) | "Hang" (per-call wall clock bound exceeded).

Everything that is specific to the *model* (Coq terms of the desugared assignment, the formats, the
iteration graphs) is also produced here, so that tools/props/C08.py only assembles files.
"""

from __future__ import annotations

import itertools
import json
import os
import re
import signal
import subprocess
import sys
import traceback

from returns.result import Failure, Success

KINDS = ["assemble", "compute", "evaluate"]


class Hang(BaseException):
    pass


HANGS = [0]          # calls that exceeded the wall-clock bound in this worker
MAX_HANGS = 3        # after that many the rest of the batch is skipped (reported as such)


def _alarm(signum, frame):
    raise Hang()


signal.signal(signal.SIGALRM, _alarm)


def bounded(seconds, fn, *args, **kw):
    """Run fn under a wall-clock bound; returns ("ok", value) | ("exc", exception) | ("hang", None)."""
    signal.setitimer(signal.ITIMER_REAL, seconds)
    try:
        v = fn(*args, **kw)
        return "ok", v
    except Hang:
        HANGS[0] += 1
        return "hang", None
    except Exception as e:  # noqa: BLE001 - classification is the point
        return "exc", e
    finally:
        signal.setitimer(signal.ITIMER_REAL, 0)


def raise_site(e: BaseException) -> str:
    tb = traceback.extract_tb(e.__traceback__)
    site = "?"
    for fr in tb:
        fn = fr.filename.replace("\\", "/")
        if "/tensora/" in fn and "site-packages" not in fn:
            site = fn.split("/tensora/")[-1] + ":" + fr.name
    return site


TYPED = {
    "DiagonalAccessError": "Diagonal",
    "NoKernelFoundError": "NoKernel",
    "BroadcastTargetIndexError": "BroadcastTarget",
}
PROBLEM_TYPED = {
    "ParseError",
    "MutatingAssignmentError",
    "InconsistentDimensionsError",
    "NameConflictError",
    "InvalidModeOrderingError",
    "UnusedFormatError",
    "UndefinedReferenceError",
    "IncorrectDimensionsError",
}


def classify_exc(e: BaseException) -> str:
    n = type(e).__name__
    if n in TYPED:
        return TYPED[n]
    return f"Internal:{n}@{raise_site(e)}"


# ------------------------------------------------------------------------------------- Coq terms
def cstr(s: str) -> str:
    return '"' + s.replace('"', '""') + '"'


def clist(xs) -> str:
    return "[" + "; ".join(xs) + "]"


def cmode(m) -> str:
    return "Dense" if m.name == "dense" else "Compressed"


def cformat(f) -> str:
    return f"(mkFormat {clist(cmode(m) for m in f.modes)} {clist(str(int(o)) for o in f.ordering)})"


def cformats(formats: dict) -> str:
    return clist(f"({cstr(n)}, {cformat(f)})" for n, f in formats.items())


def cz(v: int) -> str:
    return f"({v})%Z"


def cdexpr(e) -> str:
    from tensora.desugar import ast as d

    match e:
        case d.Integer(value=v):
            return f"(DInteger {cz(v)})"
        case d.Float(value=v):
            return f"(DFloat {cstr(float(v).hex())})"
        case d.Tensor(id=i, name=n, indexes=ix):
            return f"(DTensor (mkDT {i} {cstr(n)} {clist(cstr(x) for x in ix)}))"
        case d.Add(left=l, right=r):
            return f"(DAdd {cdexpr(l)} {cdexpr(r)})"
        case d.Multiply(left=l, right=r):
            return f"(DMultiply {cdexpr(l)} {cdexpr(r)})"
        case d.Contract(index=i, expression=x):
            return f"(DContract {cstr(i)} {cdexpr(x)})"
    raise TypeError(f"unknown desugared node {type(e)}")


def cdassign(a) -> str:
    t = a.target
    return f"(mkDA (mkDT {t.id} {cstr(t.name)} {clist(cstr(x) for x in t.indexes)}) {cdexpr(a.expression)})"


def ctref(t) -> str:
    # identifiable tensor: id is "<int>_<name>"
    num, _, nm = t.id.partition("_")
    if nm != t.name or not num.isdigit():
        raise ValueError(f"unexpected tensor id {t.id!r} for {t.name!r}")
    return f"(mkT {int(num)} {cstr(t.name)} {clist(cstr(x) for x in t.indexes)} {clist(cmode(m) for m in t.modes)})"


def ciexpr(e) -> str:
    from tensora.iteration_graph.identifiable_expression import ast as ie

    match e:
        case ie.Integer(value=v):
            return f"(IInteger {cz(v)})"
        case ie.Float(value=v):
            return f"(IFloat {cstr(float(v).hex())})"
        case ie.Tensor():
            return f"(ITensor {ctref(e)})"
        case ie.Add(left=l, right=r):
            return f"(IAdd {ciexpr(l)} {ciexpr(r)})"
        case ie.Multiply(left=l, right=r):
            return f"(IMultiply {ciexpr(l)} {ciexpr(r)})"
    raise TypeError(f"unknown identifiable node {type(e)}")


def cgraph(g) -> str:
    """Structural dump. SumNode names are erased (0): the name is a generator-instantiation counter
    that no later stage reads (see design.d/C08.md)."""
    from tensora.iteration_graph import iteration_graph as ig

    match g:
        case ig.TerminalNode(expression=e):
            return f"(TerminalNode {ciexpr(e)})"
        case ig.IterationNode(index_variable=i, output=o, next=n):
            if o is None:
                out = "None"
            else:
                out = f"(Some (mkOL {ctref(o.tensor)} {int(o.layer)}))"
            return f"(IterationNode {cstr(i)} {out} {cgraph(n)})"
        case ig.SumNode(name=_, terms=ts):
            return f"(SumNode 0 {clist(cgraph(t) for t in ts)})"
    raise TypeError(f"unknown graph node {type(g)}")


# ---------------------------------------------------------------- canonical text / hash of a graph
# must be the same format as show_graph / hash_string in coq/model/Graphs.v
def show_tref(t) -> str:
    num, _, nm = t.id.partition("_")
    if nm != t.name or not num.isdigit():
        raise ValueError(f"unexpected tensor id {t.id!r} for {t.name!r}")
    return (f"{int(num)}:{t.name}(" + "".join(i + "," for i in t.indexes) + ")["
            + "".join("d" if m.name == "dense" else "s" for m in t.modes) + "]")


def show_iexpr(e) -> str:
    from tensora.iteration_graph.identifiable_expression import ast as ie

    match e:
        case ie.Integer(value=v):
            return f"Z{int(v)}"
        case ie.Float(value=v):
            return "F" + float(v).hex()
        case ie.Tensor():
            return "V" + show_tref(e)
        case ie.Add(left=l, right=r):
            return f"A({show_iexpr(l)},{show_iexpr(r)})"
        case ie.Multiply(left=l, right=r):
            return f"M({show_iexpr(l)},{show_iexpr(r)})"
    raise TypeError(f"unknown identifiable node {type(e)}")


def show_graph(g) -> str:
    from tensora.iteration_graph import iteration_graph as ig

    match g:
        case ig.TerminalNode(expression=e):
            return f"T({show_iexpr(e)})"
        case ig.IterationNode(index_variable=i, output=o, next=n):
            out = "N" if o is None else f"L{int(o.layer)}:{show_tref(o.tensor)}"
            return f"I({i},{out},{show_graph(n)})"
        case ig.SumNode(name=_, terms=ts):
            return "S[" + "".join(show_graph(t) + ";" for t in ts) + "]"
    raise TypeError(f"unknown graph node {type(g)}")


HASH_MOD = (1 << 61) - 1


def hash_string(s: str) -> int:
    h = 7
    for c in s.encode("latin-1", "replace"):
        h = (h * 1000003 + c + 1) % HASH_MOD
    return h


# ------------------------------------------------------------------------------------- tool chain
_HEADER = None


def c_header() -> str:
    global _HEADER
    if _HEADER is None:
        from tensora.compile._cffi_ownership import taco_type_header
        from tensora.compile._compile_cffi import taco_define_header

        # cffi's generated module provides <stdint.h>/<stdlib.h> (through Python.h) before the
        # source passed to set_source.
        _HEADER = "#include <stdint.h>\n#include <stdlib.h>\n" + taco_define_header + taco_type_header
    return _HEADER


def gcc_check(code: str) -> dict:
    src = c_header() + "\n#line 1 \"kernel.c\"\n" + code + "\n"
    try:
        p = subprocess.run(
            ["gcc", "-fsyntax-only", "-std=c99", "-x", "c", "-"],
            input=src, capture_output=True, text=True, timeout=60,
        )
    except subprocess.TimeoutExpired:
        return {"ok": False, "first_error": "gcc timeout", "n_errors": 1}
    errs = [l for l in p.stderr.splitlines() if " error: " in l or "fatal error" in l]
    first = errs[0] if errs else (p.stderr.strip()[:300] if p.returncode else "")
    line_text = ""
    m = re.match(r"kernel\.c:(\d+):", first)
    if m:
        lines = code.split("\n")
        n = int(m.group(1))
        if 1 <= n <= len(lines):
            line_text = lines[n - 1].strip()[:200]
    return {"ok": p.returncode == 0, "first_error": first, "error_line": line_text, "n_errors": len(errs)}


def llvm_check(text: str) -> dict:
    import llvmlite.binding as llvm

    try:
        m = llvm.parse_assembly(text)
        m.verify()
        return {"ok": True, "first_error": ""}
    except Exception as e:  # noqa: BLE001
        return {"ok": False, "first_error": f"{type(e).__name__}: {str(e)[:300]}"}


# ------------------------------------------------------------------------------------- one case
def gen_one(problem, kinds, lang, T):
    from tensora.generate import Language, generate_code
    from tensora.kernel_type import KernelType

    st, v = bounded(T, generate_code, problem, [KernelType[k] for k in kinds], Language[lang])
    if st == "hang":
        return {"outcome": "Hang"}, None
    if st == "exc":
        return {"outcome": classify_exc(v), "message": str(v)[:200]}, None
    match v:
        case Success(code):
            if not isinstance(code, str):
                return {"outcome": f"Internal:NonStringCode({type(code).__name__})@generate/_base.py:generate_code"}, None
            return {"outcome": "Code"}, code
        case Failure(err):
            n = type(err).__name__
            if n in TYPED:
                return {"outcome": TYPED[n], "message": str(err)[:200]}, None
            return {"outcome": f"UntypedFailure:{n}", "message": str(err)[:200]}, None
    return {"outcome": f"Internal:NotAResult({type(v).__name__})@generate/_base.py:generate_code"}, None


def run_case(case: dict, T: float) -> dict:
    from tensora.expression import parse_assignment
    from tensora.format import parse_format
    from tensora.problem import make_problem

    out: dict = {"id": case["id"], "assignment": case["assignment"], "formats": case["formats"]}
    hangs_before = HANGS[0]

    def hung_here():
        return HANGS[0] > hangs_before

    # ---- request construction (Result-typed refusals are documented errors)
    st, pa = bounded(T, parse_assignment, case["assignment"])
    if st != "ok":
        out["problem"] = "Hang" if st == "hang" else classify_exc(pa)
        return out
    if isinstance(pa, Failure):
        out["problem"] = "Problem:" + type(pa.failure()).__name__
        out["problem_message"] = str(pa.failure())[:200]
        pa = None
    else:
        pa = pa.unwrap()
    fmts = {}
    names = [n for n, _ in case["formats"]]
    if len(set(names)) != len(names):
        # only the CLI can be asked this; it must answer "mentioned multiple times" with exit 1
        out.setdefault("problem", "Problem:DuplicateFormat")
    for name, f in case["formats"]:
        st, pf = bounded(T, parse_format, f)
        if st != "ok":
            out["problem"] = "Hang" if st == "hang" else classify_exc(pf)
            return out
        if isinstance(pf, Failure):
            out.setdefault("problem", "Problem:" + type(pf.failure()).__name__)
            pf = None
        fmts[name] = pf.unwrap() if pf is not None else None
    problem = None
    if "problem" not in out:
        st, pr = bounded(T, make_problem, pa, fmts)
        if st != "ok":
            out["problem"] = "Hang" if st == "hang" else classify_exc(pr)
            return out
        if isinstance(pr, Failure):
            out["problem"] = "Problem:" + type(pr.failure()).__name__
            out["problem_message"] = str(pr.failure())[:200]
        else:
            problem = pr.unwrap()
            out["problem"] = "ok"

    # ---- CLI (also for refused requests: exit code 1 with a message, never a traceback)
    if case.get("cli") and not hung_here():
        out["cli"] = run_cli(case, T)

    if problem is None:
        return out

    # ---- model inputs
    from tensora.desugar import desugar_assignment

    desugared = desugar_assignment(problem.assignment)
    out["coq_assign"] = cdassign(desugared)
    out["coq_formats"] = cformats(problem.formats)
    out["identifiers"] = sorted(set(problem.formats.keys()) | {
        i for i in itertools.chain(desugared.target.indexes, *all_indexes(desugared.expression))
    })

    # ---- generate_code
    gen = {}
    codes = {}
    for lang in case["langs"]:
        for kinds in case["kinds_sets"]:
            key = "+".join(kinds) + "|" + lang
            if hung_here():
                continue
            r, code = gen_one(problem, kinds, lang, T)
            if code is not None:
                codes[key] = code
                if lang == "llvm":
                    r["toolchain"] = llvm_check(code)
            gen[key] = r
    # C: every requested subset must be literally the "\n\n"-join of its single-kind parts (then it
    # is a sub-translation-unit of the join of all parts, which gcc sees once).  The gcc runs are
    # deferred to the end of the batch (resolve_c_checks).  Anything that is not such a join is
    # compiled on its own.
    if "c" in case["langs"] and case.get("ccheck", True):
        singles = {}
        for k in KINDS:
            key = k + "|c"
            if key in codes:
                singles[k] = codes[key]
            elif key not in gen and not hung_here():
                r, code = gen_one(problem, [k], "c", T)
                if code is not None:
                    singles[k] = code
        joins = {}
        for kinds in case["kinds_sets"]:
            key = "+".join(kinds) + "|c"
            if key not in codes:
                continue
            if (len(set(kinds)) == len(kinds) and all(k in singles for k in kinds)
                    and codes[key] == "\n\n".join(singles[k] for k in kinds)):
                joins[key] = list(kinds)
                gen[key]["toolchain_via"] = "join"
            else:
                gen[key]["toolchain"] = gcc_check(codes[key])
                gen[key]["toolchain_via"] = "own"
        plain = not (set(out["identifiers"]) & set(KINDS)) and not case.get("own_gcc")
        out["_c"] = {"singles": singles, "joins": joins, "plain": plain}
    out["gen"] = gen

    if hung_here():
        out["stopped_after_hang"] = True
        return out

    # ---- tensor_method
    if case.get("tm"):
        out["tm"] = run_tm(case, "llvm", T)
    if case.get("tm_cffi"):
        out["tm_cffi"] = run_tm(case, "cffi", max(T, 60))

    # ---- CLI stdout must be the library's output
    if case.get("cli") and "cli" in out and out["cli"].get("exit_code") == 0:
        key = out["cli"]["key"]
        if key in codes:
            out["cli"]["same_as_library"] = out["cli"].pop("stdout") == codes[key] + "\n"
        else:
            out["cli"]["same_as_library"] = False
    if "cli" in out:
        out["cli"].pop("stdout", None)

    # ---- graphs (canonical text hashed; the model prints the same hashes)
    mode = case.get("graph", "none")
    if mode != "none":
        from tensora.desugar import DiagonalAccessError, best_algorithm
        from tensora.desugar._to_iteration_graphs import to_iteration_graphs

        st, r = bounded(T, best_algorithm, desugared, problem.formats)
        if st == "ok":
            match r:
                case Success(g):
                    text = show_graph(g)
                    out["graph_first"] = hash_string(text)
                    out["graph_first_text"] = text[:600]
                case Failure(err):
                    out["graph_first"] = "Diagonal" if isinstance(err, DiagonalAccessError) else "NoKernel"
        else:
            out["graph_first"] = "ERR:" + ("Hang" if st == "hang" else classify_exc(r))
        if mode == "all":
            cap = case.get("graph_cap", 40)

            def all_graphs():
                return list(itertools.islice(to_iteration_graphs(desugared, problem.formats), cap + 1))

            st, r = bounded(max(T, 20), all_graphs)
            if st == "ok":
                if len(r) <= cap:
                    out["graphs_all"] = [hash_string(show_graph(g)) for g in r]
                    out["graphs_n"] = len(r)
                else:
                    out["graphs_n"] = -1
            elif st == "exc" and isinstance(r, DiagonalAccessError):
                out["graphs_all"] = "Diagonal"
                out["graphs_n"] = 0
            else:
                out["graphs_all"] = "ERR:" + ("Hang" if st == "hang" else classify_exc(r))
    return out


def all_indexes(e):
    from tensora.desugar import ast as d

    match e:
        case d.Tensor(indexes=ix):
            yield ix
        case d.Add(left=l, right=r) | d.Multiply(left=l, right=r):
            yield from all_indexes(l)
            yield from all_indexes(r)
        case d.Contract(expression=x):
            yield from all_indexes(x)
        case _:
            return


def run_tm(case, backend, T):
    from tensora.compile import BackendCompiler, tensor_method

    st, v = bounded(T, tensor_method, case["assignment"], dict(case["formats"]), BackendCompiler[backend])
    if st == "hang":
        return {"outcome": "Hang"}
    if st == "exc":
        n = type(v).__name__
        if n in PROBLEM_TYPED:
            return {"outcome": "Problem:" + n}
        return {"outcome": classify_exc(v), "message": str(v)[:200]}
    return {"outcome": "Code"}


def run_cli(case, T):
    from typer.testing import CliRunner

    from tensora.cli import app

    kinds = case.get("cli_kinds") or case["kinds_sets"][0]
    lang = case.get("cli_lang") or case["langs"][0]
    args = [case["assignment"]]
    for name, f in case["formats"]:
        args += ["-f", f"{name}:{f}"]
    for k in kinds:
        args += ["-t", k]
    args += ["-l", lang]
    runner = CliRunner()
    st, res = bounded(T, runner.invoke, app, args)
    if st == "hang":
        return {"outcome": "Hang", "args": args}
    if st == "exc":
        return {"outcome": classify_exc(res), "args": args}
    exc = res.exception
    try:
        stderr = res.stderr
    except Exception:  # noqa: BLE001 - older click without separated stderr
        stderr = ""
    r = {
        "exit_code": res.exit_code,
        "args": args,
        "key": "+".join(kinds) + "|" + lang,
        "stderr_nonempty": bool(stderr.strip()),
        "stderr_head": stderr.strip()[:160],
        "stdout": res.stdout,
        "stdout_nonempty": bool(res.stdout.strip()),
    }
    if exc is not None and not isinstance(exc, SystemExit):
        r["traceback"] = classify_exc(exc)
    return r


def tu_of(singles: dict) -> str:
    return "\n\n".join(singles[k] for k in KINDS if k in singles)


def gcc_check_chunk(tus: list[str]) -> bool:
    """Several kernels in one translation unit (the kernel functions renamed by the preprocessor so
    that they do not clash).  Only a positive answer is used; on failure each one is re-run alone."""
    parts = [c_header()]
    for n, tu in enumerate(tus):
        for k in KINDS:
            parts.append(f"#define {k} {k}_q{n}")
        parts.append(f'#line 1 "kernel{n}.c"')
        parts.append(tu)
        for k in KINDS:
            parts.append(f"#undef {k}")
    try:
        p = subprocess.run(["gcc", "-fsyntax-only", "-std=c99", "-x", "c", "-"], input="\n".join(parts) + "\n",
                           capture_output=True, text=True, timeout=120)
    except subprocess.TimeoutExpired:
        return False
    return p.returncode == 0


def resolve_c_checks(results: list[dict], chunk: int = 24):
    pending = [r for r in results if r.get("_c") and r["_c"]["singles"] and r["_c"]["joins"]]
    ok_whole: dict[int, bool] = {}
    plain = [r for r in pending if r["_c"]["plain"]]
    for i in range(0, len(plain), chunk):
        grp = plain[i:i + chunk]
        if len(grp) > 1 and gcc_check_chunk([tu_of(r["_c"]["singles"]) for r in grp]):
            for r in grp:
                ok_whole[id(r)] = True
    good = {"ok": True, "first_error": "", "n_errors": 0}
    n_bad = 0
    for r in pending:
        c = r["_c"]
        if n_bad >= 10 and not ok_whole.get(id(r)):
            # the batch already has ten rejected outputs: enough failing inputs, do not spend minutes
            # attributing errors one by one (the entries are left without a tool-chain verdict)
            for key in c["joins"]:
                r["gen"][key]["toolchain_skipped"] = "many failures in this batch"
            continue
        if ok_whole.get(id(r)):
            per_kind = {k: good for k in c["singles"]}
        else:
            whole = gcc_check(tu_of(c["singles"]))
            if whole["ok"]:
                per_kind = {k: good for k in c["singles"]}
            elif len(c["singles"]) == 1 or all(set(ks) == set(c["singles"]) for ks in c["joins"].values()):
                # every requested list uses all the parts: the answer for the whole is the answer
                per_kind = {k: whole for k in c["singles"]}
            else:
                per_kind = {k: gcc_check(c["singles"][k]) for k in c["singles"]}
                if all(v["ok"] for v in per_kind.values()):
                    # only the combination fails (cannot happen for independent definitions)
                    per_kind = {k: whole for k in c["singles"]}
        if not all(v["ok"] for v in per_kind.values()):
            n_bad += 1
        for key, kinds in c["joins"].items():
            bad = [per_kind[k] for k in kinds if not per_kind[k]["ok"]]
            r["gen"][key]["toolchain"] = bad[0] if bad else good
    for r in results:
        r.pop("_c", None)


def main():
    req = json.loads(sys.stdin.read())
    T = float(req.get("call_timeout", 20))
    w = sys.stdout
    results = []
    for case in req["cases"]:
        w.write(json.dumps({"progress": case["id"]}) + "\n")
        w.flush()
        if HANGS[0] >= MAX_HANGS:
            results.append({"id": case["id"], "assignment": case["assignment"], "formats": case["formats"],
                            "skipped": "batch stopped after repeated hangs"})
            continue
        try:
            r = run_case(case, T)
        except Hang:
            r = {"id": case["id"], "assignment": case["assignment"], "formats": case["formats"], "harness_error": "Hang outside bounded call"}
        except Exception as e:  # noqa: BLE001
            r = {"id": case["id"], "assignment": case["assignment"], "formats": case["formats"],
                 "harness_error": f"{type(e).__name__}: {e}", "trace": traceback.format_exc()[-1500:]}
        results.append(r)
    resolve_c_checks(results)
    for r in results:
        w.write(json.dumps(r) + "\n")
    w.flush()


if __name__ == "__main__":
    os.environ.setdefault("PYTHONHASHSEED", "0")
    main()
