"""A small instrumented interpreter for tensora's IR (ir/ast.py), used by the C02 / C03 checks.

It runs the REAL IR of a real kernel (what generate_module_tensora returns, after peephole) on
concrete inputs with a heap in which
  * every block has an exact length, an owner (input / kernel) and a liveness bit,
  * every load and store is bounds-checked, a store into an input block, a use of a freed block or
    a read of an uninitialised cell is an error (MemError),
  * realloc makes a NEW block (common prefix copied) and frees the old one,
  * every allocation / reallocation / store touching the output arrays is logged.

This is a testing device (Python, unverified): it gives the exact final block lengths (one of
C02's observation points) and the sequence of protocol events from which the traces of
coq/model/Append.v are extracted.  Nothing here is an oracle for the property.
"""

from __future__ import annotations

from tensora.ir import ast as ir
from tensora.ir import types as irt


class MemError(Exception):
    def __init__(self, kind, detail):
        super().__init__(f"{kind}: {detail}")
        self.kind = kind
        self.detail = detail


class OutOfFuel(Exception):
    pass


class Blk:
    """A heap block: exact length [n], cells kept sparsely (absent = never initialised), so that the
    default initial capacity of 2^20 elements costs nothing."""

    __slots__ = ("id", "label", "elt", "n", "cells", "live", "owner")

    def __init__(self, id, label, elt, n, cells, owner):
        self.id = id
        self.label = label
        self.elt = elt
        self.n = n
        self.cells = cells  # dict index -> value
        self.live = True
        self.owner = owner

    def as_list(self):
        return [self.cells.get(i) for i in range(self.n)]


class Ptr:
    __slots__ = ("blk", "off")

    def __init__(self, blk, off=0):
        self.blk = blk
        self.off = off


class Null:
    """The NULL pointer (what allocate_taco_structure puts into an output's arrays)."""

    def __repr__(self):
        return "NULL"


NULL = Null()


class Struct:
    """taco_tensor_t: dimensions (Ptr), indices (list of [Ptr|None, Ptr|None] or None), vals."""

    def __init__(self, name, dimensions, indices, vals, is_output):
        self.name = name
        self.dimensions = dimensions
        self.indices = indices
        self.vals = vals
        self.is_output = is_output


class Machine:
    def __init__(self, fuel=2_000_000):
        self.blocks = []
        self.log = []  # ("alloc", label, n) | ("realloc", label, old_n, n) | ("store", label, index, value)
        self.fuel = fuel
        self.env = {}
        self.steps = 0

    # ------------------------------------------------------------------ heap
    def new_block(self, label, elt, n, cells, owner):
        b = Blk(len(self.blocks), label, elt, n, cells, owner)
        self.blocks.append(b)
        return b

    def check_ptr(self, p, what):
        if p is NULL:
            raise MemError("null-dereference", what)
        if not isinstance(p, Ptr):
            raise MemError("not-a-pointer", f"{what}: {p!r}")
        if not p.blk.live:
            raise MemError("use-after-free", f"{what}: block {p.blk.label}")

    def load(self, p, i):
        self.check_ptr(p, "load")
        k = p.off + i
        if not (0 <= k < p.blk.n):
            raise MemError("load-out-of-bounds", f"{p.blk.label}[{k}] with length {p.blk.n}")
        v = p.blk.cells.get(k)
        if v is None:
            raise MemError("uninitialised-read", f"{p.blk.label}[{k}]")
        return v

    def store(self, p, i, v):
        self.check_ptr(p, "store")
        k = p.off + i
        if p.blk.owner == "input":
            raise MemError("store-into-input", f"{p.blk.label}[{k}]")
        if not (0 <= k < p.blk.n):
            raise MemError("store-out-of-bounds", f"{p.blk.label}[{k}] with length {p.blk.n}")
        if p.blk.elt == "float":
            v = float(v)
        elif isinstance(v, float):
            raise MemError("ill-typed-store", f"float into {p.blk.label}")
        p.blk.cells[k] = v
        self.log.append(("store", p.blk.label, k, v))

    # ------------------------------------------------------------------ expressions
    def ev(self, e):
        m = getattr(self, "ev_" + type(e).__name__, None)
        if m is None:
            raise NotImplementedError(f"expression {type(e).__name__}")
        return m(e)

    def ev_Variable(self, e):
        if e.name not in self.env:
            raise MemError("undefined-variable", e.name)
        v = self.env[e.name]
        if v is None:
            raise MemError("uninitialised-variable", e.name)
        return v

    def ev_AttributeAccess(self, e):
        s = self.ev(e.target)
        if not isinstance(s, Struct):
            raise MemError("not-a-struct", repr(e))
        return ("field", s, e.attribute) if e.attribute == "indices" else getattr(s, e.attribute)

    def ev_ArrayIndex(self, e):
        t = self.ev(e.target)
        i = self.ev(e.index)
        if isinstance(t, tuple) and t[0] == "field":  # tensor.indices[i]
            lvl = t[1].indices[i]
            if lvl is None:
                raise MemError("indices-of-dense-level", f"{t[1].name}.indices[{i}]")
            return ("level", t[1], i)
        if isinstance(t, tuple) and t[0] == "level":  # tensor.indices[i][k]
            return t[1].indices[t[2]][i]
        return self.load(t, i)

    def ev_IntegerLiteral(self, e):
        return int(e.value)

    def ev_FloatLiteral(self, e):
        return float(e.value)

    def ev_BooleanLiteral(self, e):
        return bool(e.value)

    def arith(self, e, f):
        a, b = self.ev(e.left), self.ev(e.right)
        return f(a, b)

    def ev_Add(self, e):
        a, b = self.ev(e.left), self.ev(e.right)
        if isinstance(a, Ptr):
            return Ptr(a.blk, a.off + b)
        if isinstance(b, Ptr):
            return Ptr(b.blk, b.off + a)
        return a + b

    def ev_Subtract(self, e):
        return self.arith(e, lambda a, b: a - b)

    def ev_Multiply(self, e):
        return self.arith(e, lambda a, b: a * b)

    def ev_Equal(self, e):
        return self.arith(e, lambda a, b: a == b)

    def ev_NotEqual(self, e):
        return self.arith(e, lambda a, b: a != b)

    def ev_GreaterThan(self, e):
        return self.arith(e, lambda a, b: a > b)

    def ev_LessThan(self, e):
        return self.arith(e, lambda a, b: a < b)

    def ev_GreaterThanOrEqual(self, e):
        return self.arith(e, lambda a, b: a >= b)

    def ev_LessThanOrEqual(self, e):
        return self.arith(e, lambda a, b: a <= b)

    def ev_And(self, e):
        return bool(self.ev(e.left)) and bool(self.ev(e.right))

    def ev_Or(self, e):
        return bool(self.ev(e.left)) or bool(self.ev(e.right))

    def ev_Max(self, e):
        return self.arith(e, max)

    def ev_Min(self, e):
        return self.arith(e, min)

    def ev_BooleanToInteger(self, e):
        return 1 if self.ev(e.expression) else 0

    def elt_of(self, t):
        return "float" if isinstance(t, irt.Float) else "int"

    def ev_ArrayAllocate(self, e):
        n = self.ev(e.n_elements)
        if n < 0:
            raise MemError("negative-allocation", str(n))
        return ("alloc", self.elt_of(e.element_type), n)

    def ev_ArrayReallocate(self, e):
        old = self.ev(e.old)
        n = self.ev(e.n_elements)
        if n < 0:
            raise MemError("negative-allocation", str(n))
        self.check_ptr(old, "realloc")
        if old.off != 0:
            raise MemError("realloc-of-interior-pointer", old.blk.label)
        return ("realloc", old, self.elt_of(e.element_type), n)

    # ------------------------------------------------------------------ statements
    def assign(self, target, value):
        if isinstance(target, ir.Variable):
            value = self.materialise(target.name, value)
            self.env[target.name] = value
        elif isinstance(target, ir.AttributeAccess):
            s = self.ev(target.target)
            if not s.is_output:
                raise MemError("store-into-input", f"{s.name}.{target.attribute}")
            setattr(s, target.attribute, value)
        elif isinstance(target, ir.ArrayIndex):
            t = self.ev(target.target)
            i = self.ev(target.index)
            if isinstance(t, tuple) and t[0] == "level":
                if not t[1].is_output:
                    raise MemError("store-into-input", f"{t[1].name}.indices")
                t[1].indices[t[2]][i] = value
            else:
                self.store(t, i, value)
        else:
            raise NotImplementedError(repr(target))

    def materialise(self, label, value):
        if isinstance(value, tuple) and value and value[0] == "alloc":
            _, elt, n = value
            b = self.new_block(label, elt, n, {}, "kernel")
            self.log.append(("alloc", label, n))
            return Ptr(b)
        if isinstance(value, tuple) and value and value[0] == "realloc":
            _, old, elt, n = value
            cells = {k: v for k, v in old.blk.cells.items() if k < n}
            old.blk.live = False
            b = self.new_block(old.blk.label, elt, n, cells, "kernel")
            self.log.append(("realloc", old.blk.label, old.blk.n, n))
            return Ptr(b)
        return value

    def ex(self, s):
        self.steps += 1
        if self.steps > self.fuel:
            raise OutOfFuel()
        if isinstance(s, ir.Block):
            for x in s.statements:
                r = self.ex(x)
                if r is not None:
                    return r
            return None
        if isinstance(s, ir.Declaration):
            self.env.setdefault(s.name.name, None)
            return None
        if isinstance(s, ir.DeclarationAssignment):
            v = self.ev(s.value)
            self.assign(s.target.name, v)
            return None
        if isinstance(s, ir.Assignment):
            v = self.ev(s.value)
            self.assign(s.target, v)
            return None
        if isinstance(s, ir.Branch):
            return self.ex(s.if_true) if self.ev(s.condition) else self.ex(s.if_false)
        if isinstance(s, ir.Loop):
            while self.ev(s.condition):
                r = self.ex(s.body)
                if r is not None:
                    return r
                self.steps += 1
                if self.steps > self.fuel:
                    raise OutOfFuel()
            return None
        if isinstance(s, ir.Return):
            return ("return", self.ev(s.value))
        if isinstance(s, ir.Expression):
            self.ev(s)
            return None
        raise NotImplementedError(type(s).__name__)

    # ------------------------------------------------------------------ tensors
    def input_struct(self, name, r):
        dims = Ptr(self.new_block(f"{name}.dimensions", "int", len(r["dims"]), dict(enumerate(r["dims"])), "input"))
        indices = []
        for l, (m, ix) in enumerate(zip(r["modes"], r["indices"])):
            if m == "d":
                indices.append(None)
            else:
                indices.append(
                    [
                        Ptr(self.new_block(f"{name}_{l}_pos(in)", "int", len(ix[0]), dict(enumerate(ix[0])), "input")),
                        Ptr(self.new_block(f"{name}_{l}_crd(in)", "int", len(ix[1]), dict(enumerate(ix[1])), "input")),
                    ]
                )
        vals = Ptr(self.new_block(f"{name}_vals(in)", "float", len(r["vals"]), {i: float(v) for i, v in enumerate(r["vals"])}, "input"))
        return Struct(name, dims, indices, vals, False)

    def output_struct(self, name, dims, modes):
        d = Ptr(self.new_block(f"{name}.dimensions", "int", len(dims), dict(enumerate(dims)), "input"))
        indices = [None if m == "d" else [NULL, NULL] for m in modes]
        return Struct(name, d, indices, NULL, True)


def run_kernel(fn, out_name, out_dims, out_modes, out_ordering, inputs_raw, fuel=2_000_000):
    """Run one FunctionDefinition.  Returns a dict:
        {"status": "ok" | "memerror" | "outoffuel", "error": ..., "log": [...],
         "final": {"dims", "ordering", "modes", "indices": [[pos_cells, crd_cells] | []], "vals": cells},
         "lengths": {"<label>": exact final block length}}
    Cells may be None (never initialised)."""
    m = Machine(fuel)
    for p in fn.parameters:
        nm = p.name.name
        if nm == out_name:
            m.env[nm] = m.output_struct(nm, out_dims, out_modes)
        else:
            m.env[nm] = m.input_struct(nm, inputs_raw[nm])
    res = {"status": "ok", "error": None}
    try:
        m.ex(fn.body)
    except MemError as e:
        res["status"] = "memerror"
        res["error"] = {"kind": e.kind, "detail": e.detail}
    except OutOfFuel:
        res["status"] = "outoffuel"
    res["log"] = m.log
    out = m.env[out_name]
    final = {"dims": list(out_dims), "ordering": list(out_ordering), "modes": "".join(out_modes), "indices": [], "vals": None}
    lengths = {}
    complete = True
    for l, mode in enumerate(out_modes):
        if mode == "d":
            final["indices"].append([])
        else:
            pair = out.indices[l]
            if pair[0] is NULL or pair[1] is NULL or not pair[0].blk.live or not pair[1].blk.live:
                complete = False
                final["indices"].append([None, None])
            else:
                if pair[0].blk.n > 100000 or pair[1].blk.n > 100000:
                    complete = False  # a block that was never shrunk: too large to report cell by cell
                    final["indices"].append([None, None])
                else:
                    final["indices"].append([pair[0].blk.as_list(), pair[1].blk.as_list()])
                lengths[f"{out_name}_{l}_pos"] = pair[0].blk.n
                lengths[f"{out_name}_{l}_crd"] = pair[1].blk.n
    if out.vals is NULL or not out.vals.blk.live:
        complete = False
    elif out.vals.blk.n > 100000:
        # e.g. the default capacity that was never shrunk: report only what the structure can need
        final["vals"] = [out.vals.blk.cells.get(i) for i in range(min(out.vals.blk.n, 4096))]
        lengths[f"{out_name}_vals"] = out.vals.blk.n
    else:
        final["vals"] = out.vals.blk.as_list()
        lengths[f"{out_name}_vals"] = out.vals.blk.n
    res["final"] = final
    res["complete"] = complete
    res["lengths"] = lengths
    return res


# --------------------------------------------------------------------------------------------
# traces of coq/model/Append.v extracted from a run
# --------------------------------------------------------------------------------------------


def level_kinds(out_modes, level_dims):
    """For every compressed output level l: ("fixed", N) | ("double",) | ("max", D) and the index of
    the compressed level above (or None)."""
    kinds = {}
    for l, m in enumerate(out_modes):
        if m != "s":
            continue
        above = [k for k in range(l) if out_modes[k] == "s"]
        if not above:
            n = 1
            for k in range(l):
                n *= level_dims[k]
            kinds[l] = (("fixed", n), None)
        else:
            a = above[-1]
            between = list(range(a + 1, l))
            if not between:
                kinds[l] = (("double",), a)
            else:
                d = 1
                for k in between:
                    d *= level_dims[k]
                kinds[l] = (("max", d), a)
    return kinds


def extract_traces(log, out_name, out_modes, level_dims, final):
    """Per compressed level: {"kind":..., "d": dim, "visits": [[segs, adv]], "pos": final, "crd": final}
    or {"unextractable": reason}."""
    kinds = level_kinds(out_modes, level_dims)
    out = {}
    for l, (kind, above) in kinds.items():
        pos_label = f"{out_name}_{l}_pos"
        crd_label = f"{out_name}_{l}_crd"
        ev = [e for e in log if e[0] == "store" and e[1] in (pos_label, crd_label)]
        # the declaration's pos[0] = 0 comes first
        if not ev or ev[0][1] != pos_label or ev[0][2] != 0:
            out[l] = {"unextractable": "no initial pos[0] store"}
            continue
        body = ev[1:]
        segs = []  # (parent index, seg)
        cur = []
        ok = True
        for e in body:
            if e[1] == crd_label:
                cur.append(int(e[3]))
            else:
                segs.append((e[2] - 1, cur))
                cur = []
        if cur:
            out[l] = {"unextractable": "coordinates appended after the last pos assembly"}
            continue
        if kind[0] == "fixed":
            visits = [[[s for _, s in segs], True]]
            parents = [p for p, _ in segs]
            if parents != list(range(len(segs))):
                out[l] = {"unextractable": f"parents visited {parents}"}
                continue
        else:
            d = 1 if kind[0] == "double" else kind[1]
            visits = []
            if d > 0:
                if len(segs) % d != 0:
                    out[l] = {"unextractable": f"{len(segs)} parent closes, group size {d}"}
                    continue
                groups = [segs[i : i + d] for i in range(0, len(segs), d)]
                # final number of parent groups kept = final cursor of the level above
                pa = final["indices"][above]
                kept_parents = len(pa[1]) if pa and pa[1] is not None else None
                pp = 0
                for gi, g in enumerate(groups):
                    base = g[0][0]
                    if [p for p, _ in g] != list(range(base, base + d)) or base != pp * d:
                        ok = False
                        break
                    if gi + 1 < len(groups):
                        nxt = groups[gi + 1][0][0]
                        adv = nxt == base + d
                        if not adv and nxt != base:
                            ok = False
                            break
                    else:
                        adv = kept_parents is not None and kept_parents > pp
                    visits.append([[s for _, s in g], adv])
                    if adv:
                        pp += 1
                if not ok:
                    out[l] = {"unextractable": "parent positions not visited group by group"}
                    continue
        lv = final["indices"][l]
        out[l] = {
            "kind": list(kind),
            "d": level_dims[l],
            "visits": visits,
            "pos": lv[0],
            "crd": lv[1],
        }
    return out
