"""Dump tensora IR objects (ir.ast dataclasses) as Coq terms of the generated types (gen/IRAst.v).

The constructor names and field types come from the same class table the translator builds from
the source (py2coq.ir.build_universe), so dumper and generated inductives cannot drift apart."""

from __future__ import annotations

import dataclasses
import math
from pathlib import Path

from py2coq.core import float_lit
from py2coq.ir import build_universe

_U = None


def universe():
    global _U
    if _U is None:
        import tensora

        _U = build_universe(Path(tensora.__file__).resolve().parents[1])
    return _U


def coq_string(s: str) -> str:
    return '"' + s.replace('"', '""') + '"%string'


def dump(v, ty: str) -> str:
    U = universe()
    ty = ty.strip()
    if ty == "string":
        return coq_string(v)
    if ty == "Z":
        if isinstance(v, bool) or not isinstance(v, int):
            raise TypeError(f"expected int, got {v!r}")
        return f"({v})%Z"
    if ty == "bool":
        if not isinstance(v, bool):
            raise TypeError(f"expected bool, got {v!r}")
        return "true" if v else "false"
    if ty == "F":
        if isinstance(v, bool) or not isinstance(v, (int, float)):
            raise TypeError(f"expected float, got {v!r}")
        v = float(v)
        if math.isinf(v) or math.isnan(v):
            return "(B754_infinity false)" if v > 0 else ("(B754_infinity true)" if v < 0 else "B754_nan")
        return float_lit(v)
    if ty.startswith("(list "):
        inner = ty[6:-1]
        return "[" + "; ".join(dump(x, inner) for x in v) + "]"
    if ty.startswith("(option "):
        inner = ty[8:-1]
        return "None" if v is None else f"(Some {dump(v, inner)})"
    if ty in U.inds:
        cls = type(v).__name__
        ct = U.ctors.get(cls)
        if ct is None:
            raise TypeError(f"unknown IR class {cls}")
        if ct.ind != ty:
            emb = U.embed.get((ct.ind, ty))
            if emb is None:
                raise TypeError(f"{cls} is not a {ty}")
            return f"({emb} {dump(v, ct.ind)})"
        flds = dataclasses.fields(v)
        if [f.name for f in flds] != [fn for fn, _ in ct.fields]:
            raise TypeError(f"field mismatch for {cls}")
        args = " ".join(dump(getattr(v, fn), ft) for fn, ft in ct.fields)
        return f"({ct.coq} {args})" if args else ct.coq
    raise TypeError(f"cannot dump type {ty}")


def coq_expr(e) -> str:
    return dump(e, "expr")


def coq_stmt(s) -> str:
    return dump(s, "stmt")


def coq_function(f) -> str:
    return dump(f, "function_definition")


def coq_module(m) -> str:
    return dump(m, "module")


# --------------------------------------------------------------------------------------------
# obtaining IR from the library
# --------------------------------------------------------------------------------------------


def problem_of(assignment: str, formats: dict[str, str]):
    from tensora.expression import parse_assignment
    from tensora.format import parse_format
    from tensora.problem import make_problem

    a = parse_assignment(assignment).unwrap()
    fs = {k: parse_format(v).unwrap() for k, v in formats.items()}
    return make_problem(a, fs).unwrap()


def generate_functions(assignment: str, formats: dict[str, str], kinds=("evaluate",), optimise=True):
    """Returns (problem, [FunctionDefinition...]) replicating generate/_tensora.py step by step so
    that the optimisation pass can be bypassed (property C07 observes before/after)."""
    from returns.result import Failure

    from tensora.desugar import best_algorithm, desugar_assignment, index_dimensions, to_identifiable
    from tensora.ir import peephole
    from tensora.ir.ast import Module
    from tensora.iteration_graph import Definition, generate_ir
    from tensora.kernel_type import KernelType

    problem = problem_of(assignment, formats)
    fmts = problem.formats
    desugar = desugar_assignment(problem.assignment)
    output_variable = to_identifiable(desugar.target, fmts)
    definition = Definition(output_variable, fmts, index_dimensions(desugar))
    res = best_algorithm(desugar, fmts)
    if isinstance(res, Failure):
        raise res.failure()
    graph = res.unwrap()
    fns = [generate_ir(definition, graph, KernelType[k]) for k in kinds]
    module = Module(fns)
    if optimise:
        module = peephole(module)
    return problem, list(module.definitions)
