"""C11 harness 2: call the real evaluate_tensora with hand-made (also malformed) requests.

stdin : JSON {"cases": [{"id", "assignment": str, "output_format": str,
                         "left": TENSOR, "right": TENSOR, "bindings": [[name, "left"|"right"|"scalar"], ...]}]}
        TENSOR = {"dims": [...], "format": "dd"}   (filled with ones)
stdout: JSON {"results": [{"id", "kind": "pass", "dims": [...]} | {"id", "kind": "fail", "class", "message", "site"}]}
"""

from __future__ import annotations

import itertools
import json
import sys
import traceback

from tensora import Tensor
from tensora.compile import evaluate_tensora


def build(t):
    dims = tuple(t["dims"])
    dok = {c: 1.0 for c in itertools.product(*[range(d) for d in dims])}
    return Tensor.from_dok(dok, dimensions=dims, format=t["format"])


def site(exc):
    tb = traceback.extract_tb(exc.__traceback__)
    s = None
    for fr in tb:
        fn = fr.filename.replace("\\", "/")
        if "/tensora/" in fn:
            s = [fn.split("/tensora/", 1)[1], fr.name]
    return s or ["<outside tensora>", tb[-1].name if tb else ""]


def main():
    data = json.load(sys.stdin)
    out = []
    for c in data["cases"]:
        left, right = build(c["left"]), build(c["right"])
        kwargs = {}
        for name, what in c["bindings"]:
            kwargs[name] = {"left": left, "right": right}.get(what) or Tensor.from_lol(2.0)
        try:
            r = evaluate_tensora(c["assignment"], c["output_format"], **kwargs)
            out.append({"id": c["id"], "kind": "pass", "dims": list(r.dimensions)})
        except Exception as e:  # noqa: BLE001
            out.append({"id": c["id"], "kind": "fail", "class": type(e).__name__,
                        "message": str(e)[:120], "site": site(e)})
    json.dump({"results": out}, sys.stdout)


if __name__ == "__main__":
    main()
