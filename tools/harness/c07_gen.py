"""C07 implementation side: generate well-typed IR trees, run the REAL peephole on them and write
Coq shards that (a) compare the regenerated Gallina peephole with Python's output (translator
self-check) and (b) execute original vs. Python-optimised tree on the abstract machine over the
environments of spec/IREnvs.v (the searcher).

stdin: JSON {seed, n, outdir, prefix, per_shard}.  stdout: JSON summary."""

from __future__ import annotations

import json
import os
import random
import sys

from harness import irdump as D


def main():
    from tensora.ir import ast as ir
    from tensora.ir import types as T
    from tensora.ir._peephole import peephole_statement

    cfg = json.load(sys.stdin)
    rng = random.Random(cfg["seed"])
    V = ir.Variable
    INTS = [0, 1, 2, -1, 3]
    FLOATS = [0.0, 1.0, 2.5, -0.0, 0.5, 1.5, 0.1, 3.0, 0.7]

    def int_e(d):
        c = rng.random()
        if d <= 0 or c < 0.25:
            return rng.choice([ir.IntegerLiteral(rng.choice(INTS)), V("xi"), V("yi"),
                               ir.ArrayIndex(V("p"), ir.IntegerLiteral(rng.choice([0, 1, 2, 3])))])
        k = rng.choice(["add", "sub", "mul", "min", "max", "b2i", "idx"])
        if k == "add":
            return ir.Add(int_e(d - 1), int_e(d - 1))
        if k == "sub":
            return ir.Subtract(int_e(d - 1), int_e(d - 1))
        if k == "mul":
            return ir.Multiply(int_e(d - 1), int_e(d - 1))
        if k == "min":
            return ir.Min(int_e(d - 1), int_e(d - 1))
        if k == "max":
            return ir.Max(int_e(d - 1), int_e(d - 1))
        if k == "b2i":
            return ir.BooleanToInteger(bool_e(d - 1))
        return ir.ArrayIndex(V("p"), ir.Min(ir.Max(int_e(d - 1), ir.IntegerLiteral(0)), ir.IntegerLiteral(3)))

    def float_e(d):
        c = rng.random()
        if d <= 0 or c < 0.25:
            return rng.choice([ir.FloatLiteral(rng.choice(FLOATS)), V("xf"), V("yf"),
                               ir.ArrayIndex(V("q"), ir.IntegerLiteral(rng.choice([0, 1, 2, 3])))])
        op = rng.choice([ir.Add, ir.Subtract, ir.Multiply])
        shape = rng.choice(["ff", "if", "fi"])
        if shape == "ff":
            return op(float_e(d - 1), float_e(d - 1))
        if shape == "if":
            return op(int_e(d - 1), float_e(d - 1))
        return op(float_e(d - 1), int_e(d - 1))

    def bool_e(d):
        c = rng.random()
        if d <= 0 or c < 0.2:
            return rng.choice([ir.BooleanLiteral(True), ir.BooleanLiteral(False), V("b")])
        k = rng.choice(["cmp", "cmp", "and", "or", "same"])
        if k == "cmp":
            op = rng.choice([ir.Equal, ir.NotEqual, ir.LessThan, ir.GreaterThan, ir.LessThanOrEqual, ir.GreaterThanOrEqual])
            return op(int_e(d - 1), int_e(d - 1))
        if k == "same":
            op = rng.choice([ir.Equal, ir.NotEqual, ir.LessThan, ir.GreaterThan, ir.LessThanOrEqual, ir.GreaterThanOrEqual])
            e = int_e(d - 1)
            return op(e, e)
        if k == "and":
            return ir.And(bool_e(d - 1), bool_e(d - 1))
        return ir.Or(bool_e(d - 1), bool_e(d - 1))

    def num_e(d):
        return float_e(d) if rng.random() < 0.6 else int_e(d)

    def stmt(d):
        k = rng.choice(["ai", "af", "aq", "ap", "self", "decl", "block", "branch", "loop", "ret", "expr", "empty"]
                       if d > 0 else ["ai", "af", "aq", "self", "decl", "ret", "expr", "empty"])
        if k == "ai":
            return ir.Assignment(V(rng.choice(["xi", "yi"])), int_e(2))
        if k == "af":
            return ir.Assignment(V(rng.choice(["xf", "yf"])), num_e(2))
        if k == "aq":
            return ir.Assignment(ir.ArrayIndex(V("q"), ir.IntegerLiteral(rng.choice([0, 1, 2, 3]))), num_e(2))
        if k == "ap":
            return ir.Assignment(ir.ArrayIndex(V("p"), ir.IntegerLiteral(rng.choice([0, 1, 2, 3]))), int_e(2))
        if k == "self":
            t = rng.choice([V("xi"), V("xf"), ir.ArrayIndex(V("q"), ir.IntegerLiteral(1)),
                            ir.ArrayIndex(V("p"), ir.Add(ir.IntegerLiteral(0), ir.IntegerLiteral(2)))])
            return ir.Assignment(t, t)
        if k == "decl":
            ty, e = rng.choice([(T.integer, int_e(2)), (T.float, num_e(2)), (T.boolean, bool_e(2))])
            return ir.DeclarationAssignment(ir.Declaration(V(rng.choice(["z", "w"])), ty), e)
        if k == "block":
            ss = [stmt(d - 1) for _ in range(rng.randint(0, 3))]
            if ss and rng.random() < 0.3:  # a repeated statement
                j = rng.randrange(len(ss))
                ss.insert(j, ss[j])
            return ir.Block(ss, rng.choice([None, "c"]))
        if k == "branch":
            return ir.Branch(bool_e(2), stmt(d - 1), stmt(d - 1))
        if k == "loop":
            body = rng.choice([
                ir.Block([ir.Assignment(V("xi"), ir.Add(V("xi"), ir.IntegerLiteral(1))), stmt(d - 1)]),
                ir.Block([]),
                ir.Block([ir.Block([])]),
                ir.Assignment(V("xi"), ir.Add(V("xi"), ir.IntegerLiteral(1))),
            ])
            cond = rng.choice([ir.LessThan(V("xi"), ir.IntegerLiteral(3)), ir.BooleanLiteral(False),
                               ir.And(ir.LessThan(V("xi"), ir.IntegerLiteral(2)), bool_e(1)), bool_e(1)])
            return ir.Loop(cond, body)
        if k == "ret":
            return ir.Return(int_e(2))
        if k == "expr":
            return num_e(2)
        return ir.Block([])

    # curated rule triggers: each identity / annihilator on either side, int and float operands
    curated = []
    xs = {"i": [V("xi"), ir.ArrayIndex(V("p"), ir.IntegerLiteral(1)), ir.Multiply(V("xi"), V("yi"))],
          "f": [V("xf"), ir.ArrayIndex(V("q"), ir.IntegerLiteral(0)), ir.Multiply(V("xf"), V("yi"))]}
    lits = [ir.IntegerLiteral(0), ir.IntegerLiteral(1), ir.FloatLiteral(0.0), ir.FloatLiteral(1.0), ir.FloatLiteral(-0.0)]
    for ty in "if":
        for x in xs[ty]:
            for lit in lits:
                for op in (ir.Add, ir.Subtract, ir.Multiply):
                    for e in (op(x, lit), op(lit, x)):
                        curated.append(ir.Assignment(V("yf"), e))
                        curated.append(ir.Assignment(V("yf"), ir.Multiply(e, V("yi"))))
                        curated.append(ir.Assignment(V("yf"), ir.Add(e, V("xi"))))
                        if ty == "i":
                            curated.append(ir.Assignment(ir.ArrayIndex(V("q"), ir.IntegerLiteral(2)), ir.Subtract(V("yi"), e)))
    for c in (ir.BooleanLiteral(True), ir.BooleanLiteral(False)):
        for y in (V("b"), ir.LessThan(ir.ArrayIndex(V("p"), V("xi")), ir.IntegerLiteral(1))):
            for op in (ir.And, ir.Or):
                for e in (op(c, y), op(y, c)):
                    curated.append(ir.DeclarationAssignment(ir.Declaration(V("z"), T.boolean), e))
                    curated.append(ir.Branch(e, ir.Assignment(V("xi"), ir.IntegerLiteral(5)), ir.Assignment(V("yi"), ir.IntegerLiteral(6))))
                    curated.append(ir.Loop(e, ir.Block([])))
    # linear forms with negative / non-unit coefficients on either side (negation rules)
    coefs = [ir.IntegerLiteral(-1), ir.FloatLiteral(-1.0), ir.IntegerLiteral(2), ir.FloatLiteral(2.5), ir.IntegerLiteral(1)]
    for ca in coefs:
        for xa in (V("xf"), V("xi"), ir.ArrayIndex(V("q"), ir.IntegerLiteral(2))):
            for yb in (V("yf"), V("yi")):
                for op in (ir.Add, ir.Subtract):
                    for m in (ir.Multiply(ca, xa), ir.Multiply(xa, ca)):
                        curated.append(ir.Assignment(ir.ArrayIndex(V("q"), ir.IntegerLiteral(0)), op(m, yb)))
                        curated.append(ir.Assignment(ir.ArrayIndex(V("q"), ir.IntegerLiteral(0)), op(yb, m)))
    # branch chains with empty arms (a dropped guard changes which arm runs)
    conds = [ir.LessThan(V("xi"), V("yi")), ir.Equal(V("xi"), ir.IntegerLiteral(1)), V("b"), ir.GreaterThan(V("yi"), ir.IntegerLiteral(0))]
    acts = [ir.Assignment(V("xi"), ir.IntegerLiteral(7)), ir.Assignment(ir.ArrayIndex(V("p"), ir.IntegerLiteral(0)), ir.IntegerLiteral(9)),
            ir.Return(ir.IntegerLiteral(3))]
    empties = [ir.Block([]), ir.Block([ir.Block([])], "c"), ir.Assignment(V("yi"), V("yi")),
               ir.Assignment(ir.ArrayIndex(V("q"), ir.IntegerLiteral(1)), ir.Add(ir.ArrayIndex(V("q"), ir.IntegerLiteral(1)), ir.IntegerLiteral(0)))]
    for c1 in conds:
        for c2 in conds:
            if c1 is c2:
                continue
            for em in empties:
                for a1 in acts[:2]:
                    curated.append(ir.Branch(c1, em, ir.Branch(c2, a1, acts[2])))
                    curated.append(ir.Branch(c1, em, ir.Branch(c2, em, a1)))
                    curated.append(ir.Branch(c1, a1, ir.Branch(c2, em, acts[0])))
                curated.append(ir.Block([ir.Branch(c1, em, ir.Branch(c2, acts[1], ir.Block([]))), ir.Assignment(V("yi"), ir.Add(V("yi"), V("xi")))]))
    # constant comparisons (any folding rule must agree with the arithmetic)
    for op in (ir.Equal, ir.NotEqual, ir.LessThan, ir.GreaterThan, ir.LessThanOrEqual, ir.GreaterThanOrEqual):
        for (l, r) in ((0, 1), (1, 0), (1, 1), (2, 1), (-1, 0), (0, 0)):
            c = op(ir.IntegerLiteral(l), ir.IntegerLiteral(r))
            curated.append(ir.Assignment(V("xi"), ir.BooleanToInteger(c)))
            curated.append(ir.Branch(c, ir.Assignment(V("xi"), ir.IntegerLiteral(5)), ir.Assignment(V("yi"), ir.IntegerLiteral(6))))
        curated.append(ir.Assignment(V("yi"), ir.BooleanToInteger(op(ir.Multiply(V("xi"), ir.IntegerLiteral(0)), ir.IntegerLiteral(1)))))
        curated.append(ir.Loop(ir.And(op(ir.IntegerLiteral(2), ir.IntegerLiteral(1)), ir.LessThan(V("xi"), ir.IntegerLiteral(3))),
                               ir.Assignment(V("xi"), ir.Add(V("xi"), ir.IntegerLiteral(1)))))
    # repeated / adjacent statements (a statement-level rule must not merge them)
    incs = [ir.Assignment(V("xi"), ir.Add(V("xi"), ir.IntegerLiteral(1))),
            ir.Assignment(V("xf"), ir.Multiply(V("xf"), ir.FloatLiteral(2.5))),
            ir.Assignment(ir.ArrayIndex(V("q"), ir.IntegerLiteral(1)), ir.Add(ir.ArrayIndex(V("q"), ir.IntegerLiteral(1)), ir.IntegerLiteral(10))),
            ir.Assignment(ir.ArrayIndex(V("p"), V("yi")), ir.Subtract(ir.ArrayIndex(V("p"), V("yi")), V("xi"))),
            ir.Assignment(V("yi"), ir.Multiply(V("yi"), ir.Add(ir.IntegerLiteral(0), ir.IntegerLiteral(2))))]
    for a in incs:
        curated.append(ir.Block([a, a]))
        curated.append(ir.Block([a, a, a], "c"))
        for b in incs:
            if a is not b:
                curated.append(ir.Block([a, b, a]))
        curated.append(ir.Block([a, ir.Block([]), a]))
        curated.append(ir.Branch(V("b"), ir.Block([a, a]), a))
    curated.append(ir.Block([ir.Assignment(V("xi"), V("yi")), ir.Assignment(V("yi"), V("xi")), ir.Assignment(V("xi"), V("yi"))]))
    curated.append(ir.Block([ir.DeclarationAssignment(ir.Declaration(V("z"), T.integer), V("xi")),
                             ir.DeclarationAssignment(ir.Declaration(V("z"), T.integer), ir.Add(V("z"), V("z"))),
                             ir.Assignment(V("yi"), V("z"))]))
    curated.append(ir.Branch(V("b"), ir.Block([]), ir.Block([ir.Block([])])))
    curated.append(ir.Branch(ir.LessThan(ir.ArrayIndex(V("p"), V("xi")), ir.IntegerLiteral(0)), ir.Block([]), ir.Block([])))
    curated.append(ir.Assignment(V("yf"), ir.Multiply(ir.Multiply(V("xi"), ir.FloatLiteral(1.0)), V("yi"))))
    curated.append(ir.Assignment(V("yf"), ir.Subtract(ir.IntegerLiteral(0), V("xf"))))
    # nested literals whose combination is inexact in binary64 (any re-association / constant merging rule changes the
    # rounding): c1 op (c2 op x), (x op c2) op c1, mixed + and *, int and float literals
    nd = [ir.FloatLiteral(0.1), ir.FloatLiteral(3.0), ir.FloatLiteral(0.7), ir.IntegerLiteral(3), ir.FloatLiteral(-1.0), ir.FloatLiteral(1e16)]
    for c1 in nd:
        for c2 in nd:
            if c1 is c2:
                continue
            for x in (V("xf"), V("yf"), ir.ArrayIndex(V("q"), ir.IntegerLiteral(2))):
                for op1 in (ir.Multiply, ir.Add, ir.Subtract):
                    for op2 in (ir.Multiply, ir.Add):
                        if rng.random() < 0.5:
                            continue
                        for e in (op1(c1, op2(c2, x)), op1(op2(x, c2), c1), op1(c1, op2(x, c2))):
                            curated.append(ir.Assignment(ir.ArrayIndex(V("q"), ir.IntegerLiteral(0)), e))
    # counting loops entered above / at / below their bound, counter read afterwards (a closed-form rule must keep the
    # value when the loop does not run)
    for cnt, bound in ((V("xi"), V("yi")), (V("yi"), V("xi")), (V("xi"), ir.IntegerLiteral(2)), (V("yi"), ir.ArrayIndex(V("p"), ir.IntegerLiteral(0)))):
        for cmp in (ir.LessThan, ir.LessThanOrEqual, ir.NotEqual):
            if cmp is ir.NotEqual:
                continue  # may not terminate
            loop = ir.Loop(cmp(cnt, bound), ir.Assignment(cnt, ir.Add(cnt, ir.IntegerLiteral(1))))
            curated.append(ir.Block([loop, ir.Assignment(ir.ArrayIndex(V("p"), ir.IntegerLiteral(1)), cnt)]))
            curated.append(ir.Block([loop, ir.Return(cnt)]))
            loop2 = ir.Loop(cmp(cnt, bound), ir.Block([ir.Assignment(cnt, ir.Add(cnt, ir.IntegerLiteral(1)))]))
            curated.append(ir.Block([loop2, ir.Assignment(V("yf"), ir.Multiply(V("xf"), cnt))]))

    trees = list(curated)
    while len(trees) < cfg["n"]:
        trees.append(stmt(rng.choice([1, 2, 2, 3])))
    trees = trees[: max(cfg["n"], len(curated))]

    per = cfg.get("per_shard", 200)
    shards = []
    kinds = {}
    changed = 0
    for k in range(0, len(trees), per):
        chunk = trees[k:k + per]
        pairs = []
        for s in chunk:
            o = peephole_statement(s)
            if o != s:
                changed += 1
            kinds[type(s).__name__] = kinds.get(type(s).__name__, 0) + 1
            pairs.append(f"({D.coq_stmt(s)}, {D.coq_stmt(o)})")
        name = f"{cfg['prefix']}_{k // per}"
        head = (
            "From Coq Require Import ZArith Bool List String.\n"
            "From Flocq Require Import Core BinarySingleNaN.\n"
            "From TV Require Import spec.Num gen.IRAst {extra}spec.IRSem spec.IRCompare spec.IREnvs.\n"
            "Import ListNotations.\nOpen Scope Z_scope.\n"
            "Definition cases : list (stmt * stmt) := [\n  " + ";\n  ".join(pairs) + "\n].\n"
        )
        # translator self-check: regenerated Gallina peephole == Python peephole
        with open(os.path.join(cfg["outdir"], name + "_sc.v"), "w") as f:
            f.write(head.replace("{extra}", "gen.Peephole ")
                    + "Eval vm_compute in (map (fun '(s, s') => stmt_eqb (peephole_statement s) s') cases).\n")
        # searcher: original vs Python-optimised on the machine, all environments (independent of
        # the generated Peephole.v, so it still runs when the translation or a proof is broken)
        with open(os.path.join(cfg["outdir"], name + "_run.v"), "w") as f:
            f.write(head.replace("{extra}", "") + "Eval vm_compute in (run_all 60 cases).\n")
        shards.append({"name": name, "n": len(chunk),
                       "trees": [repr(s) for s in chunk],
                       "optimised": [repr(peephole_statement(s)) for s in chunk]})
    with open(os.path.join(cfg["outdir"], cfg["prefix"] + "_index.json"), "w") as f:
        json.dump({"shards": shards}, f)
    print(json.dumps({"trees": len(trees), "curated": len(curated), "changed_by_peephole": changed,
                      "shards": len(shards), "root_kinds": kinds}))


if __name__ == "__main__":
    main()
