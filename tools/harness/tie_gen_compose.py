"""TIE "compose" self-check: the COMPOSED regenerated functions against the real ones, inside coqc.

No translator of its own (the target composes gen/GrammarGen.v, gen/ProblemGen.v, gen/TensorOps.v and
gen/GlueGen.v); what is compared here is the composition itself:

  A. tensora.expression.parse_assignment(s)  vs  GrammarGen.parse_assignment fl Compose_post.gen_post s
     -- the grammar's `Assignment(...)` hook is the REGENERATED __post_init__ (TIE grammar's own self-check
     uses the hand model's validate there): valid sentences, mutations, the three validation errors.
  B. the assignment string that the REAL operator layer hands to evaluate_tensora (recorded), parsed by the real
     parser  vs  parsed by the fully regenerated parser: the same tree.
  C. tensora.cli.tensora(a, formats, kinds, language) with generate_code replaced by a recorder  vs
     GlueGen.cli_tensora (parse_assignment_cli fl) parse_named_format_cli make_problem_cli <recorder>:
     the Problem that reaches generate_code (assignment tree, formats with order, dense defaults), or Exit(1).
"""

from __future__ import annotations

from harness.tie_gen_grammar import FLOAT_RE, assignment_strings, cfloat, classify, clist, cstr, dec_of, ex_term
from harness.tie_gen_grammar import HEAD as GHEAD

DEFS = """
From TV Require gen.TensorMethod gen.ProblemGen gen.IterGraphs gen.GlueGen model.GraphsIter.
From TV Require Import model.Compose.
Module GLc := TV.gen.GlueGen.
Module IGc := TV.gen.IterGraphs.
Definition fmt_eqb_i (a b : IGc.Format) : bool := TV.gen.ProblemGen.Format_eqb (fmt_i2t a) (fmt_i2t b).
Definition problem_eqb_l (p q : GLc.Problem) : bool :=
  TV.gen.ProblemGen.ex_assignment_eqb (GLc.Problem_assignment p) (GLc.Problem_assignment q)
  && leqb (fun x y => String.eqb (fst x) (fst y) && fmt_eqb_i (snd x) (snd y)) (GLc.Problem_formats p) (GLc.Problem_formats q).
Definition kt_eqb := GLc.KernelType_eqb.
Definition lang_eqb (a b : GLc.Language) : bool :=
  match a, b with GLc.Language_c, GLc.Language_c => true | GLc.Language_llvm, GLc.Language_llvm => true | _, _ => false end.
Definition recorder (expected : GLc.Problem) (ks : list GLc.KernelType) (lang : GLc.Language)
  (p : GLc.Problem) (ks' : list GLc.KernelType) (lang' : GLc.Language) : TV.model.GraphsIter.pres (string + string) :=
  if problem_eqb_l p expected && leqb kt_eqb ks' ks && lang_eqb lang' lang
  then TV.model.GraphsIter.POk (inl "CODE") else TV.model.GraphsIter.POk (inl "OTHER REQUEST").
Definition pres_eqb (a b : TV.model.GraphsIter.pres string) : bool :=
  match a, b with
  | TV.model.GraphsIter.POk x, TV.model.GraphsIter.POk y => String.eqb x y
  | TV.model.GraphsIter.PRaise x, TV.model.GraphsIter.PRaise y => String.eqb x y
  | _, _ => false
  end.
Definition fl0 (d : dec) : F := nanF.
Definition cli_case (expected : GLc.Problem) (a : string) (strs : list string) (ks : list GLc.KernelType)
  (lang : GLc.Language) (want : TV.model.GraphsIter.pres string) : bool :=
  pres_eqb (GLc.cli_tensora (parse_assignment_cli fl0) parse_named_format_cli make_problem_cli
              (recorder expected ks lang) a strs ks lang) want.
Definition dummy_problem : GLc.Problem := GLc.MkProblem (GD.ExAssignment (GD.ExInteger 0) (GD.ExInteger 0)) [].
"""

CLI_ASSIGNMENTS = {
    "y(i) = A(i,j) * x(j)": ["A:ds", "A:d1s0", "x:d", "x:s", "y:d", "y:s", "A:sd"],
    "a(i,j) = b(i,j) + c(j,i)": ["b:ds", "c:d1d0", "a:dd", "a:ss", "c:ds"],
    "a = b(i) * c(i)": ["b:s"],
    "a() = b(i) * c(i)": ["b:s", "c:d", "a:"],
    "y(i) = ": [],
    "a(i) = a(i) + b(i)": ["a:d", "b:s"],
    "a(i) = b(i) + b(i,j)": ["b:d"],
    "a(i) = b(a)": ["b:d"],
    "A(i,j) = B(i,k) * C(k,j)": ["B:ss", "C:dd", "A:ds", "B:ds", "C:d1s0"],
    "t(i) = 2 * x(i) - (y(i) - z(i))": ["x:s", "t:d", "z:s"],
    "((": ["A:d"],
    "y(i) = A(i,j) * x(j) + z(i)": ["A:ds", "z:s", "x:d", "y:d"],
}
BAD_FORMATS = ["A:", "A", "A:dx", "q:d", "A:d0d0", "A:d", "y:dd", "x:d1", ":d"]


def operator_strings(rng, n):
    """assignment strings recorded from the real operator layer (real tensors, every operator)"""
    import tensora.compile
    from tensora import Tensor
    from tensora.format import Format, Mode

    calls = []

    def recorder(assignment, output_format, **kwargs):
        calls.append(assignment)
        return "RESULT"

    original = tensora.compile.evaluate_tensora
    tensora.compile.evaluate_tensora = recorder
    out = []
    try:
        for _ in range(n * 3):
            if len(out) >= n:
                break
            op = rng.choice(["__add__", "__radd__", "__sub__", "__rsub__", "__mul__", "__rmul__", "__matmul__", "__rmatmul__"])
            order = rng.choice([1, 2]) if "matmul" in op else rng.choice([0, 1, 2, 3, 4])
            dims = tuple(rng.choice([1, 2, 3]) for _ in range(order))

            def tensor(d):
                modes = tuple(rng.choice([Mode.dense, Mode.compressed]) for _ in d)
                ordering = list(range(len(d)))
                rng.shuffle(ordering)
                return Tensor.from_dok({}, dimensions=d, format=Format(modes, tuple(ordering)))

            a = tensor(dims)
            if "matmul" in op:
                o2 = rng.choice([1, 2])
                inner = dims[-1] if not op.startswith("__r") else dims[0]
                d2 = (inner,) + ((rng.choice([1, 2]),) if o2 == 2 else ())
                if op.startswith("__r"):
                    d2 = tuple(reversed(d2))
                b = tensor(d2)
            else:
                b = rng.choice([tensor(dims), 2, 2.5])
            calls.clear()
            try:
                r = getattr(Tensor, op)(a, b)
            except Exception:  # noqa: BLE001
                continue
            if r == "RESULT" and len(calls) == 1:
                out.append((calls[0], f"{op} order {order}"))
    finally:
        tensora.compile.evaluate_tensora = original
    return out


def cli_case(rng):
    import tensora.cli as C
    import typer
    from returns.result import Success
    from tensora.format import Mode
    from tensora.generate import Language
    from tensora.kernel_type import KernelType

    a = rng.choice(sorted(CLI_ASSIGNMENTS))
    pool = CLI_ASSIGNMENTS[a] or BAD_FORMATS
    strs = [rng.choice(pool) for _ in range(rng.choice([0, 0, 1, 2, 2, 3]))]
    if rng.random() < 0.7:
        seen_t, keep = set(), []
        for s_ in strs:
            if s_.split(":")[0] not in seen_t:
                seen_t.add(s_.split(":")[0])
                keep.append(s_)
        strs = keep
    if rng.random() < 0.15:
        strs.insert(rng.randrange(len(strs) + 1), rng.choice(BAD_FORMATS))
    ks = [rng.choice(list(KernelType)) for _ in range(rng.choice([0, 1, 1, 2, 3]))]
    lang = rng.choice(list(Language))
    rec = {"problem": None, "args": None, "out": []}

    def gc(problem, kernel_types, language):
        rec["problem"] = problem
        rec["args"] = (list(kernel_types), language)
        return Success("CODE")

    def echo(msg=None, err=False, **kw):
        if not err:
            rec["out"].append(str(msg))

    saved = (C.generate_code, typer.echo)
    C.generate_code, typer.echo = gc, echo
    try:
        try:
            C.tensora(a, strs, ks, lang, None)
            want = f"(TV.model.GraphsIter.POk {cstr(rec['out'][-1])})" if len(rec["out"]) == 1 else '(TV.model.GraphsIter.PRaise "NoOutput")'
        except typer.Exit as e:
            want = f'(TV.model.GraphsIter.PRaise "Exit({e.exit_code})")'
        except Exception as e:  # noqa: BLE001
            want = f"(TV.model.GraphsIter.PRaise {cstr(type(e).__name__)})"
    finally:
        C.generate_code, typer.echo = saved
    if rec["args"] is not None and (rec["args"][0] != ks or rec["args"][1] != lang):
        want = '(TV.model.GraphsIter.PRaise "RequestChanged")'
    p = rec["problem"]
    if p is None:
        pt = "dummy_problem"
    else:
        def fmt(f):
            ms = clist("ExhaustAst.Mode_dense" if m is Mode.dense else "ExhaustAst.Mode_compressed" for m in f.modes)
            return f"(IGc.MkFormat {ms} {clist(f'({o})%Z' for o in f.ordering)})"

        fs = clist(f"({cstr(k)}, {fmt(v)})" for k, v in p.formats.items())
        pt = f"(GLc.MkProblem (GD.ExAssignment {ex_term(p.assignment.target)} {ex_term(p.assignment.expression)}) {fs})"
    return (f"cli_case {pt} {cstr(a)} {clist(cstr(s) for s in strs)} {clist('GLc.KernelType_' + k.name for k in ks)} "
            f"GLc.Language_{lang.name} {want}",
            f"cli.tensora({a!r}, {strs}, {[k.name for k in ks]}, {lang.name}) -> {want[-40:]}")


def t_compose(rng, n):
    from tensora.expression._parser import parse_assignment

    n_ops = max(20, n // 6)
    n_cli = max(30, n // 4)
    n_asg = max(40, n - n_ops - n_cli)
    cases, descr = [], []
    table: dict[tuple[int, int], float] = {}
    strings = [(s, "text") for s in assignment_strings(rng, n_asg)] + operator_strings(rng, n_ops)
    for s, origin in strings:
        for i, ch in enumerate(s):
            if ch in "0123456789":
                m = FLOAT_RE.match(s, i)
                if m:
                    table[dec_of(m.group(0))] = float(m.group(0))
        kind, cls, val = classify(parse_assignment, s)
        call = f"(parse_assignment fl gen_post {cstr(s)})"
        if kind == "ok":
            cases.append(f"asg_ok {call} {ex_term(val.target)} {ex_term(val.expression)}")
        else:
            cases.append(f"same_cls {call} {1 if kind == 'fail' else 2} {cstr(cls)}")
        descr.append(f"[{origin}] parse_assignment {s[:80]!r} -> {kind} {cls or ''}")
    for _ in range(n_cli):
        c, d = cli_case(rng)
        cases.append(c)
        descr.append(d)
    text = GHEAD + DEFS
    rows = clist(f"(Dec {m}%N ({e})%Z, {cfloat(v)})" for (m, e), v in sorted(table.items()))
    text += f"Definition float_table : list (dec * F) := {rows}.\n"
    text += ("Definition fl (d : dec) : F :=\n"
             "  match find (fun p => dec_eqb (fst p) d) float_table with Some p => snd p | None => nanF end.\n")
    text += "Definition results : list bool :=\n " + ";\n ".join(cases).join(["[", "]"]) + ".\n"
    text += "Eval vm_compute in (failing results).\n"
    return {"coq": text, "n": len(cases), "descr": descr}


TARGETS = {"compose": t_compose}
