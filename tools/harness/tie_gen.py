"""TIE translator self-check, implementation side.

For each requested target: generate arguments, run the REAL Python functions of /repo on them and
write a Coq file that evaluates the REGENERATED Gallina functions (coq/gen/*.v) on the same
arguments and prints the indexes of the cases on which they differ.

stdin : JSON {seed, n, names: [...]}
stdout: JSON {name: {"coq": <text of the scratch file>, "n": <cases>, "descr": [<short text per case>]}}
"""

from __future__ import annotations

import json
import math
import random
import sys

HEAD = """From Coq Require Import ZArith List Bool String Ascii.
From TV Require Import spec.Num spec.PyBase spec.PyLib.
Import ListNotations.
Open Scope string_scope.
Fixpoint failing_from (i : nat) (l : list bool) : list nat :=
  match l with [] => [] | b :: t => if b then failing_from (S i) t else i :: failing_from (S i) t end.
Definition failing (l : list bool) : list nat := failing_from 0 l.
Definition subset (a b : list string) : bool := forallb (fun x => existsb (String.eqb x) b) a.
Definition set_eqb (a b : list string) : bool := subset a b && subset b a.
"""


def cstr(s: str) -> str:
    return '"' + s.replace('"', '""') + '"'


def cz(i: int) -> str:
    return f"({i})%Z"


def cfloat(v: float) -> str:
    if v == 0.0 and math.copysign(1.0, v) > 0:
        return "F0"
    if v == 1.0:
        return "F1"
    m, e = math.frexp(abs(v))
    mi = int(m * (1 << 53))
    ee = e - 53
    while mi and mi % 2 == 0:
        mi //= 2
        ee += 1
    neg = "true" if math.copysign(1.0, v) < 0 else "false"
    return f"(Fmake {neg} {mi} ({ee}))"


def clist(xs) -> str:
    return "[" + "; ".join(xs) + "]"


def cbool(b) -> str:
    return "true" if b else "false"


# ------------------------------------------------------------------------------------------------
# identifiable expressions
# ------------------------------------------------------------------------------------------------


def id_term(e) -> str:
    from tensora.iteration_graph.identifiable_expression import ast as I

    if isinstance(e, I.Integer):
        return f"(IdInteger {cz(e.value)})"
    if isinstance(e, I.Float):
        return f"(IdFloat {cfloat(e.value)})"
    if isinstance(e, I.Tensor):
        modes = clist("Mode_" + m.name for m in e.modes)
        return f"(IdTensor {cstr(e.id)} {cstr(e.name)} {clist(cstr(i) for i in e.indexes)} {modes})"
    if isinstance(e, I.Add):
        return f"(IdAdd {id_term(e.left)} {id_term(e.right)})"
    if isinstance(e, I.Multiply):
        return f"(IdMultiply {id_term(e.left)} {id_term(e.right)})"
    raise TypeError(e)


def gen_id_expr(rng, depth, ill_formed=False):
    from tensora.format import Mode
    from tensora.iteration_graph.identifiable_expression import ast as I

    c = rng.random()
    if depth <= 0 or c < 0.3:
        k = rng.random()
        if k < 0.2:
            return I.Integer(rng.choice([0, 0, 1, 2, -1]))
        if k < 0.4:
            return I.Float(rng.choice([0.0, -0.0, 1.0, 2.5, 0.5]))
        name = rng.choice(["A", "B", "c"])
        tid = f"{rng.randrange(3)}_{name}"
        n = rng.randrange(0, 4)
        idx = tuple(rng.choice(["i", "j", "k"]) for _ in range(n))
        nm = n
        if ill_formed and rng.random() < 0.3:
            nm = rng.randrange(0, n + 1)
        modes = tuple(rng.choice([Mode.dense, Mode.compressed]) for _ in range(nm))
        return I.Tensor(tid, name, idx, modes)
    op = rng.choice([I.Add, I.Multiply])
    return op(gen_id_expr(rng, depth - 1, ill_formed), gen_id_expr(rng, depth - 1, ill_formed))


def t_exhaust(rng, n):
    from tensora.iteration_graph.identifiable_expression._exhaust_tensor import exhaust_tensor

    cases, descr = [], []
    for i in range(n):
        e = gen_id_expr(rng, rng.choice([1, 2, 3, 4]))
        ref = f"{rng.randrange(3)}_{rng.choice(['A', 'B', 'c'])}"
        r = exhaust_tensor(e, ref)
        cases.append(f"({id_term(e)}, {cstr(ref)}, ({id_term(r)}, {cbool(r is e)}))")
        descr.append(f"exhaust_tensor({e}, {ref!r})")
    text = HEAD + "From TV Require Import gen.ExhaustAst gen.Exhaust.\n"
    text += "Definition cases : list (id_expr * string * (id_expr * bool)) :=\n " + clist(cases) + ".\n"
    text += ("Definition ok (c : id_expr * string * (id_expr * bool)) : bool :=\n"
             "  let '(e, r, (v, same)) := c in let '(v', same') := exhaust_tensor e r in\n"
             "  id_expr_eqb v' v && Bool.eqb same' same.\n"
             "Eval vm_compute in (failing (map ok cases)).\n")
    return {"coq": text, "n": n, "descr": descr}


def t_context(rng, n):
    from tensora.iteration_graph.identifiable_expression._extract_context import extract_context

    cases, descr = [], []

    def leaves(ls):
        return clist(f"({id_term(l.tensor)}, {cz(l.layer)})" for l in ls)

    for i in range(n):
        e = gen_id_expr(rng, rng.choice([0, 1, 2, 3]), ill_formed=True)
        k = rng.choice(["i", "j", "k", "l"])
        try:
            c = extract_context(e, k)
            res = (f"(Some ({cbool(c.is_sparse)}, {leaves(c.sparse_leaves)}, {leaves(c.dense_leaves)}, "
                   f"{clist(cstr(x) for x in sorted(c.indexes))}))")
        except Exception:
            res = "None"
        cases.append(f"({id_term(e)}, {cstr(k)}, {res})")
        descr.append(f"extract_context({e}, {k!r})")
    text = HEAD + "From TV Require Import gen.ExhaustAst gen.Exhaust.\n"
    ty = "(bool * list (id_expr * Z) * list (id_expr * Z) * list string)"
    text += f"Definition cases : list (id_expr * string * option {ty}) :=\n " + clist(cases) + ".\n"
    text += ("Definition leaf_eqb (a : TensorLayer) (b : id_expr * Z) : bool :=\n"
             "  id_expr_eqb (TensorLayer_tensor a) (fst b) && Z.eqb (TensorLayer_layer a) (snd b).\n"
             "Fixpoint leaves_eqb (a : list TensorLayer) (b : list (id_expr * Z)) : bool :=\n"
             "  match a, b with [], [] => true | x :: a', y :: b' => leaf_eqb x y && leaves_eqb a' b' | _, _ => false end.\n"
             f"Definition ok (c : id_expr * string * option {ty}) : bool :=\n"
             "  let '(e, k, r) := c in\n"
             "  match extract_context e k, r with\n"
             "  | None, None => true\n"
             "  | Some x, Some (sp, sl, dl, ix) => Bool.eqb (Context_is_sparse x) sp && leaves_eqb (Context_sparse_leaves x) sl\n"
             "      && leaves_eqb (Context_dense_leaves x) dl && set_eqb (Context_indexes x) ix\n"
             "  | _, _ => false\n"
             "  end.\n"
             "Eval vm_compute in (failing (map ok cases)).\n")
    return {"coq": text, "n": n, "descr": descr}


# ------------------------------------------------------------------------------------------------
# names
# ------------------------------------------------------------------------------------------------


def ir_term(e) -> str:
    from tensora.ir import ast as ir

    if isinstance(e, ir.Variable):
        return f"(Var {cstr(e.name)})"
    if isinstance(e, ir.IntegerLiteral):
        return f"(IntegerLiteral {cz(e.value)})"
    raise TypeError(e)


def t_names(rng, n):
    import inspect

    from tensora.iteration_graph import _names as N

    funcs = [(name, f) for name, f in sorted(vars(N).items())
             if inspect.isfunction(f) and f.__module__ == N.__name__]
    cases, descr = [], []
    strings = ["A", "b", "x1", "0_A", "12_long_name", "", "p", "i", "T_0"]
    for i in range(n):
        name, f = funcs[i % len(funcs)]
        sig = inspect.signature(f)
        args, cargs = [], []
        for p in sig.parameters.values():
            ann = p.annotation if isinstance(p.annotation, str) else getattr(p.annotation, "__name__", str(p.annotation))
            if ann == "str":
                v = rng.choice(strings)
                args.append(v)
                cargs.append(cstr(v))
            elif ann == "int":
                v = rng.choice([0, 1, 2, 3, 9, 10, 11, 99, 100, 101, 1234567890, rng.randrange(0, 10 ** 6), -1, -10])
                args.append(v)
                cargs.append(cz(v))
            else:
                raise TypeError(f"argument type {ann} of {name}")
        r = f(*args)
        cases.append(f"expr_eqb ({name} {' '.join(cargs)}) {ir_term(r)}")
        descr.append(f"{name}{tuple(args)!r}")
    text = HEAD + "From TV Require Import gen.IRAst gen.Names.\n"
    text += "Definition results : list bool :=\n " + clist(cases) + ".\n"
    text += "Eval vm_compute in (failing results).\n"
    return {"coq": text, "n": n, "descr": descr}


# ------------------------------------------------------------------------------------------------
# deparse
# ------------------------------------------------------------------------------------------------

FLOAT_POOL = [0.5, 1.5, 2.0, 3.25, 1e-05, 1e22, 123456.789]


def ex_term(e) -> str:
    from tensora.expression import ast as A

    if isinstance(e, A.Integer):
        return f"(ExInteger {cz(e.value)})"
    if isinstance(e, A.Float):
        return f"(ExFloat {cfloat(e.value)})"
    if isinstance(e, A.Tensor):
        return f"(ExTensor {cstr(e.name)} {clist(cstr(i) for i in e.indexes)})"
    for cls, c in ((A.Add, "ExAdd"), (A.Subtract, "ExSubtract"), (A.Multiply, "ExMultiply")):
        if isinstance(e, cls):
            return f"({c} {ex_term(e.left)} {ex_term(e.right)})"
    raise TypeError(e)


ORDERS = {"A": 2, "B": 1, "C": 0, "D": 3}


def gen_ex_expr(rng, depth):
    from tensora.expression import ast as A

    c = rng.random()
    if depth <= 0 or c < 0.25:
        k = rng.random()
        if k < 0.25:
            return A.Integer(rng.choice([0, 1, 7, 10, 42, 100, 999, 1000, 65536, -3]))
        if k < 0.4:
            return A.Float(rng.choice(FLOAT_POOL))
        name = rng.choice(sorted(ORDERS))
        return A.Tensor(name, tuple(rng.choice(["i", "j", "k"]) for _ in range(ORDERS[name])))
    op = rng.choice([A.Add, A.Subtract, A.Multiply])
    return op(gen_ex_expr(rng, depth - 1), gen_ex_expr(rng, depth - 1))


def t_deparse(rng, n):
    from tensora.expression import ast as A

    table = clist(f"({cfloat(v)}, {cstr(str(v))})" for v in FLOAT_POOL)
    cases, descr = [], []
    for i in range(n):
        e = gen_ex_expr(rng, rng.choice([0, 1, 2, 3, 4]))
        if i % 3 == 0:
            target = A.Tensor("T", tuple(rng.choice(["i", "j", "k"]) for _ in range(rng.randrange(0, 3))))
            a = A.Assignment(target, e)
            cases.append(f"String.eqb (ex_assignment_deparse str_float (ExAssignment {ex_term(target)} {ex_term(e)})) {cstr(a.deparse())}")
            descr.append(f"Assignment.deparse: {a.deparse()}")
        else:
            cases.append(f"String.eqb (Expression_deparse str_float {ex_term(e)}) {cstr(e.deparse())}")
            descr.append(f"deparse: {e.deparse()}")
    text = HEAD + "From TV Require Import gen.Deparse.\n"
    text += f"Definition float_table : list (F * string) := {table}.\n"
    text += ("Definition str_float (f : F) : string :=\n"
             "  match find (fun p => Feqb (fst p) f) float_table with Some p => snd p | None => \"?\" end.\n")
    text += "Definition results : list bool :=\n " + clist(cases) + ".\n"
    text += "Eval vm_compute in (failing results).\n"
    return {"coq": text, "n": n, "descr": descr}


def t_variables(rng, n):
    cases, descr = [], []
    for i in range(n):
        e = gen_ex_expr(rng, rng.choice([0, 1, 2, 3, 4, 5]))
        v = e.variables()
        exp = clist(f"({cstr(k)}, {clist(ex_term(t) for t in ts)})" for k, ts in v.items())
        cases.append(f"vars_ok (Expression_variables {ex_term(e)}) {exp}")
        descr.append(f"variables: {e.deparse()}")
    text = HEAD + "From TV Require Import gen.Deparse.\n"
    text += ("Definition vars_ok (o : option (list (string * list ex_expr))) (b : list (string * list ex_expr)) : bool :=\n"
             "  match o with\n  | Some a => list_eqb (fun x y => String.eqb (fst x) (fst y) && list_eqb ex_expr_eqb (snd x) (snd y)) a b\n"
             "  | None => false\n  end.\n")
    text += "Definition results : list bool :=\n " + clist(cases) + ".\n"
    text += "Eval vm_compute in (failing results).\n"
    return {"coq": text, "n": n, "descr": descr}


def t_index_participants(rng, n):
    cases, descr = [], []
    for i in range(n):
        e = gen_ex_expr(rng, rng.choice([0, 1, 2, 3, 4, 5]))
        ip = e.index_participants()
        exp = clist(f"({cstr(k)}, {clist(f'({cstr(t)}, {cz(j)})' for t, j in sorted(ps))})" for k, ps in sorted(ip.items()))
        cases.append(f"ip_ok (Expression_index_participants (fun l => l) {ex_term(e)}) {exp}")
        descr.append(f"index_participants: {e.deparse()}")
    text = HEAD + "From TV Require Import gen.Deparse.\n"
    text += ("Definition peqb := pair_eqb String.eqb Z.eqb.\n"
             "Definition psub (a b : list (string * Z)) : bool := forallb (fun x => existsb (peqb x) b) a.\n"
             "Definition entry_in (d : list (string * list (string * Z))) (kv : string * list (string * Z)) : bool :=\n"
             "  match dict_get String.eqb (fst kv) d with Some ps => psub ps (snd kv) && psub (snd kv) ps | None => false end.\n"
             "(* the same dict: same keys, no repeated key, the same set under every key *)\n"
             "Definition ip_ok (a b : list (string * list (string * Z))) : bool :=\n"
             "  Nat.eqb (List.length a) (List.length b) && forallb (entry_in a) b && forallb (entry_in b) a.\n")
    text += "Definition results : list bool :=\n " + clist(cases) + ".\n"
    text += "Eval vm_compute in (failing results).\n"
    return {"coq": text, "n": n, "descr": descr}


TARGETS = {"index_participants": t_index_participants, "variables": t_variables, "exhaust": t_exhaust, "context": t_context, "names": t_names, "deparse": t_deparse}

def main():
    try:  # further targets (desugar) live in a separate module
        from harness import tie_gen_desugar as _D

        TARGETS.update(_D.TARGETS)
    except ImportError:
        pass
    # tools/harness/tie_gen_<name>.py, each exposing TARGETS = {name: fn(rng, n) -> {"coq", "n", "descr"}}
    import importlib
    from pathlib import Path

    for p in sorted(Path(__file__).resolve().parent.glob("tie_gen_*.py")):
        if p.stem != "tie_gen_desugar":
            TARGETS.update(importlib.import_module("harness." + p.stem).TARGETS)
    cfg = json.load(sys.stdin)
    out = {}
    for name in cfg["names"]:
        rng = random.Random(f"{cfg['seed']}:{name}")
        out[name] = TARGETS[name](rng, cfg["n"])
    json.dump(out, sys.stdout)


if __name__ == "__main__":
    main()
