"""TIE self-check for the regenerated C printer (gen/IrToC.v), implementation side.

The REAL ir_to_c_expression / ir_to_c_statement / type_to_c of /repo are run on generated IR trees
(all 22 expression classes, ill-typed trees included, odd names, negative and large integers, floats
from a table incl. -0.0, 5e-324, 1e+16, inf), and the scratch Coq file compares, case by case,

  1. the STRING computed by the regenerated Gallina function with Python's string (translator check);
  2. for trees inside [names_ok]: [clex] of Python's string with [cprint e] -- the proved equivalence
     observed on the real text, with the real str(float) and float() as the oracles;
  3. the oracle assumptions on Python's str(float): [float_shape] of the spelling of every
     non-negative finite float of the table, "-" + spelling of the absolute value for negative ones.

Only the indexes of failing cases are printed."""

from __future__ import annotations

import math

from harness.tie_gen import HEAD, cbool, clist, cstr, cz

FLOATS = [0.0, -0.0, 1.0, 0.5, 1.5, -2.25, 3.25, 1e-05, 1e22, 1e16, 123456.789, 5e-324, 1.7976931348623157e308,
          -1e-07, 0.1, 100.0, 2.5e-10, float("inf"), float("-inf")]
NAMES = ["x", "y_1", "p", "A_vals", "i", "p_A_0", "B_0_pos", "T", "x9", "_t", "long_name_with_2_digits"]
ODD_NAMES = ["", "a b", "1x", "bool", "true", "x-y", "sizeof", "é"]
ATTRS = ["vals", "indices", "dimensions", "mode_ordering", "x"]


def cfl(v: float) -> str:
    if math.isinf(v):
        return "(B754_infinity false)" if v > 0 else "(B754_infinity true)"
    if v == 0.0:
        return "(B754_zero true)" if math.copysign(1.0, v) < 0 else "(B754_zero false)"
    m, e = math.frexp(abs(v))
    mi = int(m * (1 << 53))
    ee = e - 53
    while mi and mi % 2 == 0:
        mi //= 2
        ee += 1
    neg = "true" if v < 0 else "false"
    return f"(Fmake {neg} {mi} ({ee}))"


def gen_type(rng, depth=2):
    from tensora.ir import types as T

    base = [T.boolean, T.integer, T.float, T.tensor, T.mode]
    if depth <= 0 or rng.random() < 0.45:
        return rng.choice(base)
    k = rng.random()
    if k < 0.4:
        return T.Pointer(gen_type(rng, depth - 1))
    if k < 0.7:
        return T.Array(gen_type(rng, depth - 1))
    return T.FixedArray(gen_type(rng, depth - 1), rng.choice([0, 1, 2, 3, 10, 128, -1]))


def gen_expr(rng, depth, odd=False):
    from tensora.ir import ast as ir

    names = NAMES + (ODD_NAMES if odd else [])
    if depth <= 0 or rng.random() < 0.22:
        k = rng.random()
        if k < 0.45:
            return ir.Variable(rng.choice(names))
        if k < 0.7:
            return ir.IntegerLiteral(rng.choice([0, 1, 1, 2, 7, 10, 42, 100, 2147483647, -1, -2, -2147483648,
                                                 12345678901234567890, rng.randrange(0, 10 ** 6)]))
        if k < 0.88:
            return ir.FloatLiteral(rng.choice(FLOATS if odd else [f for f in FLOATS if not math.isinf(f)]))
        return ir.BooleanLiteral(rng.random() < 0.5)
    binary = [ir.Add, ir.Subtract, ir.Multiply, ir.Equal, ir.NotEqual, ir.GreaterThan, ir.LessThan,
              ir.GreaterThanOrEqual, ir.LessThanOrEqual, ir.And, ir.Or, ir.Max, ir.Min]
    k = rng.random()
    sub = lambda: gen_expr(rng, depth - 1, odd)  # noqa: E731
    if k < 0.6:
        return rng.choice(binary)(sub(), sub())
    if k < 0.7:
        return ir.ArrayIndex(sub(), sub())
    if k < 0.8:
        return ir.AttributeAccess(sub(), rng.choice(ATTRS + (ODD_NAMES if odd else [])))
    if k < 0.87:
        return ir.BooleanToInteger(sub())
    if k < 0.94:
        return ir.ArrayAllocate(gen_type(rng), sub())
    return ir.ArrayReallocate(sub(), gen_type(rng), sub())


def gen_shaped(rng):
    """parent(child(leaf, leaf), child(leaf, leaf)): the shapes the parenthesisation rules look at."""
    from tensora.ir import ast as ir

    leaf = lambda: gen_expr(rng, 0)  # noqa: E731
    kids = [ir.Add, ir.Subtract, ir.Multiply, ir.Or, ir.And, ir.Equal, ir.LessThan, ir.Max]
    parents = [ir.Add, ir.Subtract, ir.Multiply, ir.And, ir.Or, ir.Equal, ir.GreaterThanOrEqual, ir.Min, ir.ArrayIndex]

    def kid():
        return leaf() if rng.random() < 0.2 else rng.choice(kids)(leaf(), leaf())

    k = rng.random()
    if k < 0.8:
        return rng.choice(parents)(kid(), kid())
    if k < 0.87:
        return ir.ArrayAllocate(gen_type(rng, 1), kid())
    if k < 0.94:
        return ir.ArrayReallocate(leaf(), gen_type(rng, 1), kid())
    return ir.BooleanToInteger(kid())


def gen_stmt(rng, odd):
    from tensora.ir import ast as ir

    k = rng.random()
    e = lambda d=2: gen_expr(rng, rng.choice([0, 1, d]), odd)  # noqa: E731
    if k < 0.12:
        name = ir.Variable(rng.choice(NAMES + (ODD_NAMES if odd else [])))
        if rng.random() < 0.15:
            name = e(1)  # not a Variable: AttributeError unless it happens to be one
        return ir.Declaration(name, gen_type(rng))
    if k < 0.24:
        name = ir.Variable(rng.choice(NAMES))
        if rng.random() < 0.15:
            name = e(1)
        return ir.DeclarationAssignment(ir.Declaration(name, gen_type(rng)), e())
    if k < 0.34:
        return ir.Return(e())
    if k < 0.42:
        return e()
    # assignments: a third with the sugar shapes
    target = rng.choice([ir.Variable(rng.choice(NAMES)), ir.ArrayIndex(ir.Variable("a"), ir.Variable("p")),
                         ir.AttributeAccess(ir.Variable("t"), "vals"), ir.ArrayIndex(ir.Variable("a"), ir.FloatLiteral(0.0))])
    other = ir.ArrayIndex(ir.Variable("a"), ir.FloatLiteral(-0.0)) if rng.random() < 0.3 else ir.Variable("q")
    r = rng.choice([ir.IntegerLiteral(1), ir.IntegerLiteral(1), ir.IntegerLiteral(2), ir.IntegerLiteral(-1), ir.FloatLiteral(1.0),
                    ir.BooleanLiteral(True), e(1), e(2)])
    op = rng.choice([ir.Add, ir.Subtract, ir.Multiply, ir.Max, ir.And])
    shape = rng.random()
    if shape < 0.45:
        value = op(target, r)
    elif shape < 0.6:
        value = op(r, target)
    elif shape < 0.75:
        value = op(other, r)
    elif shape < 0.85:
        value = op(op(target, r), r)
    else:
        value = e()
    return ir.Assignment(target, value)


COMMENTS = [None, None, "comment", "i loop", "a = b + c; // x", "if (x) {"]


def gen_struct(rng, depth, odd=False):
    """Statement trees with layout: blocks in blocks, empty blocks, comments, else-if chains, else blocks
    that hold a single Branch, loops in loops."""
    from tensora.ir import ast as ir

    k = rng.random()
    if depth <= 0 or k < 0.3:
        return gen_stmt(rng, odd)
    sub = lambda: gen_struct(rng, depth - 1, odd)  # noqa: E731
    cond = lambda: gen_expr(rng, rng.choice([0, 1, 2]), odd)  # noqa: E731
    if k < 0.55:
        n = rng.choice([0, 0, 1, 2, 3])
        return ir.Block([sub() for _ in range(n)], rng.choice(COMMENTS))
    if k < 0.85:
        e = rng.random()
        if e < 0.25:
            f = ir.Block([])
        elif e < 0.45:
            f = ir.Branch(cond(), sub(), rng.choice([ir.Block([]), sub()]))
        elif e < 0.55:
            f = ir.Block([ir.Branch(cond(), sub(), ir.Block([]))])
        elif e < 0.65:
            f = ir.Block([], "only a comment")
        else:
            f = sub()
        return ir.Branch(cond(), sub(), f)
    return ir.Loop(cond(), sub())


def gen_function(rng, odd=False):
    from tensora.ir import ast as ir

    params = []
    for _ in range(rng.choice([0, 1, 2, 3])):
        name = ir.Variable(rng.choice(NAMES + (["a b"] if odd else [])))
        if odd and rng.random() < 0.1:
            name = ir.IntegerLiteral(3)
        params.append(ir.Declaration(name, gen_type(rng, 2)))
    body = gen_struct(rng, rng.choice([1, 2, 3]), odd)
    return ir.FunctionDefinition(ir.Variable(rng.choice(["compute", "evaluate", "assemble", "f_1"])), params,
                                 gen_type(rng, 1), body)


def t_cprint(rng, n):
    from tensora.codegen._ir_to_c import ir_to_c, ir_to_c_expression, ir_to_c_function_definition, ir_to_c_statement
    from tensora.codegen._type_to_c import type_to_c
    from tensora.ir import ast as ir

    import harness.irdump as irdump

    irdump.float_lit = cfl  # irdump's own rendering loses the sign of -0.0
    dump = irdump.dump
    cases, descr = [], []

    def add(term, text):
        cases.append(term)
        descr.append(text[:300])

    # 3. the oracle assumptions, on Python's real str(float)
    for v in FLOATS:
        if math.isinf(v):
            continue
        if math.copysign(1.0, v) > 0:
            add(f"float_shape {cstr(str(v))}", f"float_shape(str({v!r}))")
            add(f"match fd {cstr(str(v))} with Some g => F_same g {cfl(v)} | None => false end", f"float(str({v!r}))")
        else:
            add(cbool(str(v) == "-" + str(abs(v))), f"str({v!r}) == '-' + str(abs)")
    k = 0
    while len(cases) < n:
        k += 1
        odd = k % 4 == 0
        kind = k % 10
        if k % 5 == 3:
            which = (k // 5) % 4
            if which < 2:
                st = gen_struct(rng, rng.choice([1, 2, 3, 4]), odd)
                t = dump(st, "stmt")
                try:
                    lines = ir_to_c_statement(st)
                    exp = f"(Some {clist(cstr(x) for x in lines)})"
                    text = "\n".join(lines)
                except AttributeError:
                    exp, text = "None", None
                add(f"option_eqb (list_eqb String.eqb) (ir_to_c_statement sf {t}) {exp}", f"ir_to_c_statement (layout): {text}")
                if text is not None and len(cases) < n:
                    add(f"(if deep_names_ok {t} then slex_is {cstr(text)} (cprint_stmts {t}) && parse_back {t} else true)",
                        f"slex / sparse vs cprint_stmts: {text}")
            elif which == 2:
                fn = gen_function(rng, odd)
                t = dump(fn, "function_definition")
                try:
                    text = ir_to_c_function_definition(fn)
                    exp = f"(Some {cstr(text)})"
                except AttributeError:
                    exp, text = "None", None
                add(f"option_eqb String.eqb (ir_to_c_function_definition sf {t}) {exp}", f"ir_to_c_function_definition: {text}")
                if text is not None and len(cases) < n:
                    add(f"(if function_names_ok {t} then slex_is {cstr(text)} (cprint_function {t}) else true)",
                        f"slex vs cprint_function: {text}")
            else:
                m = ir.Module([gen_function(rng, odd) for _ in range(rng.choice([0, 1, 2, 3]))])
                t = dump(m, "module")
                try:
                    text = ir_to_c(m)
                    exp = f"(Some {cstr(text)})"
                except AttributeError:
                    exp, text = "None", None
                add(f"option_eqb String.eqb (ir_to_c sf {t}) {exp}", f"ir_to_c: {text}")
                if text is not None and len(cases) < n:
                    add(f"(if module_names_ok {t} then slex_is {cstr(text)} (cprint_module {t}) else true)",
                        f"slex vs cprint_module: {text}")
            continue
        if kind < 6:
            e = gen_shaped(rng) if (k // 10) % 3 != 0 and not odd else gen_expr(rng, rng.choice([0, 1, 2, 3, 4]), odd)
            text = ir_to_c_expression(e)
            t = dump(e, "expr")
            add(f"String.eqb (ir_to_c_expression sf {t}) {cstr(text)}", f"ir_to_c_expression: {text}")
            if len(cases) < n:
                add(f"(if names_ok {t} then lex_is {cstr(text)} (cprint {t}) else true)", f"clex vs cprint: {text}")
        elif kind < 7:
            ty = gen_type(rng, 3)
            v = rng.choice([None, None, "x", "p_0", "a b"])
            text = type_to_c(ty, v) if v is not None else (type_to_c(ty) if rng.random() < 0.5 else type_to_c(ty, None))
            vt = "None" if v is None else f"(Some {cstr(v)})"
            add(f"String.eqb (type_to_c {dump(ty, 'ty')} {vt}) {cstr(text)}", f"type_to_c: {text}")
        else:
            s = gen_stmt(rng, odd)
            try:
                lines = ir_to_c_statement(s)
                exp = f"(Some {clist(cstr(x) for x in lines)})"
                shown = " | ".join(lines)
            except AttributeError:
                exp, shown = "None", "AttributeError"
            t = dump(s, "stmt")
            add(f"option_eqb (list_eqb String.eqb) (ir_to_c_statement sf {t}) {exp}", f"ir_to_c_statement: {shown}")
            if exp != "None" and len(cases) < n:
                add(f"(if stmt_names_ok {t} then match cprint_stmt {t} with Some ts => lex_is {cstr(lines[0])} ts | None => false end else true)",
                    f"clex vs cprint_stmt: {shown}")
    pool = FLOATS + [abs(v) for v in FLOATS if abs(v) not in FLOATS]
    table = clist(f"({cfl(v)}, {cstr(str(v))})" for v in pool)
    text = HEAD + ("From Flocq Require Import Core BinarySingleNaN.\n"
                   "From TV Require Import gen.IRAst spec.CGrammar model.CPrint model.CLexer model.CStruct gen.IrToC.\n")
    text += f"Definition float_table : list (F * string) := {table}.\n"
    text += ("Definition sf (f : F) : string :=\n"
             "  match find (fun p => F_same (fst p) f) float_table with Some p => snd p | None => \"?\" end.\n"
             "Definition fd (s : string) : option F :=\n"
             "  match find (fun p => String.eqb (snd p) s) float_table with Some p => Some (fst p) | None => None end.\n"
             "Fixpoint toks_eqb (a b : list ctoken) : bool :=\n"
             "  match a, b with [], [] => true | x :: a', y :: b' => ctoken_eqb x y && toks_eqb a' b' | _, _ => false end.\n"
             "Definition lex_is (s : string) (ts : list ctoken) : bool :=\n"
             "  match clex fd s with Some r => toks_eqb r ts | None => false end.\n")
    text += ("Definition stok_eqb (a b : stok) : bool :=\n"
             "  match a, b with SK x, SK y => ctoken_eqb x y | SLBrace, SLBrace | SRBrace, SRBrace | SIf, SIf\n"
             "  | SElse, SElse | SWhile, SWhile => true | _, _ => false end.\n"
             "Definition slex_is (s : string) (o : option (list stok)) : bool :=\n"
             "  match slex fd s, o with Some a, Some b => list_eqb stok_eqb a b | _, _ => false end.\n"
             "Definition parse_back (s : stmt) : bool :=\n"
             "  match cprint_stmts s with\n"
             "  | Some ts => match sparse ts, skel s with Some a, Some b => list_eqb stok_eqb (flats a) (flats b) && wfs a | _, _ => false end\n"
             "  | None => false end.\n"
             "Definition module_names_ok (m : module) : bool := match m with IRModule fs => forallb function_names_ok fs end.\n")
    text += "Definition results : list bool :=\n " + clist(cases) + ".\n"
    text += "Eval vm_compute in (failing results).\n"
    return {"coq": text, "n": len(cases), "descr": descr}


TARGETS = {"cprint": t_cprint}
