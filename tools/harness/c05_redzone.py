"""C05: the REAL compiled kernels (LLVM JIT by default) run under the red-zone allocator
(tools/interpose/redzone.c, LD_PRELOAD): every block the kernel mallocs/reallocs carries a canary behind
its requested size; a write past the end of a kernel-allocated array is reported when the block is resized
or released.  One process per initial capacity (TENSORA_VERIF_INITIAL_CAPACITY is read at import).

stdin: {seed, priority [[assignment, formats]...], max_problems, n_inputs, fmt_cap, backend}
stdout: lines "CASE k <json>" before each call, "DONE <json>" at the end.  Markers "M k" go to REDZONE_LOG
through redzone_mark(k), so an OVERFLOW line is attributed to the last marker before it."""
from __future__ import annotations

import ctypes
import gc
import itertools
import json
import random
import sys

from harness import sweep as S


def main():
    cfg = json.load(sys.stdin)
    rng = random.Random(cfg["seed"])
    rz = ctypes.CDLL(None)
    try:
        rz.redzone_mark.argtypes = [ctypes.c_uint64]
        rz.redzone_overflows.restype = ctypes.c_uint64
    except AttributeError:
        print("DONE " + json.dumps({"error": "red-zone allocator not loaded"}))
        return
    problems = [tuple(x) for x in cfg.get("priority", [])]
    for tpl in S.TEMPLATES:
        for fm in S.format_choices(tpl, rng, cfg.get("fmt_cap", 2)):
            problems.append((tpl, fm))
    seen, uniq = set(), []
    for tpl, fm in problems:
        key = (tpl, json.dumps(fm, sort_keys=True))
        if key not in seen:
            seen.add(key)
            uniq.append((tpl, fm))
    npri = len(cfg.get("priority", []))
    rest = uniq[npri:]
    rng.shuffle(rest)
    problems = uniq[:npri] + rest[: max(0, cfg.get("max_problems", 60) - npri)]
    k = 0
    stats = {"cases": 0, "ok": 0, "refused": 0}
    for pno, (tpl, fm) in enumerate(problems):
        sizes_list = S.index_sizes_choices(tpl, rng, cfg.get("n_inputs", 2))
        if pno < npri:  # growth: rows wider than the initial capacity, several stored rows
            idx = sorted(sizes_list[0].keys())
            sizes_list = [{i: rng.choice([3, 4, 5]) for i in idx} for _ in range(max(2, cfg.get("n_inputs", 2)))]
        for sizes in sizes_list:
            ins = S.make_inputs(tpl, sizes, rng)
            if not ins and S.tensor_occurrences(tpl):
                continue
            if pno < npri:
                for v in ins.values():
                    cells = list(itertools.product(*[range(d) for d in v["dims"]]))
                    v["entries"] = {c: float(1 + (j % 5)) for j, c in enumerate(cells)}
            k += 1
            meta = {"assignment": tpl, "formats": fm, "sizes": sizes,
                    "inputs": {n: {"dims": v["dims"], "entries": [[list(c), x] for c, x in v["entries"].items()]} for n, v in ins.items()}}
            print(f"CASE {k} " + json.dumps(meta), flush=True)
            rz.redzone_mark(k)
            st, out = S.run_evaluate(tpl, fm, ins, backend=cfg.get("backend", "llvm"))
            stats["cases"] += 1
            stats["ok" if st == "ok" else "refused"] += 1
            del out
            gc.collect()
    rz.redzone_mark(0)
    gc.collect()
    stats["overflows_seen_by_allocator"] = int(rz.redzone_overflows())
    print("DONE " + json.dumps(stats), flush=True)


if __name__ == "__main__":
    main()
