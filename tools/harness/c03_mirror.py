"""Python mirror of coq/spec/Support.v (supportb / level_support / no_phantomb).

Pure Python, no tensora import.  It is a pre-filter for the large sweep only: the deciding oracle
is the Coq evaluation of Support.no_phantomb (tools/props/C03.py cross-checks the two).

AST (JSON): {"lit": v} | {"t": name, "ix": [..]} | {"add": [l, r]} | {"sub": [l, r]} | {"mul": [l, r]}
Raw stored tensor: {"dims", "ordering", "modes", "indices", "vals"} (tools/harness/sweep.py).
"""

from __future__ import annotations

import itertools


def monomials(e):
    """list of (negated, [factor]) ; factor = ("lit", v) | ("t", name, ix)"""
    if "lit" in e:
        return [(False, [("lit", e["lit"])])]
    if "t" in e:
        return [(False, [("t", e["t"], tuple(e["ix"]))])]
    if "add" in e:
        return monomials(e["add"][0]) + monomials(e["add"][1])
    if "sub" in e:
        return monomials(e["sub"][0]) + [(not s, f) for s, f in monomials(e["sub"][1])]
    if "mul" in e:
        out = []
        for s1, f1 in monomials(e["mul"][0]):
            for s2, f2 in monomials(e["mul"][1]):
                out.append((s1 != s2, f1 + f2))
        return out
    raise ValueError(e)


def contracted(tidx, factors):
    seen = []
    for f in factors:
        if f[0] == "t":
            for k in f[2]:
                if k not in tidx and k not in seen:
                    seen.append(k)
    return seen


def stored_set(r) -> set:
    """Dimension-order coordinates stored by a raw structure (dense levels store every in-range
    coordinate under a stored parent; explicit zeros count).  Mirrors Storage.entries."""
    order = len(r["dims"])
    ordering = r["ordering"]
    ldims = [r["dims"][d] for d in ordering]
    out = set()

    def rec(level, pos, prefix):
        if level == order:
            c = [None] * order
            for l, d in enumerate(ordering):
                c[d] = prefix[l]
            out.add(tuple(c))
            return
        if r["modes"][level] == "d":
            for i in range(ldims[level]):
                rec(level + 1, pos * ldims[level] + i, prefix + [i])
        else:
            p, c = r["indices"][level]
            for q in range(p[pos], p[pos + 1]):
                rec(level + 1, q, prefix + [c[q]])

    rec(0, 0, [])
    return out


def stored_prefixes(r, k) -> list:
    """Level-order prefixes of length k stored by the structure (Storage.stored_prefixes)."""
    ordering = r["ordering"]
    ldims = [r["dims"][d] for d in ordering]
    out = []

    def rec(level, pos, prefix):
        if level == k:
            out.append(tuple(prefix))
            return
        if r["modes"][level] == "d":
            for i in range(ldims[level]):
                rec(level + 1, pos * ldims[level] + i, prefix + [i])
        else:
            p, c = r["indices"][level]
            for q in range(p[pos], p[pos + 1]):
                rec(level + 1, q, prefix + [c[q]])

    rec(0, 0, [])
    return out


def support(tidx, rhs, ins, sizes, c) -> bool:
    env0 = dict(zip(tidx, c))
    for _, factors in monomials(rhs):
        ks = contracted(tidx, factors)
        ranges = [range(max(0, sizes.get(k, -1))) for k in ks]
        for vals in itertools.product(*ranges):
            env = dict(env0)
            env.update(zip(ks, vals))
            ok = True
            for f in factors:
                if f[0] == "t":
                    coord = tuple(env.get(k, -1) for k in f[2])
                    if coord not in ins.get(f[1], set()):
                        ok = False
                        break
            if ok:
                return True
    return False


def level_support(tidx, rhs, ins, sizes, ordering, k, prefix) -> bool:
    order = len(ordering)
    lsizes = [sizes.get(tidx[d], -1) for d in ordering]
    rest_ranges = [range(max(0, s)) for s in lsizes[k:]]
    for rest in itertools.product(*rest_ranges):
        lc = list(prefix) + list(rest)
        c = [None] * order
        for l, d in enumerate(ordering):
            c[d] = lc[l]
        if support(tidx, rhs, ins, sizes, c):
            return True
    return False


def phantoms(tidx, rhs, ins, sizes, out_raw) -> list:
    """[(level, level-order prefix)] stored by a compressed level of the output without support."""
    bad = []
    for l, m in enumerate(out_raw["modes"]):
        if m != "s":
            continue
        for p in stored_prefixes(out_raw, l + 1):
            if not level_support(tidx, rhs, ins, sizes, out_raw["ordering"], l + 1, p):
                bad.append((l, list(p)))
    return bad
