"""C01 -- pure-Python side of the check (NO tensora import, NO sweep import).

* an independent parser / printer for assignment text (so the mirror does not trust tensora's
  parser),
* a Python mirror of coq/spec/Spec.v (`spec_value`, exact arithmetic in Fractions),
* a Python mirror of `denote (desugar ord false a)` (`today_value`: what today's desugaring
  denotes -- used ONLY by the K-C01-F2 classifier),
* the structural predicates of the classifiers (`hoist_ok`, `f3_shape`),
* expression enumeration for the searcher, invariance variants,
* Coq term printers.

An expression is a tuple:
    ("int", n) | ("float", "2.5") | ("t", name, (idx, ...)) | ("+", a, b) | ("-", a, b) | ("*", a, b)
An assignment is (target_name, (idx, ...), expr).
"""
from __future__ import annotations

import itertools
import re
from fractions import Fraction

INT32_MIN, INT32_MAX = -(2 ** 31), 2 ** 31 - 1

# ------------------------------------------------------------------------------------------------
# parser / printer
# ------------------------------------------------------------------------------------------------
_TOKEN = re.compile(
    r"\s*(?:(?P<float>\d+(?:(?:\.\d+(?:[Ee][+-]?\d+)?)|(?:(?:\.\d+)?[Ee][+-]?\d+)))|(?P<int>\d+)|"
    r"(?P<name>[A-Za-z][A-Za-z0-9]*)|(?P<sym>[()+\-*,=]))"
)


def tokenize(text: str):
    pos, out = 0, []
    text = text.rstrip()
    while pos < len(text):
        m = _TOKEN.match(text, pos)
        if not m:
            raise ValueError(f"cannot tokenize {text!r} at {pos}")
        pos = m.end()
        for kind in ("float", "int", "name", "sym"):
            if m.group(kind) is not None:
                out.append((kind, m.group(kind)))
                break
    return out


class _P:
    def __init__(self, toks):
        self.t, self.i = toks, 0

    def peek(self):
        return self.t[self.i] if self.i < len(self.t) else (None, None)

    def eat(self, kind=None, val=None):
        k, v = self.peek()
        if (kind and k != kind) or (val and v != val):
            raise ValueError(f"expected {kind} {val}, got {k} {v}")
        self.i += 1
        return v

    def tensor(self):
        name = self.eat("name")
        self.eat("sym", "(")
        idx = []
        if self.peek() != ("sym", ")"):
            idx.append(self.eat("name"))
            while self.peek() == ("sym", ","):
                self.eat()
                idx.append(self.eat("name"))
        self.eat("sym", ")")
        return ("t", name, tuple(idx))

    def factor(self):
        k, v = self.peek()
        if k == "name":
            return self.tensor()
        if k == "float":
            self.eat()
            return ("float", v)
        if k == "int":
            self.eat()
            return ("int", int(v))
        if (k, v) == ("sym", "("):
            self.eat()
            e = self.expr()
            self.eat("sym", ")")
            return e
        raise ValueError(f"unexpected {k} {v}")

    def term(self):
        e = self.factor()
        while self.peek() == ("sym", "*"):
            self.eat()
            e = ("*", e, self.factor())
        return e

    def expr(self):
        e = self.term()
        while self.peek() in (("sym", "+"), ("sym", "-")):
            op = self.eat()
            e = (op, e, self.term())
        return e


def parse_assignment(text: str):
    p = _P(tokenize(text))
    t = p.tensor()
    p.eat("sym", "=")
    e = p.expr()
    if p.peek() != (None, None):
        raise ValueError("trailing input")
    return (t[1], t[2], e)


def show_expr(e) -> str:
    k = e[0]
    if k == "int":
        return str(e[1])
    if k == "float":
        return e[1]
    if k == "t":
        return e[1] + "(" + ",".join(e[2]) + ")"
    l, r = show_expr(e[1]), show_expr(e[2])
    if k in "+-":
        if e[2][0] in "+-":
            r = f"({r})"
        return f"{l} {k} {r}"
    if e[1][0] in "+-":
        l = f"({l})"
    if e[2][0] in "+-*":
        r = f"({r})"
    return f"{l} * {r}"


def show_assignment(a) -> str:
    return a[0] + "(" + ",".join(a[1]) + ") = " + show_expr(a[2])


# ------------------------------------------------------------------------------------------------
# structure
# ------------------------------------------------------------------------------------------------
def leaves(e):
    if e[0] in ("int", "float", "t"):
        return [e]
    return leaves(e[1]) + leaves(e[2])


def expr_idx(e) -> list[str]:
    out = []
    for l in leaves(e):
        if l[0] == "t":
            out.extend(l[2])
    return out


def tensors_of(e) -> dict[str, list[tuple]]:
    """name -> index tuples of its occurrences, in order of first appearance"""
    out: dict[str, list[tuple]] = {}
    for l in leaves(e):
        if l[0] == "t":
            out.setdefault(l[1], []).append(l[2])
    return out


def lit_value(l) -> Fraction:
    return Fraction(l[1]) if l[0] == "int" else Fraction(l[1])


def monomials(e):
    """[(negative, [leaf, ...])] -- distribution of * over + and -  (Spec.monomials)"""
    k = e[0]
    if k in ("int", "float", "t"):
        return [(False, [e])]
    if k == "+":
        return monomials(e[1]) + monomials(e[2])
    if k == "-":
        return monomials(e[1]) + [(not s, f) for s, f in monomials(e[2])]
    return [(sa != sb, fa + fb) for sa, fa in monomials(e[1]) for sb, fb in monomials(e[2])]


def bind(tgt, coord) -> dict[str, int]:
    rho = {}
    for k, v in reversed(list(zip(tgt, coord))):  # first occurrence wins
        rho[k] = v
    return rho


def _leaf_value(l, env, rho) -> Fraction:
    if l[0] == "t":
        return env[l[1]].get(tuple(rho[i] for i in l[2]), Fraction(0))
    return lit_value(l)


def spec_value(a, env, sizes, coord) -> Fraction:
    """Spec.spec: Sigma over monomials of sign * Sigma over the monomial's own indexes absent from the
    target of the product of its factors.  env: name -> {coord: Fraction} (absent = 0)."""
    name, tgt, rhs = a
    rho0 = bind(tgt, coord)
    total = Fraction(0)
    for neg, fs in monomials(rhs):
        idx = []
        for f in fs:
            if f[0] == "t":
                for i in f[2]:
                    if i not in idx and i not in tgt:
                        idx.append(i)
        acc = Fraction(0)
        for vs in itertools.product(*[range(sizes[i]) for i in idx]):
            rho = dict(rho0)
            rho.update(zip(idx, vs))
            p = Fraction(1)
            for f in fs:
                p *= _leaf_value(f, env, rho)
                if p == 0:
                    break
            acc += p
        total += -acc if neg else acc
    return total


def out_dims(a, sizes) -> list[int]:
    return [sizes[i] for i in a[1]]


def all_coords(dims):
    return list(itertools.product(*[range(d) for d in dims]))


def spec_table(a, env, sizes) -> dict[tuple, Fraction]:
    return {c: spec_value(a, env, sizes, c) for c in all_coords(out_dims(a, sizes))}


# ------------------------------------------------------------------------------------------------
# K-C01-F2: what today's desugaring denotes (mirror of DesugarSem.denote o desugar false)
# ------------------------------------------------------------------------------------------------
def iparts(e) -> set[str]:
    return set(expr_idx(e))


def carried(e, k) -> bool:
    t = e[0]
    if t in ("int", "float"):
        return False
    if t == "t":
        return k in e[2]
    if t in "+-":
        return carried(e[1], k) and carried(e[2], k)
    return carried(e[1], k) or carried(e[2], k)


def contract_indexes(a) -> set[str]:
    return (set(a[1]) | iparts(a[2])) - set(a[1])


def hoist_ok(e, K: set[str]) -> bool:
    t = e[0]
    if t in ("int", "float", "t"):
        return True
    LK, RK = iparts(e[1]) & K, iparts(e[2]) & K
    I = LK & RK
    if t in "+-":
        ok = all(carried(e[1], k) and carried(e[2], k) for k in I)
    else:
        ok = all(carried(e[1], k) or carried(e[2], k) for k in I)
    return ok and hoist_ok(e[1], LK - I) and hoist_ok(e[2], RK - I)


def assignment_hoist_ok(a) -> bool:
    return hoist_ok(a[2], contract_indexes(a))


def _today(e, K: set[str], env, sizes, rho) -> Fraction:
    t = e[0]
    if t in ("int", "float"):
        return lit_value(e)
    if t == "t":
        ks = sorted(K)
        acc = Fraction(0)
        for vs in itertools.product(*[range(sizes[i]) for i in ks]):
            r = dict(rho)
            r.update(zip(ks, vs))
            acc += _leaf_value(e, env, r)
        return acc
    LK, RK = iparts(e[1]) & K, iparts(e[2]) & K
    I = sorted(LK & RK)
    acc = Fraction(0)
    for vs in itertools.product(*[range(sizes[i]) for i in I]):
        r = dict(rho)
        r.update(zip(I, vs))
        x = _today(e[1], LK - set(I), env, sizes, r)
        y = _today(e[2], RK - set(I), env, sizes, r)
        acc += x + y if t == "+" else x - y if t == "-" else x * y
    return acc


def today_value(a, env, sizes, coord) -> Fraction:
    return _today(a[2], contract_indexes(a), env, sizes, bind(a[1], coord))


def today_table(a, env, sizes):
    return {c: today_value(a, env, sizes, c) for c in all_coords(out_dims(a, sizes))}


def f2_terms(a) -> list[str]:
    """Human-readable description of the offending places (for the KNOWN-FINDING text)."""
    out = []

    def rec(e, K):
        t = e[0]
        if t in ("int", "float", "t"):
            return
        LK, RK = iparts(e[1]) & K, iparts(e[2]) & K
        I = LK & RK
        for k in sorted(I):
            if t in "+-" and not (carried(e[1], k) and carried(e[2], k)):
                out.append(f"index {k} hoisted over '{show_expr(e)}'")
            if t == "*" and not (carried(e[1], k) or carried(e[2], k)):
                out.append(f"index {k} hoisted over '{show_expr(e)}'")
        rec(e[1], LK - I)
        rec(e[2], RK - I)

    rec(a[2], contract_indexes(a))
    return out


# ------------------------------------------------------------------------------------------------
# normal form of a REAL iteration graph (mirror of DesugarSemGraph.nf_g) and the K-C01-F2 pattern
# ------------------------------------------------------------------------------------------------
def _dim_idx(ordering, lidx):
    return tuple(lidx[ordering.index(d)] for d in range(len(ordering)))


def nf_iexpr(e, orderings):
    k = e[0]
    if k == "int":
        return [(False, [("int", int(e[1]))], [])]
    if k == "float":
        return [(False, [("float", repr(float(e[1])))], [])]
    if k == "t":
        return [(False, [("t", e[2], _dim_idx(orderings[e[2]], e[3]))], [])]
    a, b = nf_iexpr(e[1], orderings), nf_iexpr(e[2], orderings)
    if k == "+":
        return a + b
    return [(sa != sb, fa + fb, ka + kb) for sa, fa, ka in a for sb, fb, kb in b]


def nf_graph(g, orderings):
    """[(negative, [leaf...], [summed index...])]: an IterationNode without output layer adds its index to
    the summed list of every monomial below it."""
    k = g[0]
    if k == "T":
        return nf_iexpr(g[1], orderings)
    if k == "I":
        below = nf_graph(g[3], orderings)
        if g[2] is None:
            return [(s, f, [g[1]] + ks) for s, f, ks in below]
        return below
    out = []
    for t in g[1]:
        out += nf_graph(t, orderings)
    return out


def _leaf_key(l):
    if l[0] == "float":
        return ("float", float(l[1]))
    if l[0] == "int":
        return ("int", int(l[1]))
    return ("t", l[1], tuple(l[2]))


def f2_graph_pattern(a, graph, orderings):
    """The graph has exactly the monomials of the specification, each summed over its own contracted
    indexes PLUS possibly indexes it does not carry (each such index multiplies the term by its size).
    Returns the list of (negative, leaves, extra indexes) in the order of S.monomials, or None when the
    graph does not have that shape.  All extras empty <=> the graph denotes the specification."""
    tgt = a[1]

    def canon(sign, fs):
        """literal factors -1 moved into the sign (DesugarSemGraph.ncanon)"""
        keys = [_leaf_key(f) for f in fs]
        m1 = sum(1 for k in keys if k == ("int", -1))
        return sign != (m1 % 2 == 1), sorted((k for k in keys if k != ("int", -1)), key=repr)

    gm = [canon(s, f) + (ks,) for s, f, ks in nf_graph(graph, orderings)]
    out = []
    for neg, fs in monomials(a[2]):
        cneg, key = canon(neg, fs)
        own = []
        for f in fs:
            if f[0] == "t":
                for i in f[2]:
                    if i not in own:
                        own.append(i)
        contracted = [i for i in own if i not in tgt]
        # prefer an exact match, then any match
        cands = [j for j, (s, k, ks) in enumerate(gm) if s == cneg and k == key]
        if not cands:
            return None
        cands.sort(key=lambda j: (sorted(gm[j][2]) != sorted(contracted), len(gm[j][2])))
        j = cands[0]
        ks = gm[j][2]
        if len(set(ks)) != len(ks) or not set(contracted) <= set(ks):
            return None
        extra = [k for k in ks if k not in contracted]
        if any(k in own for k in extra):
            return None
        out.append((neg, fs, extra))
        gm.pop(j)
    if gm:
        return None
    return out


def f2_graph_table(a, pattern, env, sizes):
    """the specification with every term multiplied by the sizes of the extra indexes it is summed over"""
    name, tgt, rhs = a
    table = {}
    for c in all_coords(out_dims(a, sizes)):
        total = Fraction(0)
        for neg, fs, extra in pattern:
            v = spec_value((name, tgt, _product(fs)), env, sizes, c)
            for k in extra:
                v *= sizes[k]
            total += -v if neg else v
        table[c] = total
    return table


def _product(fs):
    e = fs[0]
    for f in fs[1:]:
        e = ("*", e, f)
    return e


# ------------------------------------------------------------------------------------------------
# K-C01-F3: integer literals lowered to int32 arithmetic
# ------------------------------------------------------------------------------------------------
def _desub(e):
    """a - b  ->  a + (-1) * b   (as desugaring does)"""
    t = e[0]
    if t in ("int", "float", "t"):
        return e
    a, b = _desub(e[1]), _desub(e[2])
    if t == "-":
        return ("+", a, ("*", ("int", -1), b))
    return (t, a, b)


def _zero(e, dead: frozenset):
    """exhaust-style simplification with the tensors in `dead` zeroed"""
    t = e[0]
    if t == "t":
        return ("int", 0) if e[1] in dead else e
    if t in ("int", "float"):
        return e
    a, b = _zero(e[1], dead), _zero(e[2], dead)
    if t == "+":
        if a == ("int", 0):
            return b
        if b == ("int", 0):
            return a
        return ("+", a, b)
    if a == ("int", 0) or b == ("int", 0):
        return ("int", 0)
    return ("*", a, b)


def _int_overflow(e) -> tuple[bool, int | None]:
    """(some all-integer-literal subtree leaves int32, exact value if e itself is all-integer)"""
    t = e[0]
    if t == "int":
        return (not INT32_MIN <= e[1] <= INT32_MAX), e[1]
    if t in ("float", "t"):
        return False, None
    ba, va = _int_overflow(e[1])
    bb, vb = _int_overflow(e[2])
    bad = ba or bb
    if va is not None and vb is not None:
        v = va + vb if t == "+" else va * vb
        return bad or not INT32_MIN <= v <= INT32_MAX, v
    return bad, None


def _c_reassoc(e):
    """What the C back end computes: the C printer writes a right-nested chain of one operator without
    parentheses (`x * (y * z)` is printed `x * y * z`, finding K-C06-1), and C parses that to the left."""
    t = e[0]
    if t in ("int", "float", "t"):
        return e

    def chain(x):
        if x[0] == t:
            return chain(x[1]) + chain(x[2])
        return [_c_reassoc(x)]

    items = chain(e)
    out = items[0]
    for it in items[1:]:
        out = (t, out, it)
    return out


def f3_shape(a, backend: str = "llvm") -> bool:
    """The assignment has an integer literal outside int32, or -- possibly after zeroing some of
    its tensors the way exhaust_tensor does -- an all-integer-literal subexpression whose exact
    value (or an intermediate of it) is outside int32.  For the C back end the expression is first
    re-associated the way the printed C text is parsed."""
    e = _desub(a[2])
    names = sorted(tensors_of(e))
    for r in range(len(names) + 1):
        for dead in itertools.combinations(names, r):
            z = _zero(e, frozenset(dead))
            if _int_overflow(z)[0]:
                return True
            if backend == "cffi" and _int_overflow(_c_reassoc(z))[0]:
                return True
    return False


def float_twin(a):
    """The same assignment with every integer literal n written as the float literal n.0: the only
    difference for the implementation is to_ir_float instead of to_ir_integer."""

    def rec(e):
        if e[0] == "int":
            return ("float", f"{e[1]}.0")
        if e[0] in ("float", "t"):
            return e
        return (e[0], rec(e[1]), rec(e[2]))

    return (a[0], a[1], rec(a[2]))


# ------------------------------------------------------------------------------------------------
# Coq terms
# ------------------------------------------------------------------------------------------------
def cstr(s: str) -> str:
    return '"' + s + '"%string'


def cz(n) -> str:
    n = int(n)
    return f"({n})%Z" if n < 0 else f"{n}%Z"


def clist(xs) -> str:
    return "[" + "; ".join(xs) + "]"


def float_as_Z(text: str, scale: int = 1) -> int:
    f = Fraction(text) * scale
    if f.denominator != 1:
        raise ValueError("non-integer float literal")
    return int(f)


def has_fractional_literal(e) -> bool:
    return any(l[0] == "float" and Fraction(l[1]).denominator != 1 for l in leaves(e))


def coq_expr(e, scale: int = 1) -> str:
    t = e[0]
    if t == "int":
        return f"(EInt {cz(e[1])})"
    if t == "float":
        return f"(EFloat {cz(float_as_Z(e[1], scale))})"
    if t == "t":
        return f"(ETensor {cstr(e[1])} {clist(cstr(i) for i in e[2])})"
    c = {"+": "EAdd", "-": "ESub", "*": "EMul"}[t]
    return f"({c} {coq_expr(e[1], scale)} {coq_expr(e[2], scale)})"


def coq_assignment(a, scale: int = 1) -> str:
    return f"(mkAssign {cstr(a[0])} {clist(cstr(i) for i in a[1])} {coq_expr(a[2], scale)})"


def coq_sizes(sizes: dict) -> str:
    return clist(f"({cstr(k)}, {cz(v)})" for k, v in sorted(sizes.items()))


# ------------------------------------------------------------------------------------------------
# searcher expressions and invariance variants
# ------------------------------------------------------------------------------------------------
SEARCH_LEAVES = [
    ("t", "X", ()), ("t", "Y", ("k",)), ("t", "Z", ("k",)), ("t", "W", ("i",)), ("t", "V", ("i", "k")),
    ("int", 2), ("int", 0),
]


def tree_shapes(n):
    """all binary tree shapes with n leaves, as nested tuples of None"""
    if n == 1:
        return [None]
    out = []
    for k in range(1, n):
        for l in tree_shapes(k):
            for r in tree_shapes(n - k):
                out.append((l, r))
    return out


def random_expr(rng, n_leaves, leaf_pool=None):
    pool = leaf_pool or SEARCH_LEAVES
    shape = rng.choice(tree_shapes(n_leaves))

    def fill(s):
        if s is None:
            return rng.choice(pool)
        return (rng.choice("+-*"), fill(s[0]), fill(s[1]))

    return fill(shape)


def all_exprs(n_leaves, leaf_pool=None):
    pool = leaf_pool or SEARCH_LEAVES

    def fill(s):
        if s is None:
            yield from pool
            return
        for l in fill(s[0]):
            for r in fill(s[1]):
                for op in "+-*":
                    yield (op, l, r)

    for s in tree_shapes(n_leaves):
        yield from fill(s)


def targets_for(e) -> list[tuple]:
    """target index lists that evaluate() accepts: subsets (in both orders) of the indexes used"""
    idx = sorted(set(expr_idx(e)))
    out = [()]
    for r in range(1, len(idx) + 1):
        for c in itertools.permutations(idx, r):
            out.append(tuple(c))
    return out


def rename(a, tmap: dict, imap: dict):
    def rec(e):
        if e[0] == "t":
            return ("t", tmap[e[1]], tuple(imap[i] for i in e[2]))
        if e[0] in ("int", "float"):
            return e
        return (e[0], rec(e[1]), rec(e[2]))

    return (tmap[a[0]], tuple(imap[i] for i in a[1]), rec(a[2]))


def _nodes(e, path=()):
    yield path, e
    if e[0] in ("+", "-", "*"):
        yield from _nodes(e[1], path + (1,))
        yield from _nodes(e[2], path + (2,))


def _replace(e, path, new):
    if not path:
        return new
    l = list(e)
    l[path[0]] = _replace(e[path[0]], path[1:], new)
    return tuple(l)


def rearrangements(e):
    """all expressions obtained from e by ONE application of a rule of Spec.rearr at one node
    (commutation, re-association, the three regroupings of '-')."""
    out = []
    for path, n in _nodes(e):
        t = n[0]
        if t not in ("+", "-", "*"):
            continue
        a, b = n[1], n[2]
        cands = []
        if t in "+*":
            cands.append((t, b, a))
            if a[0] == t:
                cands.append((t, a[1], (t, a[2], b)))
            if b[0] == t:
                cands.append((t, (t, a, b[1]), b[2]))
        if t == "-" and b[0] == "-":
            cands.append(("+", ("-", a, b[1]), b[2]))
        if t == "-" and b[0] == "+":
            cands.append(("-", ("-", a, b[1]), b[2]))
        if t == "+" and b[0] == "-":
            cands.append(("-", ("+", a, b[1]), b[2]))
        if t == "-" and a[0] == "-":
            cands.append(("-", a[1], ("+", a[2], b)))
        if t == "*" and b[0] == "+":
            cands.append(("+", ("*", a, b[1]), ("*", a, b[2])))
        if t == "*" and a[0] == "+":
            cands.append(("+", ("*", a[1], b), ("*", a[2], b)))
        for c in cands:
            out.append(_replace(e, path, c))
    return out
