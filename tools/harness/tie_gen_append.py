"""TIE self-check for the regenerated output emitters (gen/AppendGen.v), implementation side.

The REAL emitters of /repo (iteration_graph/_write_sparse_ir.py, outputs/_append.py, outputs/_bucket.py,
with the real SourceBuilder and the real ir/ast.py helper methods) are run on enumerated / generated
parameters: tensors of order 0-4 with every mode string, names and ids of several shapes, ILL-FORMED
tensors (fewer indexes than modes and the reverse: the IndexError / ValueError paths), every kernel
type, the capacity hook (outputs/_append.py is re-imported with TENSORA_VERIF_INITIAL_CAPACITY unset,
empty, 0, 1, 2, 3, 16, 1000000), every layer, bucket layer lists.  The finalized IR (Block) they return is
printed as a Coq term (harness/irdump.py) and compared inside coqc with what the regenerated Gallina
function returns on the same parameters (stmt_eqb of spec/IRCompare.v); an exception on the Python side
must be `None` on the Coq side and vice versa.
"""

from __future__ import annotations

import importlib
import os
import re
from pathlib import Path

from harness.tie_gen import HEAD, clist, cstr, cz

GEN = Path(os.environ.get("TIE_APPEND_GEN") or (Path(__file__).resolve().parents[2] / "coq" / "gen" / "AppendGen.v"))

DEFS = """From TV Require Import gen.IRAst gen.Names spec.IRSem spec.IRCompare gen.AppendGen.
Definition tensor_eqb (a b : Tensor) : bool :=
  String.eqb (Tensor_id a) (Tensor_id b) && String.eqb (Tensor_name a) (Tensor_name b)
  && list_eqb String.eqb (Tensor_indexes a) (Tensor_indexes b) && list_eqb Mode_eqb (Tensor_modes a) (Tensor_modes b).
Definition out_eqb (a b : Output) : bool :=
  match a, b with
  | OutAppend x, OutAppend y => tensor_eqb (AppendOutput_output x) (AppendOutput_output y)
                                && Z.eqb (AppendOutput_next_layer x) (AppendOutput_next_layer y)
  | OutBucket x, OutBucket y => tensor_eqb (BucketOutput_output x) (BucketOutput_output y)
                                && list_eqb Z.eqb (BucketOutput_layers x) (BucketOutput_layers y)
                                && subsetZ (BucketOutput_unfulfilled x) (BucketOutput_unfulfilled y)
                                && subsetZ (BucketOutput_unfulfilled y) (BucketOutput_unfulfilled x)
                                && Nat.eqb (List.length (BucketOutput_unfulfilled x)) (List.length (BucketOutput_unfulfilled y))
  | _, _ => false
  end.
Definition sb_o (r : option sb) (e : option stmt) : bool := option_eqb stmt_eqb (option_map sb_finalize r) e.
Definition sb_t (r : sb) (e : option stmt) : bool := sb_o (Some r) e.
Definition ex_o (r : option expr) (e : option expr) : bool := option_eqb expr_eqb r e.
Definition ex_t (r : expr) (e : option expr) : bool := ex_o (Some r) e.
Definition exs_o (r : option (list expr)) (e : option (list expr)) : bool := option_eqb (list_eqb expr_eqb) r e.
Definition exs_t (r : list expr) (e : option (list expr)) : bool := exs_o (Some r) e.
Definition next_o (r : option (Output * sb * sb)) (e : option (Output * stmt * stmt)) : bool :=
  match r, e with
  | Some (o, a, b), Some (o', a', b') => out_eqb o o' && stmt_eqb (sb_finalize a) a' && stmt_eqb (sb_finalize b) b'
  | None, None => true
  | _, _ => false
  end.
Definition next_t (r : Output * sb * sb) e : bool := next_o (Some r) e.
Definition bk_o (r : option BucketOutput) (e : option Output) : bool :=
  match r, e with Some x, Some y => out_eqb (OutBucket x) y | None, None => true | _, _ => false end.
Definition bk_t (r : BucketOutput) e : bool := bk_o (Some r) e.
"""

SUBSET = ("Definition subsetZ (a b : list Z) : bool := forallb (fun x => existsb (Z.eqb x) b) a.\n")

CAPS = [None, "", "0", "1", "2", "3", "16", "1000000"]


def partial_table():
    """name -> (returns option?, takes the capacity parameter?) read off the generated file"""
    tab = {}
    for line in GEN.read_text().splitlines():
        if not (line.startswith("Definition ") and line.endswith(":=")):
            continue
        body = line[len("Definition "):-2].strip()
        depth, cut = 0, None
        for i, ch in enumerate(body):
            if ch == "(":
                depth += 1
            elif ch == ")":
                depth -= 1
            elif ch == ":" and depth == 0:
                cut = i
        if cut is None:
            continue
        name = body.split()[0]
        tab[name] = (body[cut + 1:].strip().startswith("(option"), "(initial_capacity : option Z)" in body[:cut])
    return tab


def load_append(cap):
    """outputs/_append.py as imported with TENSORA_VERIF_INITIAL_CAPACITY = cap (None = unset)"""
    if cap is None:
        os.environ.pop("TENSORA_VERIF_INITIAL_CAPACITY", None)
    else:
        os.environ["TENSORA_VERIF_INITIAL_CAPACITY"] = cap
    import tensora.iteration_graph.outputs._append as A

    return importlib.reload(A)


def cap_term(cap):
    return "None" if not cap else f"(Some {cz(int(cap))})"


def t_append(rng, n):
    from harness.irdump import coq_expr, coq_stmt
    from tensora.format import Mode
    from tensora.ir import ast as ir
    from tensora.iteration_graph import _write_sparse_ir as W
    from tensora.iteration_graph.identifiable_expression import TensorLayer
    from tensora.iteration_graph.identifiable_expression import ast as I
    from tensora.iteration_graph.outputs import _bucket as B
    from tensora.kernel_type import KernelType

    tab = partial_table()

    def suffix(fn):
        if fn not in tab:
            raise KeyError(f"{fn} is not defined in gen/AppendGen.v")
        return "o" if tab[fn][0] else "t"

    def tensor_term(t):
        return (f"(MkTensor {cstr(t.id)} {cstr(t.name)} {clist(cstr(i) for i in t.indexes)} "
                f"{clist('Mode_' + m.name for m in t.modes)})")

    def tl_term(tl):
        return f"(MkTensorLayer {tensor_term(tl.tensor)} {cz(tl.layer)})"

    def kt_term(k):
        return f"KernelType_{k.name}"

    def opt(f, pr):
        try:
            v = f()
        except Exception:  # any exception = None on the Coq side
            return "None", "raises"
        return f"(Some {pr(v)})", "ok"

    def sb_pr(s):
        return coq_stmt(s.finalize())

    names = ["A", "out", "a_1", "T0"]
    idx_pool = ["i", "j", "k", "l", "i1", "x_y"]
    modes_all = [Mode.dense, Mode.compressed]

    def gen_tensor(order=None, ill=None):
        order = rng.choice([0, 1, 1, 2, 2, 3, 3, 4]) if order is None else order
        modes = tuple(rng.choice(modes_all) for _ in range(order))
        indexes = tuple(rng.sample(idx_pool, order))
        ill = rng.random() < 0.12 if ill is None else ill
        if ill:
            if rng.random() < 0.5 and order > 0:
                indexes = indexes[:-1]
            else:
                modes = modes[: max(0, order - 1)] if rng.random() < 0.5 else modes + (rng.choice(modes_all),)
        nm = rng.choice(names)
        return I.Tensor(rng.choice([nm, "0_" + nm, nm]), nm, indexes, modes)

    def gen_rhs():
        return rng.choice([ir.Variable("v"), ir.IntegerLiteral(0), ir.Add(ir.Variable("a"), ir.IntegerLiteral(2)),
                           ir.ArrayIndex(ir.Variable("B_vals"), ir.Variable("p_B_1")),
                           ir.Multiply(ir.Variable("x"), ir.Variable("y"))])

    cases, descr = [], []

    def add(coq, d):
        cases.append(coq)
        descr.append(d)

    # systematic part: every mode string up to order 3 through the main emitters, every kernel type
    systematic = []
    for order in range(0, 4):
        for bits in range(2 ** order):
            modes = tuple(modes_all[(bits >> q) & 1] for q in range(order))
            systematic.append(I.Tensor("A", "A", tuple(idx_pool[:order]), modes))
    kinds = list(KernelType)
    i = 0
    while len(cases) < 3 * n:
        t = systematic[i] if i < len(systematic) else gen_tensor()
        cap = CAPS[i % len(CAPS)]
        A = load_append(cap)
        i += 1
        tt = tensor_term(t)
        d0 = f"{t.name}/{t.id}:{''.join(m.name[0] for m in t.modes)}:{','.join(t.indexes)}"
        for k in (kinds if i <= len(systematic) else [rng.choice(kinds)]):
            ao = A.AppendOutput(t, rng.choice([0, len(t.modes), rng.randrange(0, 4)]))
            aot = f"(MkAppendOutput {tt} {cz(ao.next_layer)})"
            e, st = opt(lambda: ao.write_declarations(k), sb_pr)
            add(f"sb_{suffix('AppendOutput_write_declarations')} (AppendOutput_write_declarations {cap_term(cap)} {aot} {kt_term(k)}) {e}",
                f"write_declarations {d0} {k.name} cap={cap!r} -> {st}")
            e, st = opt(lambda: ao.write_cleanup(k), sb_pr)
            add(f"sb_{suffix('AppendOutput_write_cleanup')} (AppendOutput_write_cleanup {aot} {kt_term(k)}) {e}",
                f"write_cleanup {d0} {k.name} -> {st}")
            rhs = gen_rhs()
            e, st = opt(lambda: ao.write_assignment(rhs, k), sb_pr)
            add(f"sb_{suffix('AppendOutput_write_assignment')} (AppendOutput_write_assignment {aot} {coq_expr(rhs)} {kt_term(k)}) {e}",
                f"write_assignment {d0} next_layer={ao.next_layer} -> {st}")
            # next_output
            if rng.random() < 0.3 or not t.modes:
                io, iot = None, "None"
            else:
                io = TensorLayer(t, rng.choice([ao.next_layer, rng.randrange(0, 4)]))
                iot = f"(Some {tl_term(io)})"

            def out_pr(o):
                if isinstance(o, A.AppendOutput):
                    return f"(OutAppend (MkAppendOutput {tensor_term(o.output)} {cz(o.next_layer)}))"
                return (f"(OutBucket (MkBucketOutput {tensor_term(o.output)} {clist(cz(x) for x in o.layers)} "
                        f"{clist(cz(x) for x in sorted(o.unfulfilled))}))")

            def next_pr(r):
                o, a, b = r
                return f"({out_pr(o)}, {coq_stmt(a.finalize())}, {coq_stmt(b.finalize())})"

            e, st = opt(lambda: ao.next_output(io, k), next_pr)
            add(f"next_{suffix('AppendOutput_next_output')} (AppendOutput_next_output {aot} {iot} {kt_term(k)}) {e}",
                f"AppendOutput.next_output {d0} next_layer={ao.next_layer} io={None if io is None else io.layer} {k.name} -> {st}")
        e, st = opt(lambda: A.AppendOutput(t, 0).vals_pointer(), coq_expr)
        add(f"ex_{suffix('AppendOutput_vals_pointer')} (AppendOutput_vals_pointer (MkAppendOutput {tt} 0%Z)) {e}", f"vals_pointer {d0}")
        # the layer emitters
        for layer in sorted({0, len(t.modes) - 1, rng.randrange(-1, 5)}):
            tl = TensorLayer(t, layer)
            for fn in ("write_sparse_initialization", "write_crd_assembly", "write_pos_assembly", "write_pos_allocation"):
                e, st = opt(lambda: getattr(W, fn)(tl), sb_pr)
                add(f"sb_{suffix(fn)} ({fn} {tl_term(tl)}) {e}", f"{fn} {d0} layer={layer} -> {st}")
        # bucket
        L = len(t.modes)
        layers = sorted(rng.sample(range(0, L + 1), rng.randrange(0, min(3, L + 1) + 0) if L else 0)) if L else []
        if rng.random() < 0.5 and L:
            layers = list(range(rng.randrange(0, L), L))
        unf = None if rng.random() < 0.6 else set(rng.sample(range(0, 4), rng.randrange(0, 3)))
        unft = "None" if unf is None else f"(Some {clist(cz(x) for x in sorted(unf))})"

        def bk_pr(o):
            return (f"(OutBucket (MkBucketOutput {tensor_term(o.output)} {clist(cz(x) for x in o.layers)} "
                    f"{clist(cz(x) for x in sorted(o.unfulfilled))}))")

        e, st = opt(lambda: B.BucketOutput(t, layers, unf), bk_pr)
        add(f"bk_{suffix('BucketOutput_init')} (BucketOutput_init {tt} {clist(cz(x) for x in layers)} {unft}) {e}",
            f"BucketOutput({d0}, {layers}, {unf}) -> {st}")
        try:
            bo = B.BucketOutput(t, layers, unf)
        except Exception:
            bo = None
        if bo is not None:
            bot = (f"(MkBucketOutput {tt} {clist(cz(x) for x in layers)} "
                   f"{clist(cz(x) for x in sorted(bo.unfulfilled))})")
            rhs = gen_rhs()
            e, st = opt(lambda: bo.name(), coq_expr)
            add(f"ex_{suffix('BucketOutput_name')} (BucketOutput_name {bot}) {e}", f"bucket name {d0} {layers}")
            e, st = opt(lambda: bo.loop_name(), coq_expr)
            add(f"ex_{suffix('BucketOutput_loop_name')} (BucketOutput_loop_name {bot}) {e}", f"bucket loop_name {d0} {layers}")
            e, st = opt(lambda: bo.dimension_names(), lambda xs: clist(coq_expr(x) for x in xs))
            add(f"exs_{suffix('BucketOutput_dimension_names')} (BucketOutput_dimension_names {bot}) {e}",
                f"bucket dimension_names {d0} {layers} -> {st}")
            e, st = opt(lambda: bo.write_declarations(rhs), sb_pr)
            add(f"sb_{suffix('BucketOutput_write_declarations')} (BucketOutput_write_declarations {bot} {coq_expr(rhs)}) {e}",
                f"bucket write_declarations {d0} {layers} -> {st}")
            k = rng.choice(kinds)
            e, st = opt(lambda: bo.write_assignment(rhs, k), sb_pr)
            add(f"sb_{suffix('BucketOutput_write_assignment')} (BucketOutput_write_assignment {bot} {coq_expr(rhs)} {kt_term(k)}) {e}",
                f"bucket write_assignment {d0} {layers} -> {st}")
            dims = [ir.Variable(rng.choice(idx_pool) + "_dim") for _ in range(rng.randrange(0, 4))]
            idxs = [ir.Variable(rng.choice(idx_pool)) for _ in range(len(dims) if rng.random() < 0.8 else rng.randrange(0, 4))]
            e, st = opt(lambda: bo.ravel_indexes(dims, idxs), coq_expr)
            add(f"ex_{suffix('BucketOutput_ravel_indexes')} (BucketOutput_ravel_indexes {bot} {clist(coq_expr(x) for x in dims)} "
                f"{clist(coq_expr(x) for x in idxs)}) {e}", f"ravel_indexes {len(dims)}/{len(idxs)} -> {st}")
            io = None if rng.random() < 0.3 else TensorLayer(t, rng.randrange(0, 4))
            iot = "None" if io is None else f"(Some {tl_term(io)})"

            def bnext_pr(r):
                o, a, b = r
                return f"({bk_pr(o)}, {coq_stmt(a.finalize())}, {coq_stmt(b.finalize())})"

            e, st = opt(lambda: bo.next_output(io, k), bnext_pr)
            add(f"next_{suffix('BucketOutput_next_output')} (BucketOutput_next_output {bot} {iot} {kt_term(k)}) {e}",
                f"bucket next_output {d0} {layers} io={None if io is None else io.layer} -> {st}")
    load_append(None)
    cases, descr = cases[:max(n, 1) * 4], descr[:max(n, 1) * 4]
    text = HEAD + SUBSET + DEFS
    text += "Definition results : list bool :=\n " + clist(cases) + ".\n"
    text += "Eval vm_compute in (failing results).\n"
    return {"coq": text, "n": len(cases), "descr": descr}


TARGETS = {"append": t_append}
