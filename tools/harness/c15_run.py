"""C15 implementation runner.  Reads one JSON request on stdin, prints one JSON document.

modes
  codegen : generate_code for every request, in the given order (text hashes; full text on demand),
            plus the desugared tree and index_dimensions of every distinct assignment
  cli     : typer CliRunner on tensora.cli.app (stdout and -o file) against the library text
  eqhash  : Problem.__eq__ / __hash__ on pairs; make_problem results
  lru     : cachable_tensor_method with a stub TensorMethod: identity pattern of a request history
  cache   : evaluate through a warm cache vs after cache_clear(), on real kernels
"""

import hashlib
import json
import os
import sys

sys.path.insert(0, os.path.dirname(os.path.abspath(__file__)))

import c10_common as cc  # noqa: E402

from returns.result import Failure  # noqa: E402
from tensora.desugar import desugar_assignment, index_dimensions  # noqa: E402
from tensora.desugar import ast as dast  # noqa: E402
from tensora.expression import ast as east  # noqa: E402
from tensora.expression import parse_assignment  # noqa: E402
from tensora.format import parse_format  # noqa: E402
from tensora.generate import Language, generate_code  # noqa: E402
from tensora.kernel_type import KernelType  # noqa: E402
from tensora.problem import Problem, make_problem  # noqa: E402


def sha(text):
    return hashlib.sha256(text.encode()).hexdigest()


def to_impl_expr(e):
    k = e[0]
    if k == "tensor":
        return east.Tensor(e[1], tuple(e[2]))
    if k == "int":
        return east.Integer(e[1])
    if k == "float":
        return east.Float(e[1])
    cls = {"add": east.Add, "sub": east.Subtract, "mul": east.Multiply}[k]
    return cls(to_impl_expr(e[1]), to_impl_expr(e[2]))


def build_problem_direct(assignment_text, formats):
    """Problem(...) itself (no reordering): formats in exactly the order given"""
    tree = cc.parse_assignment(assignment_text)
    a = east.Assignment(to_impl_expr(tree[0]), to_impl_expr(tree[1]))
    return Problem(a, {n: parse_format(f).unwrap() for n, f in formats})


def library_text(req):
    """the library answer for a request: (ok, text or error class, error string)"""
    a = parse_assignment(req["assignment"])
    if isinstance(a, Failure):
        return False, type(a.failure()).__name__, str(a.failure())
    formats = {}
    for n, f in req["formats"]:
        pf = parse_format(f)
        if isinstance(pf, Failure):
            return False, type(pf.failure()).__name__, str(pf.failure())
        formats[n] = pf.unwrap()
    p = make_problem(a.unwrap(), formats)
    if isinstance(p, Failure):
        return False, type(p.failure()).__name__, str(p.failure())
    r = generate_code(p.unwrap(), [KernelType(k) for k in req["kinds"]], Language(req["language"]))
    if isinstance(r, Failure):
        return False, type(r.failure()).__name__, str(r.failure())
    return True, r.unwrap(), ""


def dtree(e):
    if isinstance(e, dast.Integer):
        return ["int", e.value]
    if isinstance(e, dast.Float):
        return ["float", repr(e.value)]
    if isinstance(e, dast.Tensor):
        return ["tensor", e.id, e.name, list(e.indexes)]
    if isinstance(e, dast.Add):
        return ["add", dtree(e.left), dtree(e.right)]
    if isinstance(e, dast.Multiply):
        return ["mul", dtree(e.left), dtree(e.right)]
    if isinstance(e, dast.Contract):
        return ["contract", e.index, dtree(e.expression)]
    raise TypeError(type(e))


def mode_codegen(req):
    out = {"texts": {}, "desugar": {}, "index_dimensions": {}, "index_participants": {}}
    want_text = set(req.get("want_text", []))
    by_id = {r["rid"]: r for r in req["requests"]}
    for rid in req["order"]:
        r = by_id[rid]
        ok, text, _ = library_text(r)
        if ok:
            out["texts"][str(rid)] = {"ok": True, "sha": sha(text), "len": len(text)}
            if rid in want_text:
                out["texts"][str(rid)]["text"] = text
        else:
            out["texts"][str(rid)] = {"ok": False, "cls": text}
    for text in req.get("assignments", []):
        a = parse_assignment(text)
        if isinstance(a, Failure):
            continue
        d = desugar_assignment(a.unwrap())
        out["desugar"][text] = {"target": dtree(d.target), "expr": dtree(d.expression), "repr": repr(d)}
        out["index_dimensions"][text] = [[k, v.name, v.dimension] for k, v in index_dimensions(d).items()]
        out["index_participants"][text] = [[k, sorted([list(p) for p in v])]
                                           for k, v in a.unwrap().index_participants().items()]
    return out


def mode_cli(req):
    from typer.testing import CliRunner

    from tensora.cli import app

    try:
        runner = CliRunner(mix_stderr=False)
    except TypeError:
        runner = CliRunner()
    out = {}
    scratch = req["scratch"]
    os.makedirs(scratch, exist_ok=True)
    for r in req["requests"]:
        ok, text, err = library_text(r)
        args = [r["assignment"]]
        for n, f in r["formats"]:
            args += ["-f", f"{n}:{f}"]
        if not r.get("default_kinds"):
            for k in r["kinds"]:
                args += ["-t", k]
        if not r.get("default_language"):
            args += ["-l", r["language"]]
        res = runner.invoke(app, args)
        path = os.path.join(scratch, f"out_{r['rid']}.txt")
        if os.path.exists(path):
            os.remove(path)
        res_o = runner.invoke(app, args + ["-o", path])
        file_text = open(path).read() if os.path.exists(path) else None
        entry = {"lib_ok": ok, "exit": res.exit_code, "exit_o": res_o.exit_code,
                 "stdout_is_text_nl": ok and res.stdout == text + "\n",
                 "file_is_text": ok and file_text == text,
                 "stdout_o_empty": res_o.stdout == "",
                 "lib_sha": sha(text) if ok else None, "lib_cls": None if ok else text,
                 "args": args}
        if ok and not (entry["stdout_is_text_nl"] and entry["file_is_text"]):
            entry["stdout"] = res.stdout[:20000]
            entry["file"] = file_text[:20000] if file_text is not None else None
            entry["lib_text"] = text[:20000]
        if not ok:
            try:
                stderr = res.stderr
            except Exception:
                stderr = res.output
            entry["stderr_has_error"] = err.strip() in stderr
            entry["file_written"] = file_text is not None
        out[str(r["rid"])] = entry
    return out


def mode_eqhash(req):
    out = {"pairs": [], "make_problem": []}
    for pr in req["pairs"]:
        try:
            p = build_problem_direct(pr["a1"], pr["f1"])
            q = build_problem_direct(pr["a2"], pr["f2"])
            out["pairs"].append({"pid": pr["pid"], "eq": bool(p == q), "eq_sym": bool(q == p), "ne": bool(p != q),
                                 "hash_eq": hash(p) == hash(q), "in_dict": q in {p: 1},
                                 "refl": bool(p == p) and hash(p) == hash(p)})
        except Exception as e:
            out["pairs"].append({"pid": pr["pid"], "error": type(e).__name__})
    for m in req["make_problem"]:
        tree = cc.parse_assignment(m["assignment"])
        a = east.Assignment(to_impl_expr(tree[0]), to_impl_expr(tree[1]))
        r = make_problem(a, {n: parse_format(f).unwrap() for n, f in m["formats"]})
        if isinstance(r, Failure):
            e = r.failure()
            out["make_problem"].append({"mid": m["mid"], "ok": False, "cls": type(e).__name__,
                                        "name": getattr(e, "name", "")})
        else:
            out["make_problem"].append({"mid": m["mid"], "ok": True,
                                        "formats": [[n, f.deparse()] for n, f in r.unwrap().formats.items()]})
    return out


def mode_lru(req):
    """history of cachable_tensor_method calls with a stub TensorMethod: which calls returned the
    same object.  Exercises functools.lru_cache + Problem.__eq__/__hash__ only."""
    from tensora.compile import _porcelain
    from tensora.compile._tensor_method import BackendCompiler

    class Stub:
        count = 0

        def __init__(self, problem, backend=None):
            Stub.count += 1
            self.serial = Stub.count
            self.problem = problem
            self.backend = backend

    saved = _porcelain.TensorMethod
    _porcelain.TensorMethod = Stub
    _porcelain.cachable_tensor_method.cache_clear()
    try:
        out = []
        for op in req["ops"]:
            if op["op"] == "clear":
                _porcelain.cachable_tensor_method.cache_clear()
                continue
            p = build_problem_direct(op["assignment"], op["formats"])  # a fresh, equal-but-not-identical object
            m = _porcelain.cachable_tensor_method(p, BackendCompiler(op["backend"]))
            out.append({"serial": m.serial,
                        "built_for_request": bool(m.problem == p) and m.backend == BackendCompiler(op["backend"]),
                        "same_formats_order": list(m.problem.formats.keys()) == list(p.formats.keys())})
        info = _porcelain.cachable_tensor_method.cache_info()
        return {"results": out, "maxsize": info.maxsize}
    finally:
        _porcelain.TensorMethod = saved
        _porcelain.cachable_tensor_method.cache_clear()


def mode_cache(req):
    """evaluate through a warm cache vs after cache_clear(), real kernels"""
    import tensora
    from tensora import Tensor
    from tensora.compile import _porcelain

    def make(spec):
        dims = tuple(spec["dims"])
        return Tensor.from_dok({tuple(k): v for k, v in spec["entries"]}, dimensions=dims, format=spec["format"])

    def canon(t):
        return {"format": t.format.deparse(), "dims": list(t.dimensions),
                "indices": t.taco_indices, "vals": [float(v).hex() for v in t.taco_vals]}

    def run(c):
        ev = {"llvm": tensora.evaluate_tensora, "cffi": _porcelain.evaluate_cffi}[c["backend"]]
        try:
            return canon(ev(c["assignment"], c["output_format"], **{n: make(s) for n, s in c["inputs"]}))
        except Exception as e:  # a refusal must be the same refusal warm or cold
            return {"error": type(e).__name__}

    out = {}
    cases = req["cases"]
    _porcelain.cachable_tensor_method.cache_clear()
    first = {c["cid"]: run(c) for c in cases}                 # every kernel freshly compiled
    info1 = _porcelain.cachable_tensor_method.cache_info()
    warm = {c["cid"]: run(c) for c in reversed(cases)}        # all through the cache, other order
    info2 = _porcelain.cachable_tensor_method.cache_info()
    cold = {}
    for c in cases:                                            # fresh kernel for each, nothing else cached
        _porcelain.cachable_tensor_method.cache_clear()
        cold[c["cid"]] = run(c)
    for c in cases:
        k = c["cid"]
        out[str(k)] = {"first": first[k], "warm": warm[k], "cold": cold[k],
                       "equal": first[k] == warm[k] == cold[k]}
    return {"cases": out, "misses_first": info1.misses, "hits_warm": info2.hits - info1.hits,
            "misses_warm": info2.misses - info1.misses}


def main():
    req = json.load(sys.stdin)
    fn = {"codegen": mode_codegen, "cli": mode_cli, "eqhash": mode_eqhash, "lru": mode_lru,
          "cache": mode_cache}[req["mode"]]
    json.dump(fn(req), sys.stdout)


if __name__ == "__main__":
    main()
