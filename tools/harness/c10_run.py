"""C10 implementation runner: runs /repo's tensor_method / evaluate / Problem / make_problem on the
cases read from stdin (JSON) and prints one JSON line per case.

Kernel entry is observed by replacing ``TensorMethod._evaluate`` *on the instance* with a probe
(no edit of /repo).  For every case other than a group's base case the probe records the entry
and the output dimensions and then raises instead of running the kernel, so an accepted
inconsistent call cannot take the process down before it is reported.
"""

import json
import os
import sys
import traceback

sys.path.insert(0, os.path.dirname(os.path.abspath(__file__)))

import c10_common as cc  # noqa: E402

import tensora  # noqa: E402
from tensora import Tensor  # noqa: E402
from tensora.compile import _porcelain  # noqa: E402
from tensora.compile._tensor_method import BackendCompiler, TensorMethod  # noqa: E402
from tensora.expression import ast as east  # noqa: E402
from tensora.format import parse_format as impl_parse_format  # noqa: E402
from tensora.problem import Problem, make_problem  # noqa: E402


class _Entered(BaseException):
    pass


class State:
    entered = 0
    dims = None
    passthrough = False


class Probe:
    def __init__(self, orig, out_pos):
        self.orig = orig
        self.out_pos = out_pos

    def __call__(self, *args):
        State.entered += 1
        out = args[self.out_pos]
        State.dims = [int(out.dimensions[i]) for i in range(out.order)]
        if State.passthrough:
            return self.orig(*args)
        raise _Entered()


def install(tm):
    if not isinstance(tm._evaluate, Probe):
        names = list(tm._problem.formats.keys())
        tm._evaluate = Probe(tm._evaluate, names.index(tm._output_name))
    return tm


_orig_cachable = _porcelain.cachable_tensor_method


def _patched(problem, backend):
    return install(_orig_cachable(problem, backend))


_porcelain.cachable_tensor_method = _patched


def emit(obj):
    sys.stdout.write(json.dumps(obj) + "\n")
    sys.stdout.flush()


def canon_error(e):
    tb = traceback.extract_tb(e.__traceback__)
    last = tb[-1] if tb else None
    site = f"{os.path.basename(last.filename)}:{last.name}" if last else "?"
    msg = str(e)
    cls = type(e).__name__
    tag = ""
    name = ""
    import re

    if cls == "TypeError":
        m = re.match(r"Argument (\w+) must be a Tensor", msg)
        if m:
            tag, name = "not_tensor", m.group(1)
        elif site.startswith("inspect.py") or "argument" in msg:
            tag = "bind"
    elif cls == "ValueError":
        m = re.match(r"Argument (\w+) must have (order|modes|mode ordering)", msg)
        if m:
            tag, name = {"order": "order", "modes": "modes", "mode ordering": "ordering"}[m.group(2)], m.group(1)
        elif "expected all these dimensions" in msg:
            tag = "dimensions"
    elif cls in ("UndefinedReferenceError", "IncorrectDimensionsError", "UnusedFormatError"):
        name = e.name
    elif cls == "BroadcastTargetIndexError":
        name = e.index
    elif cls == "AttributeError":
        tag = "format" if "'format'" in msg else ""
    return {"outcome": "error", "cls": cls, "tag": tag, "name": name, "site": site, "msg": msg[:300]}


def make_arg(spec):
    k = spec["kind"]
    if k == "tensor":
        dims = tuple(spec["dims"])
        entries = {}
        if all(d > 0 for d in dims):
            entries[tuple(0 for _ in dims)] = 1.0
            entries[tuple(d - 1 for d in dims)] = 2.0
        return Tensor.from_dok(entries, dimensions=dims, format=spec["format"])
    if k == "float":
        return 3.0
    if k == "int":
        return 3
    if k == "none":
        return None
    if k == "list":
        return [1.0, 2.0]
    if k == "str":
        return "ds"
    if k == "object":
        return object()
    if k == "bool":
        return True
    if k == "dict":
        return {(0,): 1.0}
    raise ValueError(k)


def run_call(fn, positional, keywords, special=None, passthrough=False):
    State.entered = 0
    State.dims = None
    State.passthrough = passthrough
    try:
        pos = [make_arg(a) for a in positional]
        kw = {}
        dup = {}
        for n, a in keywords:
            if n in kw:
                dup[n] = make_arg(a)
            else:
                kw[n] = make_arg(a)
    except Exception as e:  # building the argument itself failed: not a case
        return {"outcome": "skip", "why": f"argument construction: {type(e).__name__}: {e}"[:200]}
    try:
        if dup:
            result = fn(*pos, **kw, **dup)
        else:
            result = fn(*pos, **kw)
        out = {"outcome": "returned", "entered": State.entered, "dims": State.dims}
        if isinstance(result, Tensor):
            out["result_dims"] = list(result.dimensions)
        return out
    except _Entered:
        return {"outcome": "entered", "entered": State.entered, "dims": State.dims}
    except Exception as e:
        r = canon_error(e)
        r["entered"] = State.entered
        return r


def to_impl_expr(e):
    k = e[0]
    if k == "tensor":
        return east.Tensor(e[1], tuple(e[2]))
    if k == "int":
        return east.Integer(e[1])
    if k == "float":
        return east.Float(e[1])
    cls = {"add": east.Add, "sub": east.Subtract, "mul": east.Multiply}[k]
    return cls(to_impl_expr(e[1]), to_impl_expr(e[2]))


def fmt_items(formats):
    return [[n, f.deparse()] for n, f in formats.items()]


def run_ctor(case):
    kind = case["kind"]
    tree = cc.parse_assignment(case["assignment"])
    try:
        a = east.Assignment(to_impl_expr(tree[0]), to_impl_expr(tree[1]))
    except Exception as e:
        return canon_error(e) | {"stage": "assignment"}
    if kind == "assignment":
        return {"outcome": "ok", "variable_orders": [[k, v] for k, v in a.variable_orders().items()],
                "variables": [[k, [repr(t) for t in v]] for k, v in a.expression.variables().items()]}
    formats = {}
    for n, f in case["formats"]:
        formats[n] = impl_parse_format(f).unwrap()
    try:
        if kind == "Problem":
            p = Problem(a, formats)
        elif kind in ("make_problem", "tm_init"):
            r = make_problem(a, formats) if kind == "make_problem" else None
            if kind == "make_problem":
                from returns.result import Failure

                if isinstance(r, Failure):
                    raise r.failure()
                p = r.unwrap()
            else:
                p = Problem(a, formats)
                TensorMethod(p, BackendCompiler(case.get("backend", "llvm")))
        else:
            raise ValueError(kind)
    except Exception as e:
        return canon_error(e) | {"stage": kind}
    return {"outcome": "ok", "formats": fmt_items(p.formats)}


def main():
    req = json.load(sys.stdin)
    for text in req.get("parse", []):
        from tensora.expression import parse_assignment

        r = parse_assignment(text)
        try:
            emit({"parse": text, "repr": repr(r.unwrap())})
        except Exception:
            emit({"parse": text, "repr": None, "failure": type(r.failure()).__name__})
    for case in req.get("ctor", []):
        emit({"cid": case["cid"]} | run_ctor(case))
    for g in req.get("groups", []):
        entry = g["entry"]
        emit({"gid": g["gid"], "start": True})
        if entry == "tensor_method":
            try:
                fn = tensora.tensor_method(g["assignment"], dict(g["formats"]), BackendCompiler(g["backend"]))
                emit({"gid": g["gid"], "construction": {"outcome": "ok", "formats": fmt_items(fn._problem.formats),
                                                        "signature": list(fn.signature.parameters.keys())}})
            except Exception as e:
                emit({"gid": g["gid"], "construction": canon_error(e)})
                fn = None
        else:
            ev = {"evaluate": tensora.evaluate, "evaluate_cffi": _porcelain.evaluate_cffi,
                  "evaluate_tensora": tensora.evaluate_tensora}[entry]
            out_format = g["output_format"]
            assignment = g["assignment"]

            def fn(*pos, _ev=ev, _a=assignment, _o=out_format, **kw):
                return _ev(_a, _o, *pos, **kw)

        if fn is None:
            continue
        for c in g["cases"]:
            emit({"cid": c["cid"], "start": True})
            r = run_call(fn, c["positional"], c["keywords"], c.get("special"), passthrough=bool(c.get("base")))
            emit({"cid": c["cid"]} | r)
    emit({"done": True})


if __name__ == "__main__":
    main()
