"""TIE self-check for the regenerated construction / identity of problems (gen/ProblemGen.v).

The REAL functions of /repo are run on generated arguments and compared, inside coqc, with the regenerated
Gallina functions:

  Assignment(target, expression)   vs  Assignment_post_init      (the dict stored in _variable_orders, or the
                                                                    exception class and raise site)
  Format(modes, ordering)          vs  Format_new
  Problem(assignment, formats)     vs  Problem_new
  make_problem(assignment, formats) vs make_problem               (Success / Failure / raised; formats in order)
  p == q, hash(p) == hash(q)       vs  Problem_eq, Problem_hash_key_eqb
  evaluate_tensora / evaluate_cffi / tensor_method up to the call of cachable_tensor_method
                                   vs  evaluate_problem / evaluate_cffi_problem / tensor_method_problem

Replaced in the harness process (all OUTSIDE the translated statements): parse_assignment / parse_format in
_porcelain's namespace (they return the case's objects: the library steps are parameters of the regenerated
functions) and cachable_tensor_method (records the problem and stops).  Argument objects: a subclass of Tensor
whose properties order / modes / mode_ordering / dimensions return the values of the case (Tensor.format, the
real property, is computed from them).

The raise site of an exception: ordinal of the `raise Cls(...)` / `Failure(Cls(...))` statement in its function,
found from the traceback (innermost frame inside a translated function), else by the class name.
"""

from __future__ import annotations

import ast
import inspect
import os
import traceback

from harness.tie_gen import HEAD, cbool, clist, cstr, cz, ex_term

COQ_DEFS = """
From TV Require Import gen.Deparse gen.TensorMethod gen.ProblemGen.
Definition fmts_eqb := list_eqb (pair_eqb String.eqb Format_eqb).
Definition orders_eqb := list_eqb (pair_eqb String.eqb Z.eqb).
(* expected exception: class, site, name field ("" when the class has none) *)
Definition exc_ok (e : pyexc) (x : string * Z * string) : bool :=
  let '(cls', site', name') := x in
  match e with PyExc cls site vals =>
    String.eqb cls cls' && Z.eqb site site' &&
    match vals with VStr n :: _ => String.eqb n name' | _ => true end
  end.
Definition res_ok {A} (ok : A -> A -> bool) (r : pyres A) (x : A + string * Z * string) : bool :=
  match r, x with
  | Ret a, inl a' => ok a a'
  | Raise e, inr x => exc_ok e x
  | _, _ => false
  end.
Definition problem_same (p q : Problem) : bool :=
  ex_assignment_eqb (Problem_assignment p) (Problem_assignment q) && fmts_eqb (Problem_formats p) (Problem_formats q).
(* make_problem: Success p / Failure e / raised e *)
Inductive expected : Type := XSuccess (p : Problem) | XFailure (x : string * Z * string) | XRaise (x : string * Z * string).
Definition mp_ok (r : pyres (Problem + pyexc)) (x : expected) : bool :=
  match r, x with
  | Ret (inl p), XSuccess q => problem_same p q
  | Ret (inr e), XFailure x => exc_ok e x
  | Raise e, XRaise x => exc_ok e x
  | _, _ => false
  end.
Definition eq_ok (p q : Problem) (py_eq py_hash_eq : bool) : bool :=
  Bool.eqb (Problem_eq p q) py_eq
  && Bool.eqb (Problem_hash_key_eqb (Problem_hash_key p) (Problem_hash_key q)) py_eq
  && implb py_eq py_hash_eq.
"""

_state = {}


class _Captured(BaseException):
    def __init__(self, problem):
        self.problem = problem


def _sites(tree, qualnames):
    """{(function name, class name or None): [(lineno, end_lineno, ordinal, raised class)]} for the named functions"""
    out = {}

    def visit(fn, key):
        nodes = [n for n in ast.walk(fn) if isinstance(n, ast.Raise)
                 or (isinstance(n, ast.Return) and isinstance(n.value, ast.Call) and isinstance(n.value.func, ast.Name)
                     and n.value.func.id == "Failure" and n.value.args and isinstance(n.value.args[0], ast.Call))]
        nodes.sort(key=lambda n: (n.lineno, n.col_offset))
        rows = []
        for i, n in enumerate(nodes):
            call = n.exc if isinstance(n, ast.Raise) else n.value.args[0]
            cls = call.func.id if isinstance(call, ast.Call) and isinstance(call.func, ast.Name) else "?"
            rows.append((n.lineno, n.end_lineno, i, cls))
        out[key] = rows

    for node in tree.body:
        if isinstance(node, ast.FunctionDef) and node.name in qualnames:
            visit(node, node.name)
        if isinstance(node, ast.ClassDef):
            for m in node.body:
                if isinstance(m, ast.FunctionDef) and f"{node.name}.{m.name}" in qualnames:
                    visit(m, m.name + "@" + node.name)
    return out


def setup():
    if _state:
        return _state
    import tensora.compile._porcelain as PO
    import tensora.expression.ast as XA
    import tensora.format._format as FM
    import tensora.problem as PR
    from tensora.tensor import Tensor

    class FakeTensor(Tensor):
        def __init__(self, order, modes, mode_ordering, dimensions):
            self.cffi_tensor = None
            self._v = (order, tuple(modes), tuple(mode_ordering), tuple(dimensions))

        order = property(lambda self: self._v[0])
        modes = property(lambda self: self._v[1])
        mode_ordering = property(lambda self: self._v[2])
        dimensions = property(lambda self: self._v[3])

    tables = {}
    for mod, names in ((PR, {"make_problem", "Problem.__post_init__"}), (XA, {"Assignment.__post_init__"}),
                       (FM, {"Format.__post_init__"}), (PO, {"evaluate_tensora", "evaluate_cffi", "tensor_method"})):
        tables[os.path.realpath(mod.__file__)] = _sites(ast.parse(inspect.getsource(mod)), names)

    def fake_cache(problem, backend):
        raise _Captured(problem)

    PO.cachable_tensor_method = fake_cache
    _state.update(PO=PO, FakeTensor=FakeTensor, tables=tables)
    return _state


def exc_term(e: BaseException) -> str:
    st = setup()
    site = None
    cls = type(e).__name__
    frames = traceback.extract_tb(e.__traceback__) if e.__traceback__ is not None else []
    for f in reversed(frames):
        tab = st["tables"].get(os.path.realpath(f.filename))
        if not tab:
            continue
        hit = None
        for key, rows in tab.items():
            if key.split("@")[0] != f.name:
                continue
            for a, b, i, c in rows:
                if a <= f.lineno <= b and c == cls:
                    hit = i
        if hit is not None:
            site = hit
            break
    if site is None:  # never raised from its statement (a Failure that was only returned): by class name
        found = [i for tab in st["tables"].values() for rows in tab.values() for _, _, i, c in rows if c == cls]
        site = found[0] if len(found) == 1 else -1
    name = getattr(e, "name", "")
    if cls in ("TypeError",):
        name = str(e).split(" ")[1] if str(e).startswith("Argument ") else ""
    if not isinstance(name, str):
        name = ""
    return f"({cstr(cls)}, {cz(site)}, {cstr(name)})"


def fmt_term(f) -> str:
    return f"(MkFormat {clist('Mode_' + m.name for m in f.modes)} {clist(cz(i) for i in f.ordering)})"


def fmts_term(d) -> str:
    return clist(f"({cstr(n)}, {fmt_term(f)})" for n, f in d.items())


def assignment_term(target, expression) -> str:
    return f"(ExAssignment {ex_term(target)} {ex_term(expression)})"


def problem_term(p) -> str:
    return f"(MkProblem {assignment_term(p.assignment.target, p.assignment.expression)} {fmts_term(p.formats)})"


ORDERS = {"A": 2, "B": 1, "C": 0, "D": 3, "b": 1}
INDEXES = ["i", "j", "k", "l"]


def gen_expr(rng, depth, sloppy):
    from tensora.expression import ast as A

    if depth <= 0 or rng.random() < 0.3:
        k = rng.random()
        if k < 0.1:
            return A.Integer(rng.choice([0, 1, 2, 7, -3]))
        if k < 0.18:
            return A.Float(rng.choice([0.5, 2.0, 0.0, -0.0]))
        name = rng.choice(sorted(ORDERS))
        order = ORDERS[name]
        if sloppy and rng.random() < 0.2:
            order = max(0, order + rng.choice([-1, 1]))  # InconsistentDimensionsError candidates
        pool = INDEXES + (["A", "T"] if sloppy and rng.random() < 0.2 else [])  # NameConflictError candidates
        return A.Tensor(name, tuple(rng.choice(pool) for _ in range(order)))
    op = rng.choice([A.Add, A.Subtract, A.Multiply])
    return op(gen_expr(rng, depth - 1, sloppy), gen_expr(rng, depth - 1, sloppy))


def gen_pair(rng, sloppy):
    from tensora.expression import ast as A

    e = gen_expr(rng, rng.choice([0, 1, 1, 2, 2, 3]), sloppy)
    tname = "T" if not (sloppy and rng.random() < 0.12) else rng.choice(sorted(ORDERS))  # MutatingAssignmentError
    tidx = tuple(rng.choice(INDEXES + (["B"] if sloppy and rng.random() < 0.05 else [])) for _ in range(rng.choice([0, 1, 1, 2, 3])))
    return A.Tensor(tname, tidx), e


def gen_assignment(rng):
    from tensora.expression import ast as A

    for _ in range(500):
        t, e = gen_pair(rng, False)
        try:
            return A.Assignment(t, e)
        except Exception:
            continue
    raise RuntimeError("no assignment")


def gen_format(rng, order, valid=True):
    from tensora.format import Format, Mode

    ordering = list(range(order))
    if rng.random() < 0.4:
        rng.shuffle(ordering)
    return Format(tuple(rng.choice([Mode.dense, Mode.compressed]) for _ in range(order)), tuple(ordering))


def gen_formats(rng, a):
    """a dict of formats for the assignment with faults: missing, extra, wrong order, any key order"""
    orders = a.variable_orders()
    names = list(orders)
    rng.shuffle(names)
    out = {}
    for nm in names:
        r = rng.random()
        if r < 0.3:
            continue  # missing: dense default
        o = orders[nm]
        if r < 0.4:
            o = max(0, o + rng.choice([-1, 1, 2]))
        out[nm] = gen_format(rng, o)
    if rng.random() < 0.2:
        items = list(out.items())
        items.insert(rng.randrange(len(items) + 1), (rng.choice(["unused", "Z", "i"]), gen_format(rng, rng.randrange(0, 3))))
        if rng.random() < 0.3:
            items.insert(rng.randrange(len(items) + 1), ("unused2", gen_format(rng, 1)))
        out = dict(items)
    return out


def t_problem(rng, n):
    st = setup()
    PO, FakeTensor = st["PO"], st["FakeTensor"]
    from returns.result import Failure, Success

    from tensora.expression import ast as A
    from tensora.format import Format, Mode
    from tensora.problem import Problem, make_problem

    cases, descr = [], []

    def add(term, text):
        cases.append(term)
        descr.append(text[:500])

    quota = {"assign": n // 6, "format": n // 12, "ctor": n // 8, "make": n // 4, "eq": n // 8}
    # ---- Assignment.__post_init__
    for _ in range(quota["assign"]):
        t, e = gen_pair(rng, True)
        try:
            a = A.Assignment(t, e)
            exp = "inl " + clist(f"({cstr(k)}, {cz(v)})" for k, v in a.variable_orders().items())
        except Exception as x:
            exp = f"inr {exc_term(x)}"
        add(f"res_ok orders_eqb (Assignment_post_init {assignment_term(t, e)}) ({exp})", f"Assignment({t.deparse()} = {e.deparse()})")
    # ---- Format(...)
    for _ in range(quota["format"]):
        k = rng.randrange(0, 4)
        modes = [rng.choice([Mode.dense, Mode.compressed]) for _ in range(k)]
        ordering = list(range(k))
        rng.shuffle(ordering)
        r = rng.random()
        if r < 0.2 and ordering:
            ordering[rng.randrange(len(ordering))] = rng.choice([-1, k, 0, 1])
        elif r < 0.3:
            ordering = ordering + [rng.choice([0, k])]
        elif r < 0.4 and ordering:
            ordering = ordering[:-1]
        mt, ot = clist("Mode_" + m.name for m in modes), clist(cz(i) for i in ordering)
        try:
            f = Format(tuple(modes), tuple(ordering))
            exp = f"inl {fmt_term(f)}"
        except Exception as x:
            exp = f"inr {exc_term(x)}"
        add(f"res_ok Format_eqb (Format_new {mt} {ot}) ({exp})", f"Format({modes}, {ordering})")
    # ---- Problem(...)
    for _ in range(quota["ctor"]):
        a = gen_assignment(rng)
        fs = gen_formats(rng, a)
        try:
            p = Problem(a, fs)
            exp = f"inl {problem_term(p)}"
        except Exception as x:
            exp = f"inr {exc_term(x)}"
        add(f"res_ok problem_same (Problem_new {assignment_term(a.target, a.expression)} {fmts_term(fs)}) ({exp})",
            f"Problem({a.deparse()}, {[(k, f.deparse()) for k, f in fs.items()]})")
    # ---- make_problem
    made = []
    for _ in range(quota["make"]):
        a = gen_assignment(rng)
        fs = gen_formats(rng, a)
        try:
            r = make_problem(a, fs)
            if isinstance(r, Success):
                made.append(r.unwrap())
                exp = f"XSuccess {problem_term(r.unwrap())}"
            elif isinstance(r, Failure):
                exp = f"XFailure {exc_term(r.failure())}"
            else:
                exp = 'XRaise ("harness: neither Success nor Failure", 0%Z, "")'
        except Exception as x:
            exp = f"XRaise {exc_term(x)}"
        add(f"mp_ok (make_problem {assignment_term(a.target, a.expression)} {fmts_term(fs)}) ({exp})",
            f"make_problem({a.deparse()}, {[(k, f.deparse()) for k, f in fs.items()]})")
    # ---- __eq__ / __hash__
    for _ in range(quota["eq"]):
        if not made:
            break
        p = rng.choice(made)
        r = rng.random()
        if r < 0.3:
            q = Problem(A.Assignment(p.assignment.target, p.assignment.expression), dict(p.formats.items()))  # a copy
        elif r < 0.55 and len(p.formats) > 1:
            items = list(p.formats.items())
            rng.shuffle(items)
            q = Problem(p.assignment, dict(items))  # same formats, another order
        elif r < 0.75 and p.formats:
            items = list(p.formats.items())
            j = rng.randrange(len(items))
            f = items[j][1]
            if f.order:
                k = rng.randrange(f.order)
                modes = list(f.modes)
                modes[k] = Mode.dense if modes[k] is Mode.compressed else Mode.compressed
                items[j] = (items[j][0], Format(tuple(modes), f.ordering))
            q = Problem(p.assignment, dict(items))
        else:
            q = rng.choice(made)
        add(f"eq_ok {problem_term(p)} {problem_term(q)} {cbool(p == q)} {cbool(hash(p) == hash(q))}",
            f"{p.assignment.deparse()} {[(k, f.deparse()) for k, f in p.formats.items()]} == "
            f"{q.assignment.deparse()} {[(k, f.deparse()) for k, f in q.formats.items()]}")
    # ---- the entry points
    while len(cases) < n:
        a = gen_assignment(rng)
        orders = a.variable_orders()
        which = rng.choice(["evaluate_tensora", "evaluate_tensora", "evaluate_cffi", "tensor_method"])
        if which == "tensor_method":
            fs = gen_formats(rng, a)
            PO.parse_assignment = lambda s, _a=a: Success(_a)
            PO.parse_format = lambda s: Success(s)  # the values of `formats` are already Format objects
            try:
                PO.tensor_method("", fs)
                exp = 'inr ("harness: returned", 0%Z, "")'
            except _Captured as c:
                exp = f"inl {problem_term(c.problem)}"
            except Exception as x:
                exp = f"inr {exc_term(x)}"
            add(f"res_ok problem_same (tensor_method_problem {assignment_term(a.target, a.expression)} {fmts_term(fs)}) ({exp})",
                f"tensor_method({a.deparse()}, {[(k, f.deparse()) for k, f in fs.items()]})")
            continue
        inputs = {}
        names = [k for k in orders if k != a.target.name]
        rng.shuffle(names)
        for nm in names:
            r = rng.random()
            if r < 0.08:
                continue  # missing input: dense default (make_problem does not know it is an input)
            o = orders[nm]
            if r < 0.16:
                o = max(0, o + rng.choice([-1, 1]))
            f = gen_format(rng, o)
            ordering = list(f.ordering)
            if rng.random() < 0.06 and ordering:
                ordering[0] = rng.choice([-1, o, ordering[-1]])  # a tensor whose format is no Format
            inputs[nm] = FakeTensor(o, f.modes, ordering, [2] * o)
        r = rng.random()
        if r < 0.08:
            inputs[rng.choice(["extra", a.target.name])] = FakeTensor(1, [Mode.dense], [0], [2])
        elif r < 0.2 and inputs:
            inputs[rng.choice(list(inputs))] = rng.choice([None, 3.0, "x"])
        outf = gen_format(rng, max(0, orders[a.target.name] + (rng.choice([-1, 1]) if rng.random() < 0.1 else 0)))
        out_exc = None
        if rng.random() < 0.08:
            out_exc = ValueError("harness: the format text does not parse")
        PO.parse_assignment = lambda s, _a=a: Success(_a)
        PO.parse_format = (lambda s, _f=outf: Success(_f)) if out_exc is None else (lambda s, _x=out_exc: Failure(_x))
        try:
            getattr(PO, which)("", "", **inputs)
            exp = 'inr ("harness: returned", 0%Z, "")'
        except _Captured as c:
            exp = f"inl {problem_term(c.problem)}"
        except Exception as x:
            exp = f"inr {exc_term(x)}"
        step = f"(Ret {fmt_term(outf)})" if out_exc is None else '(Raise (PyExc "ValueError" (-1)%Z []))'
        args = clist(f"({cstr(k)}, " + (f"(PyTensor {cz(v._v[0])} {clist('Mode_' + m.name for m in v._v[1])} "
                                        f"{clist(cz(i) for i in v._v[2])} {clist(cz(i) for i in v._v[3])})"
                                        if isinstance(v, FakeTensor) else "PyOther") + ")" for k, v in inputs.items())
        fn = "evaluate_problem" if which == "evaluate_tensora" else "evaluate_cffi_problem"
        add(f"res_ok problem_same ({fn} {assignment_term(a.target, a.expression)} {step} {args}) ({exp})",
            f"{which}({a.deparse()}, {outf.deparse() if out_exc is None else '<unparsable>'}, "
            f"{ {k: (v._v[:3] if isinstance(v, FakeTensor) else repr(v)) for k, v in inputs.items()} })")
    text = HEAD + COQ_DEFS
    text += "Definition results : list bool :=\n " + clist(cases) + ".\n"
    text += "Eval vm_compute in (failing results).\n"
    return {"coq": text, "n": len(cases), "descr": descr}


TARGETS = {"problem": t_problem}
