"""TIE self-check for target "tensorbuild": the REAL functions of tensora/tensor.py and
compile/_cffi_ownership.py against the regenerated gen/TensorBuildGen.v (values: integer-valued
floats, read as Z on the Coq side)."""

from __future__ import annotations

import itertools

HEAD = """From Coq Require Import ZArith List Bool.
From TV Require Import spec.PyBase spec.PyLib spec.Storage model.TensorBuildPy gen.TensorBuildGen.
Import ListNotations.
Open Scope Z_scope.
Fixpoint failing_from (i : nat) (l : list bool) : list nat :=
  match l with [] => [] | b :: t => if b then failing_from (S i) t else i :: failing_from (S i) t end.
Definition failing (l : list bool) : list nat := failing_from 0 l.
Definition zl := list_eqb Z.eqb.
Definition zll := list_eqb zl.
Definition zlll := list_eqb zll.
Definition ents := list_eqb (pair_eqb zl Z.eqb).
Fixpoint tree_eqb (a b : pytree Z) {struct a} : bool :=
  match a, b with
  | PLeaf x, PLeaf y => Z.eqb x y
  | PDict d, PDict e =>
      (fix go (d e : list (Z * pytree Z)) : bool :=
         match d, e with
         | [], [] => true
         | (k, t) :: d', (k', t') :: e' => Z.eqb k k' && tree_eqb t t' && go d' e'
         | _, _ => false
         end) d e
  | _, _ => false
  end.
Definition FUEL := 40%nat.
(* expected: None = the Python call raised *)
Definition chk {A} (eqb : A -> A -> bool) (r : R A) (e : option A) : bool :=
  match r, e with Val a, Some b => eqb a b | Exc, None => true | _, _ => false end.
Definition stored_eqb (a b : list (list (list Z)) * list Z * list Z * list Z * list Z) : bool :=
  let '(i, v, m, d, o) := a in let '(i', v', m', d', o') := b in
  zlll i i' && zl v v' && zl m m' && zl d d' && zl o o'.
Definition G_aos := from_aos Z 0 Z.add Z.eqb FUEL.
Definition G_dok := from_dok Z 0 Z.add Z.eqb FUEL.
Definition G_soa := from_soa Z 0 Z.add Z.eqb FUEL.
Definition G_lol := from_lol Z 0 Z.add Z.eqb FUEL.
Definition G_tree := coordinates_to_tree Z 0 Z.add Z.eqb FUEL.
Definition G_arrays := tree_to_indices_and_values Z 0 Z.add Z.eqb FUEL.
Definition G_lolcv := lol_to_coordinates_and_values Z 0 Z.add Z.eqb FUEL.
Definition G_valid := taco_structure_to_cffi Z 0 Z.add Z.eqb.
Definition G_items := items Z 0 Z.add Z.eqb FUEL.
Definition G_to_dok := to_dok Z 0 Z.add Z.eqb.
Definition G_taco_indices := taco_indices Z 0 Z.add Z.eqb.
Definition G_taco_vals := taco_vals Z 0 Z.add Z.eqb.
Definition G_getstate := __getstate__ Z 0 Z.add Z.eqb.
Definition G_setstate := __setstate__ Z 0 Z.add Z.eqb.
Definition G_to_format := to_format Z 0 Z.add Z.eqb FUEL.
Definition state_eqb (a b : list Z * list Z * list Z * list (list (list Z)) * list Z) : bool :=
  let '(d, m, o, i, v) := a in let '(d', m', o', i', v') := b in
  zl d d' && zl m m' && zl o o' && zlll i i' && zl v v'.
"""


def cz(i) -> str:
    return f"({int(i)})"


def clist(xs) -> str:
    return "[" + "; ".join(xs) + "]"


def czl(xs) -> str:
    return clist(cz(x) for x in xs)


def czll(xs) -> str:
    return clist(czl(x) for x in xs)


def czlll(xs) -> str:
    return clist(czll(x) for x in xs)


def cents(es) -> str:
    return clist(f"({czl(c)}, {cz(v)})" for c, v in es)


def cmodes(ms) -> str:
    return clist("Mode_" + m.name for m in ms)


def cfmt(modes, ordering) -> str:
    return f"(mkFormat {cmodes(modes)} {czl(ordering)})"


def ctree(t) -> str:
    if isinstance(t, dict):
        return "(PDict " + clist(f"({cz(k)}, {ctree(v)})" for k, v in t.items()) + ")"
    return f"(PLeaf {cz(t)})"


def clol(x) -> str:
    if isinstance(x, list):
        return "(LolList " + clist(clol(y) for y in x) + ")"
    return f"(LolNum {cz(x)})"


def raw(t):
    """The harness's own reading of the C structure (not through the accessors under test)."""
    from tensora.compile import tensor_cdefs

    c = t.cffi_tensor
    order = c.order
    dims, mo, mt = list(c.dimensions[0:order]), list(c.mode_ordering[0:order]), list(c.mode_types[0:order])
    ixp = tensor_cdefs.cast("int32_t***", c.indices)
    ix, nnz = [], 1
    for i in range(order):
        if mt[i] == 0:
            ix.append([])
            nnz *= dims[mo[i]]
        else:
            pos = list(ixp[i][0][0:nnz + 1])
            crd = list(ixp[i][1][0:pos[-1]])
            ix.append([pos, crd])
            nnz = len(crd)
    return ix, list(tensor_cdefs.cast("double*", c.vals)[0:nnz])


def cstored(t) -> str:
    ix, vals = raw(t)
    return (f"({czlll(ix)}, {czl(vals)}, {czl(m.c_int for m in t.modes)}, "
            f"{czl(t.dimensions)}, {czl(t.mode_ordering)})")


def copt(s) -> str:
    return "None" if s is None else f"(Some {s})"


class Fmt:
    """A format object that skips Format.__post_init__ (to reach the ill-formed orderings too)."""

    def __init__(self, modes, ordering):
        self.modes, self.ordering = tuple(modes), tuple(ordering)


def t_tensorbuild(rng, n):
    from tensora import tensor as T
    from tensora.compile import taco_structure_to_cffi
    from tensora.format import Format, Mode

    cases, descr = [], []

    def rand_format(order):
        modes = [rng.choice([Mode.dense, Mode.compressed]) for _ in range(order)]
        ordering = list(range(order))
        rng.shuffle(ordering)
        return modes, ordering

    def rand_entries(order, dims, k, bad=False):
        es = []
        if not bad and any(d == 0 for d in dims[:order]):
            k = 0  # no cell at all
        for _ in range(k):
            c = [rng.randrange(0, max(d, 1)) for d in dims[:order]]
            if bad and rng.random() < 0.3 and order:
                j = rng.randrange(order)
                c[j] = rng.choice([-1, dims[j], dims[j] + 1])
            if bad and rng.random() < 0.15:
                c = c[:-1] if c and rng.random() < 0.5 else c + [0]
            es.append((tuple(c), float(rng.choice([0, 1, 2, 3, -1, -2, 5]))))
        return es

    def guarded(f):
        try:
            return f()
        except Exception:  # noqa: BLE001  every exception class is the one error value
            return None

    kinds = ["aos", "aos", "aos_bad", "dok", "soa", "lol", "tree", "arrays", "lolcv", "valid", "items", "to_dok",
             "taco", "pickle", "to_format"]
    for i in range(n):
        kind = kinds[i % len(kinds)]
        order = rng.choice([0, 1, 1, 2, 2, 2, 3, 3, 4])
        dims = [rng.choice([0, 1, 2, 3, 4]) for _ in range(order)]
        modes, ordering = rand_format(order)
        if kind in ("aos", "aos_bad", "dok"):
            bad = kind == "aos_bad"
            es = rand_entries(order, dims, rng.randrange(0, 7), bad=bad)
            fmt = Format(tuple(modes), tuple(ordering))
            ddims = list(dims)
            if bad and rng.random() < 0.2:
                r = rng.random()
                if r < 0.3 and order:
                    fmt = Fmt(modes[:-1], ordering)
                elif r < 0.6 and order:
                    fmt = Fmt(modes, [ordering[0]] * order)
                elif r < 0.8:
                    ddims = ddims + [2]
                elif ddims:
                    ddims[rng.randrange(order)] = -1
            if kind == "dok":
                d = dict(es)
                r = guarded(lambda: T.Tensor.from_dok(d, dimensions=tuple(ddims), format=fmt))
                cases.append(f"chk stored_eqb (G_dok {cents(d.items())} {czl(ddims)} {cfmt(fmt.modes, fmt.ordering)}) "
                             f"{copt(None if r is None else cstored(r))}")
                descr.append(f"from_dok {d} dims={ddims} {fmt.modes} {fmt.ordering}")
            else:
                cs, vs = [c for c, _ in es], [v for _, v in es]
                if bad and rng.random() < 0.15:
                    vs = vs + [1.0] if rng.random() < 0.5 else vs[:-1]
                r = guarded(lambda: T.Tensor.from_aos(cs, vs, dimensions=tuple(ddims), format=fmt))
                cases.append(f"chk stored_eqb (G_aos {czll(cs)} {czl(vs)} {czl(ddims)} {cfmt(fmt.modes, fmt.ordering)}) "
                             f"{copt(None if r is None else cstored(r))}")
                descr.append(f"from_aos {cs} {vs} dims={ddims} {fmt.modes} {fmt.ordering}")
        elif kind == "soa":
            es = rand_entries(order, dims, rng.randrange(0, 6))
            cols = [[c[j] for c, _ in es] for j in range(order)]
            vs = [v for _, v in es]
            if cols and rng.random() < 0.2:
                cols[rng.randrange(order)].append(0)
            fmt = Format(tuple(modes), tuple(ordering))
            r = guarded(lambda: T.Tensor.from_soa(tuple(cols), vs, dimensions=tuple(dims), format=fmt))
            cases.append(f"chk stored_eqb (G_soa {czll(cols)} {czl(vs)} {czl(dims)} {cfmt(modes, ordering)}) "
                         f"{copt(None if r is None else cstored(r))}")
            descr.append(f"from_soa {cols} {vs} dims={dims} {modes} {ordering}")
        elif kind in ("lol", "lolcv"):
            def mk(ds):
                if not ds:
                    return float(rng.choice([0, 0, 1, 2, -3]))
                k = ds[0] if rng.random() < 0.9 else max(0, ds[0] - 1)
                return [mk(ds[1:]) for _ in range(k)]
            x = mk(dims)
            if kind == "lolcv":
                kz = rng.random() < 0.5
                cs, vs = T.lol_to_coordinates_and_values(x, kz)
                cases.append(f"chk (pair_eqb zll zl) (G_lolcv {clol(x)} {'true' if kz else 'false'}) "
                             f"(Some ({czll(cs)}, {czl(vs)}))")
                descr.append(f"lol_to_coordinates_and_values {x} {kz}")
            else:
                fmt = Format(tuple(modes), tuple(ordering))
                r = guarded(lambda: T.Tensor.from_lol(x, dimensions=tuple(dims), format=fmt))
                cases.append(f"chk stored_eqb (G_lol {clol(x)} {czl(dims)} {cfmt(modes, ordering)}) "
                             f"{copt(None if r is None else cstored(r))}")
                descr.append(f"from_lol {x} dims={dims} {modes} {ordering}")
        elif kind == "tree":
            es = rand_entries(order, dims, rng.randrange(0, 7), bad=True)
            cs, vs = [c for c, _ in es], [v for _, v in es]
            if rng.random() < 0.1:
                vs = vs[:-1]
            r = guarded(lambda: ("ok", T.coordinates_to_tree(cs, vs)))
            exp = None if r is None else ("None" if r[1] is None else f"(Some {ctree(r[1])})")
            cases.append(f"chk (option_eqb tree_eqb) (G_tree {czll(cs)} {czl(vs)}) {copt(exp)}")
            descr.append(f"coordinates_to_tree {cs} {vs}")
        elif kind == "arrays":
            # arbitrary trees (also of the wrong depth / with leaves where dicts are expected)
            def mkt(depth):
                if depth == 0 or rng.random() < 0.08:
                    return float(rng.choice([0, 1, 2, -1]))
                ks = rng.sample(range(-1, 5), rng.randrange(0, 4))
                return {k: mkt(depth - 1) for k in ks}
            tree = None if rng.random() < 0.1 else mkt(order if rng.random() < 0.85 else max(0, order - 1))
            ms = list(modes)
            if rng.random() < 0.1 and ms:
                ms = ms[:-1]
            r = guarded(lambda: T.tree_to_indices_and_values(tree, tuple(ms), tuple(dims)))
            ct = "None" if tree is None else f"(Some {ctree(tree)})"
            exp = None if r is None else f"({czlll(r[0])}, {czl(r[1])})"
            cases.append(f"chk (pair_eqb zlll zl) (G_arrays {ct} {cmodes(ms)} {czl(dims)}) {copt(exp)}")
            descr.append(f"tree_to_indices_and_values {tree} {ms} {dims}")
        elif kind in ("valid", "items", "to_dok", "taco", "pickle", "to_format"):
            es = rand_entries(order, dims, rng.randrange(0, 7))
            fmt = Format(tuple(modes), tuple(ordering))
            t = guarded(lambda: T.Tensor.from_aos([c for c, _ in es], [v for _, v in es], dimensions=tuple(dims), format=fmt))
            if t is None:  # cannot happen for in-range input
                cases.append("false")
                descr.append(f"from_aos raised on in-range input {es} {dims} {modes} {ordering}")
                continue
            ix, vals = raw(t)
            if kind == "valid":
                ix = [[list(a) for a in lv] for lv in ix]
                mt, dd, oo = [m.c_int for m in modes], list(dims), list(ordering)
                r = rng.random()
                comp = [j for j, lv in enumerate(ix) if lv]
                if r < 0.15 and comp:
                    j = rng.choice(comp); ix[j][0][0] += 1
                elif r < 0.3 and comp:
                    j = rng.choice(comp); ix[j][0].append(ix[j][0][-1])
                elif r < 0.4 and comp:
                    j = rng.choice(comp); ix[j][1].append(rng.choice([0, -1, 7]))
                elif r < 0.5 and comp:
                    j = rng.choice(comp)
                    if len(ix[j][0]) > 2:
                        ix[j][0][1], ix[j][0][-1] = ix[j][0][-1] + 1, ix[j][0][1]
                elif r < 0.55:
                    vals = vals + [1.0]
                elif r < 0.6 and mt:
                    mt[rng.randrange(order)] = rng.choice([2, -1, 1, 0])
                elif r < 0.65 and oo:
                    oo[0] = rng.choice([order, -1, oo[-1]])
                elif r < 0.7 and dd:
                    dd[rng.randrange(order)] = rng.choice([-1, 0, 1])
                elif r < 0.75 and ix:
                    ix[rng.randrange(order)] = rng.choice([[], [[0]], [[0], [], []]])
                elif r < 0.8:
                    ix = ix + [[]]
                ok = guarded(lambda: taco_structure_to_cffi(ix, vals, mode_types=tuple(mt), dimensions=tuple(dd),
                                                            mode_ordering=tuple(oo)))
                exp = None if ok is None else f"({czlll(ix)}, {czl(vals)}, {czl(mt)}, {czl(dd)}, {czl(oo)})"
                cases.append(f"chk stored_eqb (G_valid {czlll(ix)} {czl(vals)} {czl(mt)} {czl(dd)} {czl(oo)}) {copt(exp)}")
                descr.append(f"taco_structure_to_cffi {ix} {vals} {mt} {dd} {oo}")
            elif kind in ("taco", "pickle", "to_format"):
                # the C arrays may be longer than what is read (kernel outputs keep spare capacity): pad them
                pad = rng.random() < 0.3
                cix = [[list(a) + ([9] * rng.randrange(1, 3) if pad and a is lv[1] else []) for a in lv] for lv in ix]
                cvals = list(vals) + ([7.0] if pad else [])
                six = f"{cz(order)} {cmodes(modes)} {czl(dims)} {czl(ordering)}"
                six_id = f"{cz(order)} {czl(dims)} {cmodes(modes)} {czl(ordering)}"
                if kind == "taco":
                    ti, tv = guarded(lambda: t.taco_indices), guarded(lambda: t.taco_vals)
                    cases.append(f"chk zlll (G_taco_indices {six_id} {czlll(cix)}) {copt(None if ti is None else czlll(ti))} && "
                                 f"chk zl (G_taco_vals {six_id} {czlll(cix)} {czl(cvals)}) {copt(None if tv is None else czl(tv))}")
                    descr.append(f"taco_indices / taco_vals of from_aos {es} dims={dims} {modes} {ordering} (padded={pad})")
                elif kind == "pickle":
                    st = guarded(lambda: t.__getstate__())
                    if st is None:
                        cases.append(f"chk state_eqb (G_getstate {six} {czlll(cix)} {czl(cvals)}) None")
                        descr.append(f"__getstate__ raised: from_aos {es} dims={dims} {modes} {ordering}")
                        continue
                    cst = (f"({czl(st['dimensions'])}, {czl(st['mode_types'])}, {czl(st['mode_ordering'])}, "
                           f"{czlll(st['indices'])}, {czl(st['vals'])})")
                    if rng.random() < 0.3 and st["vals"]:
                        st = dict(st, vals=st["vals"][:-1])  # a damaged pickle
                        cst2 = (f"({czl(st['dimensions'])}, {czl(st['mode_types'])}, {czl(st['mode_ordering'])}, "
                                f"{czlll(st['indices'])}, {czl(st['vals'])})")
                    else:
                        cst2 = cst
                    t2 = T.Tensor.__new__(T.Tensor)
                    r = guarded(lambda: (t2.__setstate__(st), t2)[1])
                    cases.append(f"chk state_eqb (G_getstate {six} {czlll(cix)} {czl(cvals)}) (Some {cst}) && "
                                 f"chk stored_eqb (G_setstate {cst2}) {copt(None if r is None else cstored(r))}")
                    descr.append(f"__getstate__ / __setstate__ of from_aos {es} dims={dims} {modes} {ordering}")
                else:
                    m2, o2 = rand_format(order)
                    f2 = Format(tuple(m2), tuple(o2))
                    r = guarded(lambda: t.to_format(f2))
                    cases.append(f"chk stored_eqb (G_to_format {six} {czlll(cix)} {czl(cvals)} {cfmt(m2, o2)}) "
                                 f"{copt(None if r is None else cstored(r))}")
                    descr.append(f"to_format({m2}, {o2}) of from_aos {es} dims={dims} {modes} {ordering}")
            elif kind == "items":
                its = list(t.items())
                cases.append(f"chk ents (G_items {cz(order)} {cmodes(modes)} {czl(dims)} {czl(ordering)} {czlll(ix)} {czl(vals)}) "
                             f"(Some {cents(its)})")
                descr.append(f"items of from_aos {es} dims={dims} {modes} {ordering}")
            else:
                ez = rng.random() < 0.5
                its = list(t.items())
                if rng.random() < 0.3 and its:
                    its = its + [(its[0][0], 7.0)]  # a repeated key: later overwrites in place

                    class Fake(T.Tensor):
                        def __init__(self, its):
                            self._its = its

                        def items(self):
                            return iter(self._its)
                    d = Fake(its).to_dok(explicit_zeros=ez)
                else:
                    d = t.to_dok(explicit_zeros=ez)
                cases.append(f"chk ents (G_to_dok {cents(its)} {'true' if ez else 'false'}) (Some {cents(d.items())})")
                descr.append(f"to_dok(explicit_zeros={ez}) of items {its}")
    text = HEAD + "Definition results : list bool :=\n " + clist(cases) + ".\n"
    text += "Eval vm_compute in (failing results).\n"
    return {"coq": text, "n": len(cases), "descr": descr}


TARGETS = {"tensorbuild": t_tensorbuild}
