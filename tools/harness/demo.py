import tensora, sys
print(tensora.__file__, sys.argv[1:])
