"""C10 case generation: assignment templates, consistent base arguments, single-fault mutations.

Pure Python, no tensora import: used by tools/props/C10.py (and its replay)."""

from __future__ import annotations

import itertools

import c10_common as cc

# (assignment, formats variants beyond all-dense; each variant maps tensor name -> format)
TEMPLATES = [
    ("a(i) = b(i)", [{"a": "s", "b": "s"}]),
    ("a(i) = b(i) + c(i)", [{"a": "d", "b": "s", "c": "s"}]),
    ("a(i) = b(i) + c(i) + d(i)", [{"a": "d", "b": "s", "c": "d", "d": "s"}]),
    ("a(i) = b(i) * c(i) * d(i)", [{"a": "s", "b": "s", "c": "s", "d": "s"}]),
    ("a(i) = b(i) - c(i) * d(i)", []),
    ("a(i) = b(i,j) * c(j)", [{"a": "d", "b": "ds", "c": "d"}, {"a": "d", "b": "d1s0", "c": "s"}]),
    ("A(i,j) = B(i,j) * B(j,i)", [{"A": "ds", "B": "dd"}, {"A": "ss", "B": "d1d0"}]),
    ("A(i,j) = B(i,j) + B(j,i)", [{"A": "ds", "B": "dd"}]),
    ("A(i,j) = B(i,k) * C(k,j)", [{"A": "dd", "B": "ds", "C": "ds"}, {"A": "ds", "B": "ds", "C": "d1s0"}]),
    ("A(i,j) = B(i,k) * B(k,j)", []),
    ("a() = b(i) * c(i)", [{"a": "", "b": "s", "c": "s"}]),
    ("a() = b()", []),
    ("a() = b() * c()", []),
    ("a(i) = b(i) * c()", []),
    ("a(i) = 2 * b(i)", []),
    ("a(i) = b(i) + 1", []),
    ("a(i) = b(i) * b(i)", [{"a": "s", "b": "s"}]),
    ("a(i) = b(i) + b(i) + b(i)", []),
    ("a(i,j) = b(i) * c(j)", [{"a": "ds", "b": "s", "c": "s"}]),
    ("a(i,j) = b(i) + c(j)", []),
    ("a(i,j) = b(i,j) + c(i)", []),
    ("a(i) = b(i,j)", [{"a": "d", "b": "ds"}]),
    ("a() = b(i,j) * c(i,j)", [{"a": "", "b": "ds", "c": "ss"}]),
    ("a(i,j,k) = b(i,j,k)", [{"a": "dss", "b": "dss"}, {"a": "ddd", "b": "d2d0d1"}]),
    ("a(i,j,k) = b(i,j,k) * c(k)", [{"a": "dds", "b": "dss", "c": "s"}]),
    ("a(i) = b(i,j,k) * c(j) * d(k)", [{"a": "d", "b": "dss", "c": "d", "d": "d"}]),
    ("a(i,k) = b(i,j) * c(j,k) * d(k)", []),
    ("A(i,j) = B(i,j) * C(i,j) * D(i,j)", [{"A": "ds", "B": "ds", "C": "ds", "D": "ds"}]),
    ("A(i,j) = B(i,j) + C(j,i)", [{"A": "ds", "B": "ds", "C": "d1s0"}]),
    ("a(i) = B(i,j) * c(j) + d(i)", [{"a": "d", "B": "ds", "c": "d", "d": "s"}]),
    ("a(i) = b(i) * (c(i) + d(i))", []),
    ("a(i) = (b(i) + c(i)) * (d(i) + e(i))", [{"a": "d", "b": "s", "c": "s", "d": "s", "e": "s"}]),
    ("a(i) = b(i) + c(i) + d(i) + e(i)", []),
    ("A(i,j) = B(i,k) * C(k,l) * D(l,j)", []),
    ("y(i) = A(i,j) * x(j)", [{"y": "d", "A": "ds", "x": "d"}, {"y": "d", "A": "d1s0", "x": "d"}]),
    ("C(i,j) = A(i,k) * B(k,j) + D(i,j)", [{"C": "dd", "A": "ds", "B": "ds", "D": "ds"}]),
    ("a(i) = b(j,i) * c(j)", [{"a": "d", "b": "ds", "c": "s"}]),
    ("a(i) = 1.5 * b(i) - c(i)", []),
    ("a(j,i) = b(i,j)", [{"a": "ds", "b": "d1s0"}]),
    ("a(i) = b(i,j) * c(j,k) * d(k)", []),
    ("a(i,j) = b(i,j) * c(j) * d(i)", [{"a": "ds", "b": "ds", "c": "d", "d": "d"}]),
    ("a(i) = b(i) * c(i) + d(i) * e(i)", []),
    ("a() = b(i) * c(i) * d(i)", []),
    ("a(i,j) = b(i,k,j) * c(k)", []),
    ("a(i) = b(i,j) * b(i,j)", []),
    ("A(i,j) = B(i,j) - B(j,i) * B(i,j)", []),
    ("a() = 3", []),
    ("a(i) = b(i) - b(i)", []),
    ("a(i,j) = b(i,j) * c(i,j) + d(j,i)", []),
    ("a(k) = b(i,j,k) * c(i,j)", [{"a": "d", "b": "sss", "c": "ss"}]),
]

QUICK_TEMPLATES = 42  # the first N templates are swept in the quick tier

# construction refusals (tensor_method / evaluate must refuse before any kernel exists)
REFUSED_TEMPLATES = [
    "a(i,j) = b(i)",           # BroadcastTargetIndexError
    "a(i) = b(j)",             # BroadcastTargetIndexError
    "a(i) = 2",                # BroadcastTargetIndexError
    "a(i,j) = b(i) * c(i)",    # BroadcastTargetIndexError
]


def tensors_in_order(assignment):
    """[(name, order)] target first, then right-hand side tensors by first appearance"""
    target, expr = assignment
    seen = {target[1]: len(target[2])}
    for _, n, idx in cc.occurrences(expr):
        seen.setdefault(n, len(idx))
    return list(seen.items())


def index_sizes(assignment, palette=(2, 3, 4, 5, 6, 7)):
    """a consistent size for every index: indexes that meet in the same (tensor, position)
    through different occurrences are forced equal (e.g. B(i,j) * B(j,i))"""
    target, expr = assignment
    parent = {}

    def find(x):
        parent.setdefault(x, x)
        while parent[x] != x:
            parent[x] = parent[parent[x]]
            x = parent[x]
        return x

    slot = {}
    order = []
    for _, n, idx in [target] + cc.occurrences(expr):
        for j, i in enumerate(idx):
            if i not in order:
                order.append(i)
            find(i)
            if (n, j) in slot:
                parent[find(i)] = find(slot[(n, j)])
            else:
                slot[(n, j)] = i
    sizes = {}
    k = 0
    for i in order:
        r = find(i)
        if r not in sizes:
            sizes[r] = palette[k % len(palette)]
            k += 1
    return {i: sizes[find(i)] for i in order}


def base_keywords(assignment, formats, sizes):
    """consistent arguments: [(name, spec)] for the inputs in first-appearance order"""
    target, expr = assignment
    first = {}
    for _, n, idx in cc.occurrences(expr):
        first.setdefault(n, idx)
    return [
        (n, {"kind": "tensor", "format": formats.get(n, "d" * len(idx)), "dims": [sizes[i] for i in idx]})
        for n, idx in first.items()
    ]


def _tensor(spec, **kw):
    s = dict(spec)
    s.update(kw)
    return s


def _replace(kws, name, spec):
    return [(n, spec if n == name else s) for n, s in kws]


NON_TENSORS = ["float", "none", "list", "int", "str", "object", "dict", "bool"]


def mutations(kws, *, evaluate=False, rich=False):
    """every single-fault variation of a consistent keyword list -> (label, positional, keywords)"""
    out = []
    for name, spec in kws:
        dims = spec["dims"]
        modes, ordering = cc.parse_format(spec["format"])
        n = len(dims)
        # one dimension +-1 (every position), and 0
        for j in range(n):
            for delta in (+1, -1):
                d = list(dims)
                d[j] += delta
                if d[j] >= 0:
                    out.append((f"dim:{name}:{j}:{delta:+d}", [], _replace(kws, name, _tensor(spec, dims=d))))
            if True:  # a dimension of size 0 against a non-zero one (falsy sizes), every position, every argument
                d = list(dims)
                d[j] = 0
                out.append((f"dim0:{name}:{j}", [], _replace(kws, name, _tensor(spec, dims=d))))
        # wrong order
        out.append((f"order+:{name}", [], _replace(kws, name, _tensor(
            spec, dims=list(dims) + [2], format=cc.format_str(modes + "d", tuple(ordering) + (n,))))))
        if n >= 1:
            out.append((f"order-:{name}", [], _replace(kws, name, _tensor(
                spec, dims=list(dims)[:-1], format="d" * (n - 1)))))
        # one mode flipped / ordering permuted (for evaluate these are *consistent*: another kernel)
        if not evaluate or rich:
            for lvl in range(n):
                m = modes[:lvl] + ("s" if modes[lvl] == "d" else "d") + modes[lvl + 1:]
                out.append((f"mode:{name}:{lvl}", [], _replace(kws, name, _tensor(
                    spec, format=cc.format_str(m, ordering)))))
            for i, j in itertools.combinations(range(n), 2):
                o = list(ordering)
                o[i], o[j] = o[j], o[i]
                out.append((f"ordering:{name}:{i}{j}", [], _replace(kws, name, _tensor(
                    spec, format=cc.format_str(modes, tuple(o))))))
                if evaluate:
                    break
        # missing / renamed / not a tensor / positional
        out.append((f"missing:{name}", [], [(k, s) for k, s in kws if k != name]))
        out.append((f"rename:{name}", [], [("zz" if k == name else k, s) for k, s in kws]))
        kinds = NON_TENSORS if rich else NON_TENSORS[:3]
        for kind in kinds:
            out.append((f"nontensor:{name}:{kind}", [], _replace(kws, name, {"kind": kind, "dims": list(dims) or [2]})))
        if not evaluate:
            out.append((f"positional_one:{name}", [spec], [(k, s) for k, s in kws if k != name]))
            out.append((f"dup_keyword:{name}", [], list(kws) + [(name, spec)]))
    # extra argument
    extra = kws[0][1] if kws else {"kind": "tensor", "format": "d", "dims": [2]}
    out.append(("extra:zz", [], list(kws) + [("zz", extra)]))
    out.append(("extra:zz:scalar", [], list(kws) + [("zz", {"kind": "tensor", "format": "", "dims": []})]))
    if not evaluate:
        out.append(("positional_all", [s for _, s in kws], []))
        out.append(("extra_positional", [extra], list(kws)))
    # two arguments exchanged
    for (n1, s1), (n2, s2) in itertools.combinations(kws, 2):
        out.append((f"swap:{n1}:{n2}", [], [(k, s2 if k == n1 else s1 if k == n2 else s) for k, s in kws]))
    return out


def consistent_rescale(assignment, formats, sizes):
    """a second consistent argument set (every size + 1): must still be accepted"""
    return base_keywords(assignment, formats, {i: s + 1 for i, s in sizes.items()})
