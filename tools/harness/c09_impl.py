"""C09 implementation side: run tensora's constructors / read-back on a batch of cases.

stdin : JSON {"cases": [case, ...]}
stdout: one JSON result per line, same order, flushed after every case (so that the parent knows
        which case killed the interpreter when a cffi read segfaults)

case = {"modes": [0|1,...], "ord": [...], "dims": [...], "ep": "aos"|"dok"|"soa"|"lol",
        "coords": [[...],...], "vals": [...]   (aos; dok uses them as insertion-ordered items),
        "cols": [[...],...]                    (soa),
        "lol": nested list / number            (lol),
        "fmtstr": bool   (pass the format as a string instead of a Format object),
        "read": bool     (also read back: items, to_dok, pickle),
        "tofmt": [[modes, ord], ...]  (targets for to_format),
        "alt": {"modes","ord","coords","vals"}  (second tensor for ==)}

Everything is canonicalised: exceptions -> class name, values -> int when integral else float.hex().
"""
import json
import pickle
import sys


def num(v):
    v = float(v)
    if v != v or v in (float("inf"), float("-inf")):
        return repr(v)
    return int(v) if (v.is_integer() and abs(v) < 2.0**53) else v.hex()


def main():
    from tensora import Tensor
    from tensora.format import Format, Mode

    def mk_format(modes, ordering, as_string):
        f = Format(tuple(Mode.dense if m == 0 else Mode.compressed for m in modes), tuple(ordering))
        return f.deparse() if as_string else f

    def raw(t):
        f = t.format
        return {
            "dims": list(t.dimensions),
            "order": t.order,
            "modes": [m.c_int for m in f.modes],
            "ord": list(f.ordering),
            "indices": [[list(a) for a in lvl] for lvl in t.taco_indices],
            "vals": [num(v) for v in t.taco_vals],
        }

    def attempt(fn):
        try:
            return fn(), None
        except Exception as e:  # noqa: BLE001 - every rejection is a result
            return None, {"err": type(e).__name__, "msg": str(e)[:120]}

    def construct(c):
        fmt = mk_format(c["modes"], c["ord"], c.get("fmtstr", False))
        dims = tuple(c["dims"])
        ep = c["ep"]
        if ep == "aos":
            return Tensor.from_aos(
                [tuple(x) for x in c["coords"]], [float(v) for v in c["vals"]], dimensions=dims, format=fmt
            )
        if ep == "dok":
            d = {}
            for k, v in zip(c["coords"], c["vals"], strict=True):
                d[tuple(k)] = float(v)
            return Tensor.from_dok(d, dimensions=dims, format=fmt)
        if ep == "soa":
            return Tensor.from_soa(
                tuple(list(col) for col in c["cols"]), [float(v) for v in c["vals"]], dimensions=dims, format=fmt
            )
        if ep == "lol":
            def fl(x):
                return [fl(y) for y in x] if isinstance(x, list) else float(x)
            return Tensor.from_lol(fl(c["lol"]), dimensions=dims, format=fmt)
        raise RuntimeError("bad ep")

    def dok_list(d):
        return [[list(k), num(v)] for k, v in d.items()]

    job = json.load(sys.stdin)
    class Out:
        @staticmethod
        def append(r):
            sys.stdout.write(json.dumps(r) + "\n")
            sys.stdout.flush()
    out = Out()
    for c in job["cases"]:
        r = {}
        t, e = attempt(lambda c=c: construct(c))
        if e is not None:
            r["res"] = e
            out.append(r)
            continue
        r["res"] = raw(t)
        if c.get("read"):
            r["items"] = [[list(k), num(v)] for k, v in t.items()]
            r["dok"] = dok_list(t.to_dok())
            r["dokz"] = dok_list(t.to_dok(explicit_zeros=True))
            r["eq_self"] = bool(t == t)
            t2, e2 = attempt(lambda t=t: pickle.loads(pickle.dumps(t)))
            if e2 is not None:
                r["pickle"] = e2
            else:
                r["pickle"] = raw(t2)
                r["pickle_dok"] = dok_list(t2.to_dok())
                r["pickle_eq"] = bool(t == t2)
            tf = []
            for modes, ordering in c.get("tofmt", []):
                t3, e3 = attempt(
                    lambda t=t, modes=modes, ordering=ordering: t.to_format(mk_format(modes, ordering, c.get("fmtstr", False)))
                )
                if e3 is not None:
                    tf.append({"res": e3})
                else:
                    tf.append({"res": raw(t3), "dok": dok_list(t3.to_dok()), "eq": bool(t == t3)})
            r["tofmt"] = tf
            if "alt" in c:
                a = dict(c["alt"])
                a.setdefault("dims", c["dims"])
                a["ep"] = "aos"
                ta, ea = attempt(lambda a=a: construct(a))
                r["alt"] = ea if ea is not None else {"eq": bool(t == ta), "ne": bool(t != ta)}
        out.append(r)


if __name__ == "__main__":
    main()
