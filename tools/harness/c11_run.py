"""C11 harness: run Tensor operators of the implementation under test on given operands.

stdin : JSON  {"cases": [ {"id": int, "op": "+|-|*|@", "left": OPERAND, "right": OPERAND}, ... ]}
        OPERAND = {"kind": "tensor", "dims": [...], "format": "d1s0", "entries": [[[i,j], v], ...]}
                | {"kind": "scalar", "pytype": "int|float|bool|fraction", "value": v}   (fraction: [num, den])
                | {"kind": "other", "what": "str|list|none|complex|tuple|dict"}
stdout: JSON  {"results": [ {...}, ... ]}  one per case, same order.

For each case the harness
  * builds the operands (Tensor.from_dok for tensors; explicit zeros are kept by from_dok),
  * reads the operands back from their RAW arrays (taco_indices / taco_vals / dimensions / format),
  * evaluates  left <op> right  with Python's operator syntax while tensora.compile.evaluate_tensora
    is wrapped, recording what the operator layer asked for (assignment string, output format
    string, keyword names and what each is bound to),
  * reports the result's RAW arrays or the exception (class, message head, innermost tensora frame).

Nothing here interprets the result: decoding and the oracle live in tools/props/C11.py.
"""

from __future__ import annotations

import json
import sys
import traceback
from fractions import Fraction

import tensora
import tensora.compile as tcompile
from tensora import Tensor
from tensora.expression import parse_assignment
from tensora.expression import ast as east
from tensora.format import parse_format

_ORIGINAL = tcompile.evaluate_tensora
_RECORD: list = []
_CURRENT: dict = {}


def raw(t: Tensor) -> dict:
    return {
        "dims": list(t.dimensions),
        "modes": [m.character for m in t.format.modes],
        "ordering": list(t.format.ordering),
        "indices": t.taco_indices,
        "vals": [float(v).hex() for v in t.taco_vals],
    }


def ast_json(e):
    if isinstance(e, east.Integer):
        return ["int", e.value]
    if isinstance(e, east.Float):
        return ["float", float(e.value).hex()]
    if isinstance(e, east.Tensor):
        return ["tensor", e.name, list(e.indexes)]
    if isinstance(e, east.Add):
        return ["add", ast_json(e.left), ast_json(e.right)]
    if isinstance(e, east.Subtract):
        return ["sub", ast_json(e.left), ast_json(e.right)]
    if isinstance(e, east.Multiply):
        return ["mul", ast_json(e.left), ast_json(e.right)]
    return ["unknown", type(e).__name__]


def describe_binding(value) -> dict:
    """What a keyword argument of evaluate_tensora is: one of the operands, or a fresh tensor."""
    if value is _CURRENT.get("left"):
        return {"is": "left"}
    if value is _CURRENT.get("right"):
        return {"is": "right"}
    if isinstance(value, Tensor):
        return {"is": "fresh", "raw": raw(value)}
    return {"is": "nontensor", "type": type(value).__name__}


def wrapper(assignment, output_format, **inputs):
    rec = {
        "assignment": assignment,
        "output_format": output_format,
        "bindings": [[name, describe_binding(value)] for name, value in inputs.items()],
    }
    try:
        parsed = parse_assignment(assignment).unwrap()
        rec["ast"] = {
            "target": [parsed.target.name, list(parsed.target.indexes)],
            "rhs": ast_json(parsed.expression),
        }
    except Exception as e:  # noqa: BLE001
        rec["ast_error"] = type(e).__name__
    try:
        f = parse_format(output_format).unwrap()
        rec["format"] = {"modes": [m.character for m in f.modes], "ordering": list(f.ordering)}
    except Exception as e:  # noqa: BLE001
        rec["format_error"] = type(e).__name__
    _RECORD.append(rec)
    return _ORIGINAL(assignment, output_format, **inputs)


tcompile.evaluate_tensora = wrapper


def build(o):
    if o["kind"] == "tensor":
        dok = {tuple(c): float(v) for c, v in o["entries"]}
        return Tensor.from_dok(dok, dimensions=tuple(o["dims"]), format=o["format"])
    if o["kind"] == "scalar":
        t = o["pytype"]
        if t == "int":
            return int(o["value"])
        if t == "float":
            return float(o["value"])
        if t == "bool":
            return bool(o["value"])
        if t == "fraction":
            return Fraction(o["value"][0], o["value"][1])
        raise ValueError(t)
    w = o["what"]
    return {"str": "x", "list": [1.0, 2.0], "none": None, "complex": 1 + 2j, "tuple": (1, 2),
            "dict": {}}[w]


def apply(op, a, b):
    if op == "+":
        return a + b
    if op == "-":
        return a - b
    if op == "*":
        return a * b
    if op == "@":
        return a @ b
    raise ValueError(op)


def raise_site(exc) -> list:
    """Innermost frame inside the tensora package: [relative file, function, source line]."""
    tb = traceback.extract_tb(exc.__traceback__)
    site = None
    for fr in tb:
        fn = fr.filename.replace("\\", "/")
        if "/tensora/" in fn:
            site = [fn.split("/tensora/", 1)[1], fr.name, (fr.line or "").strip()]
    return site or ["<outside tensora>", tb[-1].name if tb else "", ""]


def run_case(case):
    out = {"id": case["id"]}
    left = build(case["left"])
    right = build(case["right"])
    _CURRENT["left"], _CURRENT["right"] = left, right
    if isinstance(left, Tensor):
        out["left_raw"] = raw(left)
    if isinstance(right, Tensor):
        out["right_raw"] = raw(right)
    del _RECORD[:]
    try:
        result = apply(case["op"], left, right)
        if isinstance(result, Tensor):
            out["outcome"] = {"kind": "tensor", "raw": raw(result)}
        else:
            out["outcome"] = {"kind": "nontensor", "type": type(result).__name__,
                              "repr": repr(result)[:200]}
    except BaseException as e:  # noqa: BLE001
        if isinstance(e, (KeyboardInterrupt, SystemExit)):
            raise
        out["outcome"] = {
            "kind": "error",
            "class": type(e).__name__,
            "module": type(e).__module__,
            "message": str(e)[:160],
            "site": raise_site(e),
        }
    out["calls"] = list(_RECORD)
    # operands must not be modified by an operator: re-read them
    if isinstance(left, Tensor):
        out["left_raw_after"] = raw(left)
    if isinstance(right, Tensor):
        out["right_raw_after"] = raw(right)
    return out


def main():
    data = json.load(sys.stdin)
    results = []
    for case in data["cases"]:
        try:
            results.append(run_case(case))
        except BaseException as e:  # noqa: BLE001  harness-level failure (operand construction ...)
            if isinstance(e, (KeyboardInterrupt, SystemExit)):
                raise
            results.append({"id": case["id"], "harness_error": type(e).__name__ + ": " + str(e)[:200],
                            "trace": traceback.format_exc()[-600:]})
    json.dump({"results": results, "tensora_file": tensora.__file__}, sys.stdout)


if __name__ == "__main__":
    main()
