"""C06 expression stream: well-typed IR expression/statement trees that no kernel emits (precedence,
mixed int/float, short-circuit, compound-assignment sugar), wrapped in one-function modules and run
three ways: C printer + gcc (via cffi), LLVM back end + MCJIT, IR abstract machine (Coq).

stdin JSON: seed, n, outdir, prefix, per_module.  Writes <prefix>_<k>.v machine shards whose expected
values are the LLVM results, and <prefix>_index.json with the C-vs-LLVM comparison."""
from __future__ import annotations

import json
import os
import random
import sys

from harness import irdump as D
from harness import irmachine as M

NOUT = 6


def c_function_text(csrc: str, name: str) -> str:
    i = csrc.find(f" {name}(")
    if i < 0:
        return ""
    i = csrc.rfind("\n", 0, i) + 1
    j = csrc.find("\n}\n", i)
    return csrc[i: j + 3 if j >= 0 else i + 3000][:4000]


def run_forked(order, envs, call, deadline):
    """Run call(j, env, which) for every kernel/env/back end in a forked child; returns
    ({(j, e, which): result}, None) or (..., (j, e, which, "timeout"|"crash")) for the call that never returned."""
    import select
    import time

    r, w = os.pipe()
    pid = os.fork()
    if pid == 0:
        os.close(r)
        try:
            with os.fdopen(w, "w") as f:
                for (j, e, which) in order:
                    f.write(json.dumps({"begin": [j, e, which]}) + "\n")
                    f.flush()
                    f.write(json.dumps({"res": [j, e, which], "val": call(j, envs[e], which)}) + "\n")
                    f.flush()
        finally:
            os._exit(0)
    os.close(w)
    buf = b""
    t_end = time.time() + deadline
    timed_out = False
    while True:
        left = t_end - time.time()
        if left <= 0:
            timed_out = True
            break
        ready, _, _ = select.select([r], [], [], min(left, 5.0))
        if ready:
            chunk = os.read(r, 1 << 16)
            if not chunk:
                break
            buf += chunk
    if timed_out:
        os.kill(pid, 9)
    os.close(r)
    _, status = os.waitpid(pid, 0)
    results, begun = {}, None
    for line in buf.decode().splitlines():
        try:
            o = json.loads(line)
        except Exception:
            continue
        if "begin" in o:
            begun = tuple(o["begin"])
        else:
            results[tuple(o["res"])] = o["val"]
            begun = None
    if timed_out or begun is not None:
        if begun is None:
            return results, None
        return results, (begun[0], begun[1], begun[2], "timeout" if timed_out else "crash")
    return results, None


def main():
    import cffi
    import llvmlite.binding as llvm

    from tensora.codegen import ir_to_c, ir_to_llvm
    from tensora.compile._compile_cffi import taco_define_header
    from tensora.compile._cffi_ownership import taco_type_header
    from tensora.ir import ast as ir
    from tensora.ir import types as T

    cfg = json.load(sys.stdin)
    rng = random.Random(cfg["seed"])
    V = ir.Variable
    INTS = [0, 1, 2, -1, 3, 7]
    FLOATS = [0.5, 1.0, 2.5, 0.1, 0.2, 0.3, -1.5, 1e16, 3.0]

    def int_e(d):
        if d <= 0 or rng.random() < 0.3:
            return rng.choice([ir.IntegerLiteral(rng.choice(INTS)), V("xi"), V("yi"),
                               ir.ArrayIndex(V("p"), ir.IntegerLiteral(rng.choice([0, 1, 2, 3])))])
        k = rng.choice(["add", "sub", "mul", "min", "max", "b2i"])
        if k in ("add", "sub", "mul"):
            op = {"add": ir.Add, "sub": ir.Subtract, "mul": ir.Multiply}[k]
            return op(int_e(d - 1), int_e(d - 1))
        if k == "min":
            return ir.Min(int_e(d - 1), int_e(d - 1))
        if k == "max":
            return ir.Max(int_e(d - 1), int_e(d - 1))
        return ir.BooleanToInteger(bool_e(d - 1))

    def float_e(d):
        if d <= 0 or rng.random() < 0.3:
            return rng.choice([ir.FloatLiteral(rng.choice(FLOATS)), V("xf"), V("yf"),
                               ir.ArrayIndex(V("q"), ir.IntegerLiteral(rng.choice([0, 1, 2, 3])))])
        op = rng.choice([ir.Add, ir.Subtract, ir.Multiply])
        shape = rng.choice(["ff", "ff", "if", "fi"])
        if shape == "ff":
            return op(float_e(d - 1), float_e(d - 1))
        if shape == "if":
            return op(int_e(d - 1), float_e(d - 1))
        return op(float_e(d - 1), int_e(d - 1))

    def bool_e(d):
        if d <= 0 or rng.random() < 0.2:
            return rng.choice([ir.BooleanLiteral(True), ir.BooleanLiteral(False),
                               ir.LessThan(V("xi"), V("yi"))])
        k = rng.choice(["cmp", "cmp", "and", "or"])
        if k == "cmp":
            op = rng.choice([ir.Equal, ir.NotEqual, ir.LessThan, ir.GreaterThan, ir.LessThanOrEqual, ir.GreaterThanOrEqual])
            return op(int_e(d - 1), int_e(d - 1))
        return (ir.And if k == "and" else ir.Or)(bool_e(d - 1), bool_e(d - 1))

    from harness.crot import rot

    out, iout = V("out"), V("iout")

    def body():
        depth = rng.choice([2, 3, 3, 4])
        stmts = []
        stmts.append(ir.Assignment(ir.ArrayIndex(out, ir.IntegerLiteral(0)), float_e(depth)))
        stmts.append(ir.Assignment(ir.ArrayIndex(iout, ir.IntegerLiteral(0)), int_e(depth)))
        stmts.append(ir.Assignment(ir.ArrayIndex(iout, ir.IntegerLiteral(1)), ir.BooleanToInteger(bool_e(depth))))
        # compound-assignment sugar: x = x + e, x = x - e, x = x * e, ++, --
        t = ir.ArrayIndex(out, ir.IntegerLiteral(1))
        stmts.append(ir.Assignment(t, float_e(1)))
        k = rng.choice(["+", "-", "*"])
        e = rng.choice([float_e(2), int_e(2), ir.Subtract(float_e(1), float_e(1)), ir.Add(int_e(1), float_e(1))])
        stmts.append(ir.Assignment(t, {"+": ir.Add, "-": ir.Subtract, "*": ir.Multiply}[k](t, e)))
        ti = ir.ArrayIndex(iout, ir.IntegerLiteral(2))
        stmts.append(ir.Assignment(ti, int_e(1)))
        stmts.append(ir.Assignment(ti, rng.choice([ir.Add(ti, ir.IntegerLiteral(1)), ir.Subtract(ti, ir.IntegerLiteral(1)),
                                                   ir.Subtract(ti, ir.Add(V("xi"), V("yi"))), ir.Multiply(ti, ir.Add(V("xi"), ir.IntegerLiteral(2)))])))
        # declaration with promotion, branch, loop with a compound condition
        stmts.append(ir.DeclarationAssignment(ir.Declaration(V("z"), T.float), rng.choice([int_e(2), float_e(2)])))
        stmts.append(ir.Assignment(ir.ArrayIndex(out, ir.IntegerLiteral(2)), ir.Multiply(V("z"), float_e(1))))
        stmts.append(ir.Branch(bool_e(2), ir.Block([ir.Assignment(ir.ArrayIndex(out, ir.IntegerLiteral(3)), float_e(2))]),
                               ir.Block([ir.Assignment(ir.ArrayIndex(out, ir.IntegerLiteral(3)), ir.IntegerLiteral(rng.choice(INTS)))])))
        stmts.append(ir.DeclarationAssignment(ir.Declaration(V("c"), T.integer), ir.IntegerLiteral(0)))
        stmts.append(ir.Loop(ir.And(ir.LessThan(V("c"), ir.IntegerLiteral(3)), rng.choice([bool_e(1), ir.BooleanLiteral(True)])),
                             ir.Block([ir.Assignment(ir.ArrayIndex(out, ir.IntegerLiteral(4)),
                                                     ir.Add(ir.ArrayIndex(out, ir.IntegerLiteral(4)), float_e(1))),
                                       ir.Assignment(V("c"), ir.Add(V("c"), ir.IntegerLiteral(1)))])))
        stmts.append(ir.Assignment(ir.ArrayIndex(iout, ir.IntegerLiteral(3)), V("c")))
        stmts.append(ir.Return(ir.IntegerLiteral(0)))
        return ir.Block(stmts)

    params = [("xi", T.integer), ("yi", T.integer), ("xf", T.float), ("yf", T.float),
              ("p", T.Pointer(T.integer)), ("q", T.Pointer(T.float)), ("out", T.Pointer(T.float)), ("iout", T.Pointer(T.integer))]

    envs = [(1, 2, 0.5, 1.0), (3, -1, 0.1, 0.2), (0, 0, 0.3, -1.5), (7, 5, 1e16, 3.0)]
    P = [3, 0, -1, 7]
    Q = [0.5, 0.1, 2.0, -1.0]
    n = cfg["n"]
    per = cfg.get("per_module", 40)
    sig = "int32_t (*)(int32_t, int32_t, double, double, int32_t*, double*, double*, int32_t*)"
    index = {"shards": [], "c_vs_llvm_differences": [], "compile_errors": []}
    target = llvm.Target.from_default_triple()
    for mno in range(0, n, per):
        fns = []
        for k in range(mno, min(n, mno + per)):
            fns.append(ir.FunctionDefinition(V(f"kern{k}"), [ir.Declaration(V(a), t) for a, t in params], T.integer, body()))
        module = ir.Module(fns)
        # --- LLVM
        import tensora.compile._compile_llvm as CL
        engine = CL.compile_module(module)
        ffi = cffi.FFI()
        # --- C
        csrc = ir_to_c(module)
        cdef = "\n".join(f"int32_t kern{k}(int32_t xi, int32_t yi, double xf, double yf, int32_t* p, double* q, double* out, int32_t* iout);"
                         for k in range(mno, min(n, mno + per)))
        ffi.cdef(cdef)
        ffi.set_source(f"c06mod_{os.getpid()}_{mno}", "#include <stdint.h>\n#include <stdlib.h>\n" + taco_define_header + taco_type_header + csrc,
                       extra_compile_args=["-Wno-unused-variable", "-std=c99"])
        tmp = os.path.join(cfg["outdir"], f"cbuild_{mno}")
        os.makedirs(tmp, exist_ok=True)
        try:
            lib = ffi.dlopen(ffi.compile(tmpdir=tmp))
        except Exception as e:
            index["compile_errors"].append({"module": mno, "error": str(e)[-800:], "c_source_head": csrc[:1500]})
            continue
        cases, metas, defs = [], [], []
        rcases, rmetas, rdefs = [], [], []
        # native code runs in a forked child under a deadline: a kernel that loops forever or crashes (only
        # possible when a back end mis-prints a loop condition / an access) is reported, not waited for
        fptrs = [ffi.cast(sig, engine.get_function_address(f"kern{mno + j}")) for j in range(len(fns))]

        def call(j, env, which):
            xi, yi, xf, yf = env
            p = ffi.new("int32_t[]", P)
            q = ffi.new("double[]", Q)
            o = ffi.new("double[]", [0.0] * NOUT)
            io = ffi.new("int32_t[]", [0] * NOUT)
            f = fptrs[j] if which == "llvm" else getattr(lib, f"kern{mno + j}")
            rc = f(xi, yi, xf, yf, p, q, o, io)
            return [rc, [float(x).hex() for x in o], list(io)]

        order = [(j, e, which) for j in range(len(fns)) for e in range(len(envs)) for which in ("llvm", "c")]
        native, start, nstuck = {}, 0, 0
        while start < len(order) and nstuck < 3:
            got, stuck = run_forked(order[start:], envs, call, deadline=40)
            native.update(got)
            if stuck is None:
                break
            nstuck += 1
            j, e, which, how = stuck
            index.setdefault("hangs", []).append({"kernel": mno + j, "env": list(envs[e]), "backend": which, "how": how,
                                                  "ir": repr(fns[j].body), "kind": "expr", "assignment": f"expr-stream kernel {mno + j}",
                                                  "c_function": c_function_text(csrc, f"kern{mno + j}") if which == "c" else None})
            start = order.index((j, e, which)) + 1
        for j, fn in enumerate(fns):
            k = mno + j
            defs.append(f"Definition g{k} := {D.coq_function(fn)}.")
            for e, (xi, yi, xf, yf) in enumerate(envs):
                res = []
                for which in ("llvm", "c"):
                    r = native.get((j, e, which))
                    if r is not None:
                        res.append((r[0], r[1], r[2], [float.fromhex(x) for x in r[1]]))
                if len(res) < 2:
                    continue  # not run: the child was stopped before this call
                meta = {"kernel": k, "env": [xi, yi, xf, yf], "ir": repr(fn.body), "c": None, "kind": "expr",
                        "assignment": f"expr-stream kernel {k}", "formats": {}, "inputs": {"env": [xi, yi, xf, yf]}}
                if res[0][:3] != res[1][:3]:
                    index["c_vs_llvm_differences"].append(dict(meta, llvm=res[0][:3], c=res[1][:3]))
                    # does the C result equal the machine's result on the tree C parses?
                    if rot(fn) == fn:
                        index.setdefault("unexplained", []).append(dict(meta, llvm=res[0][:3], c=res[1][:3]))
                        continue
                    if not any(dd.startswith(f"Definition r{k} ") for dd in rdefs):
                        rdefs.append(f"Definition r{k} := {D.coq_function(rot(fn))}.")
                    rcases.append(f"run_expr_check 100000 r{k} ({xi}) ({yi}) {M.fl([xf])[1:-1]} {M.fl([yf])[1:-1]} {M.zl(P)} {M.fl(Q)} {M.fl(res[1][3])} {M.zl(res[1][2])}")
                    rmetas.append(dict(meta, llvm=res[0][:3], c=res[1][:3], kind="rotated"))
                cases.append(f"run_expr_check 100000 g{k} ({xi}) ({yi}) {M.fl([xf])[1:-1]} {M.fl([yf])[1:-1]} {M.zl(P)} {M.fl(Q)} {M.fl(res[0][3])} {M.zl(res[0][2])}")
                metas.append(meta)
        name = f"{cfg['prefix']}_{mno // per}"
        text = M.HEADER + "\n".join(defs) + "\nDefinition cases : list verdict := [\n  " + ";\n  ".join(cases) + "\n].\n"
        text += "Eval vm_compute in (failing_from 0 (fun v => v) cases).\n"
        open(os.path.join(cfg["outdir"], name + ".v"), "w").write(text)
        index["shards"].append({"name": name, "cases": metas})
        if rcases:
            rname = f"{cfg['prefix']}rot_{mno // per}"
            text = M.HEADER + "\n".join(rdefs) + "\nDefinition cases : list verdict := [\n  " + ";\n  ".join(rcases) + "\n].\n"
            text += "Eval vm_compute in (failing_from 0 (fun v => v) cases).\n"
            open(os.path.join(cfg["outdir"], rname + ".v"), "w").write(text)
            index.setdefault("rot_shards", []).append({"name": rname, "cases": rmetas})
    json.dump(index, open(os.path.join(cfg["outdir"], cfg["prefix"] + "_index.json"), "w"))
    print(json.dumps({"shards": len(index["shards"]), "cases": sum(len(s["cases"]) for s in index["shards"]),
                      "c_vs_llvm_differences": len(index["c_vs_llvm_differences"]), "compile_errors": len(index["compile_errors"]),
                      "skipped": {}, "impl_errors": 0, "generator_errors": 0}))


if __name__ == "__main__":
    main()
