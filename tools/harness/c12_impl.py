"""C12 harness: runs the real tensora parsers / printers on a batch of jobs (one subprocess).

stdin : JSON  {"jobs": [ {"op": ..., ...}, ... ], "seed": int}
stdout: JSON  {"results": [ ... ]}   (same order)

ops
  parse   {"s": str}                 parse_assignment(s); on Success also deparse, re-parse, meaning
  ast     {"t": [target, tree]}      build Assignment(...) directly; deparse, re-parse, meaning
  format  {"s": str}                 parse_format(s); on Success deparse and re-parse
  named   {"s": str}                 parse_named_format(s)
  fobj    {"modes": "ds", "ord": []} Format(...) constructed directly; deparse, re-parse

Nothing here changes the recursion limit or catches anything inside the implementation: every call
is wrapped only at the outermost level so that "the implementation raised" is observed as such.
Trees are walked iteratively on this side, so that the harness itself never overflows the stack.
"""
import json
import math
import random
import re
import sys
import traceback
from decimal import Decimal
from fractions import Fraction

from returns.result import Failure, Success

from tensora.expression import parse_assignment
from tensora.expression import ast as A
from tensora.format import Format, Mode, parse_format, parse_named_format

BIG = 400  # trees with more nodes than this: no meaning evaluation


def exc_info(e: BaseException) -> dict:
    tb = traceback.extract_tb(e.__traceback__)
    frames = [(f.filename.split("/src/")[-1] if "/src/" in f.filename else f.filename.split("site-packages/")[-1], f.name, (f.line or "")[:80]) for f in tb]
    last = frames[-1] if frames else ("?", "?", "")
    # first frame (from the raise point upwards) that lies inside tensora
    tens = [f for f in frames if f[0].startswith("tensora/")]
    return {
        "k": "raise",
        "cls": type(e).__name__,
        "mod": type(e).__module__,
        "msg": str(e)[:120],
        "site": f"{last[0]}:{last[1]}",
        "tensora_site": (f"{tens[-1][0]}:{tens[-1][1]}" if tens else None),
        "line": last[2],
        "depth": len(frames),
    }


def dec_of_float(v: float):
    if math.isinf(v) or math.isnan(v):
        return ["f", repr(v), None, None]
    d = Decimal(repr(v))
    sign, digits, exp = d.as_tuple()
    m = int("".join(map(str, digits)))
    if m == 0:
        return ["f", v.hex(), "0", "0"]
    while m % 10 == 0:
        m //= 10
        exp += 1
    return ["f", v.hex(), ("-" if sign else "") + str(m), str(exp)]


def tree_to_json(e):
    """Iterative post-order conversion of an expression into nested lists."""
    out = []
    stack = [(e, False)]
    while stack:
        node, done = stack.pop()
        if isinstance(node, (A.Add, A.Subtract, A.Multiply)):
            if done:
                r = out.pop()
                l = out.pop()
                op = "+" if isinstance(node, A.Add) else "-" if isinstance(node, A.Subtract) else "*"
                out.append([op, l, r])
            else:
                stack.append((node, True))
                stack.append((node.right, False))
                stack.append((node.left, False))
        elif isinstance(node, A.Tensor):
            out.append(["t", node.name, list(node.indexes)])
        elif isinstance(node, A.Integer):
            v = node.value
            out.append(["i", str(v) if abs(v) < 10 ** 4000 else "HUGE"])
        elif isinstance(node, A.Float):
            out.append(dec_of_float(node.value))
        else:
            out.append(["?", type(node).__name__])
    return out[0]


def tree_size(e) -> int:
    n = 0
    stack = [e]
    while stack:
        node = stack.pop()
        n += 1
        if isinstance(node, (A.Add, A.Subtract, A.Multiply)):
            stack.append(node.left)
            stack.append(node.right)
    return n


def trees_equal(a, b) -> bool:
    """Structural equality without recursion (dataclass == is recursive)."""
    stack = [(a, b)]
    while stack:
        x, y = stack.pop()
        if type(x) is not type(y):
            return False
        if isinstance(x, (A.Add, A.Subtract, A.Multiply)):
            stack.append((x.left, y.left))
            stack.append((x.right, y.right))
        elif isinstance(x, A.Tensor):
            if x.name != y.name or tuple(x.indexes) != tuple(y.indexes):
                return False
        elif isinstance(x, (A.Integer, A.Float)):
            if x.value != y.value or type(x.value) is not type(y.value):
                return False
        else:
            return False
    return True


def assignments_equal(a, b) -> bool:
    return trees_equal(a.target, b.target) and trees_equal(a.expression, b.expression)


def json_to_tree(j):
    k = j[0]
    if k == "i":
        return A.Integer(int(j[1]))
    if k == "f":
        return A.Float(float(j[1]))  # j[1] is a spelling here
    if k == "t":
        return A.Tensor(j[1], tuple(j[2]))
    l = json_to_tree(j[1])
    r = json_to_tree(j[2])
    return {"+": A.Add, "-": A.Subtract, "*": A.Multiply}[k](l, r)


# ---------------------------------------------------------------------------------------------
# meaning: the text under Python's own arithmetic vs the tree, on random integer bindings

TOK = re.compile(
    r"\s*(?:(?P<name>[A-Za-z][A-Za-z0-9]*)\s*\(\s*(?P<args>[A-Za-z0-9, ]*)\)"
    r"|(?P<float>\d+(?:(?:\.\d+(?:[Ee][+-]?\d+)?)|(?:(?:\.\d+)?[Ee][+-]?\d+)))"
    r"|(?P<int>[0-9]+)|(?P<p>[()+\-*]))"
)


def text_to_python(rhs: str, bind) -> str | None:
    pos = 0
    out = []
    rhs = rhs.rstrip(" ")
    while pos < len(rhs):
        m = TOK.match(rhs, pos)
        if not m:
            return None
        if m.group("name") is not None:
            args = tuple(a.strip() for a in m.group("args").split(",")) if m.group("args").strip() else ()
            out.append(f"Fraction({bind((m.group('name'), args))})")
        elif m.group("float") is not None:
            v = float(m.group("float"))
            if math.isinf(v):
                return None
            out.append(f"Fraction({v!r})")
        elif m.group("int") is not None:
            out.append(f"Fraction({int(m.group('int'))})")
        else:
            out.append(m.group("p"))
        pos = m.end()
    return " ".join(out)


def eval_tree(e, bind) -> Fraction:
    if isinstance(e, A.Integer):
        return Fraction(e.value)
    if isinstance(e, A.Float):
        return Fraction(e.value)
    if isinstance(e, A.Tensor):
        return Fraction(bind((e.name, tuple(e.indexes))))
    l = eval_tree(e.left, bind)
    r = eval_tree(e.right, bind)
    if isinstance(e, A.Add):
        return l + r
    if isinstance(e, A.Subtract):
        return l - r
    return l * r


def meaning_check(text: str, tree, rng) -> dict:
    """text = full assignment text; compares eval(text rhs) with eval(tree rhs)."""
    if "=" not in text:
        return {"m": "skip"}
    rhs = text.split("=", 1)[1]
    if tree_size(tree.expression) > BIG:
        return {"m": "skip-big"}
    for trial in range(3):
        table = {}

        def bind(key):
            if key not in table:
                table[key] = rng.choice([-7, -3, -2, 2, 3, 5, 7, 11, 13])
            return table[key]

        src = text_to_python(rhs, bind)
        if src is None:
            return {"m": "skip-nonfinite-or-untokenisable"}
        try:
            tv = eval(src, {"Fraction": Fraction})  # the conventional meaning of the text
        except Exception as e:  # the text is not a conventional arithmetic expression
            return {"m": "fail", "why": f"text not evaluable as arithmetic: {type(e).__name__}", "src": src[:200]}
        ev = eval_tree(tree.expression, bind)
        if tv != ev:
            return {"m": "fail", "why": "value differs", "text_value": str(tv), "tree_value": str(ev),
                    "bindings": {f"{k[0]}({','.join(k[1])})": v for k, v in table.items()}}
    return {"m": "ok"}


# ---------------------------------------------------------------------------------------------

ERR = {
    "ParseError": "ParseError",
    "MutatingAssignmentError": "Mutating",
    "InconsistentDimensionsError": "Inconsistent",
    "NameConflictError": "NameConflict",
    "InvalidModeOrderingError": "Invalid",
}


def roundtrip_assignment(a, rng, text_for_meaning=None) -> dict:
    """deparse, re-parse, compare; meaning of the printed text."""
    r = {}
    try:
        text = a.deparse()
    except BaseException as e:
        r["deparse"] = exc_info(e)
        return r
    r["text"] = text if len(text) < 4000 else text[:200] + "...(%d chars)" % len(text)
    try:
        back = parse_assignment(text)
    except BaseException as e:
        r["reparse"] = exc_info(e)
        return r
    if isinstance(back, Success):
        b = back.unwrap()
        r["rt"] = bool(assignments_equal(a, b))
        if not r["rt"]:
            r["back"] = tree_to_json(b.expression) if tree_size(b.expression) < BIG else "big"
    else:
        r["rt"] = False
        r["back_err"] = ERR.get(type(back.failure()).__name__, type(back.failure()).__name__)
    # the printed text must mean what the tree means; and so must the original text
    try:
        r["meaning_printed"] = meaning_check(text, a, rng)
        if text_for_meaning is not None:
            r["meaning_source"] = meaning_check(text_for_meaning, a, rng)
    except RecursionError:
        r["meaning_printed"] = {"m": "skip-harness-recursion"}
    return r


def job_parse(s, rng):
    try:
        res = parse_assignment(s)
    except BaseException as e:
        return exc_info(e)
    if isinstance(res, Success):
        a = res.unwrap()
        if not isinstance(a, A.Assignment):
            return {"k": "bad-success", "type": type(a).__name__}
        out = {"k": "ok", "size": tree_size(a.expression)}
        if out["size"] <= 4 * BIG:
            out["tree"] = [["t", a.target.name, list(a.target.indexes)], tree_to_json(a.expression)]
        out.update(roundtrip_assignment(a, rng, s))
        return out
    if isinstance(res, Failure):
        f = res.failure()
        return {"k": "err", "cls": ERR.get(type(f).__name__, "OTHER:" + type(f).__name__)}
    return {"k": "not-a-result", "type": type(res).__name__}


def job_ast(t, rng):
    try:
        target = A.Tensor(t[0][1], tuple(t[0][2]))
        expr = json_to_tree(t[1])
    except BaseException as e:
        return exc_info(e)
    try:
        a = A.Assignment(target, expr)
    except BaseException as e:
        n = type(e).__name__
        if n in ERR:
            return {"k": "err", "cls": ERR[n]}
        return exc_info(e)
    out = {"k": "ok", "tree": [["t", a.target.name, list(a.target.indexes)], tree_to_json(a.expression)]}
    out.update(roundtrip_assignment(a, rng))
    return out


def fmt_json(f: Format):
    return ["".join(m.character for m in f.modes), [str(o) for o in f.ordering]]


def roundtrip_format(f: Format) -> dict:
    r = {}
    try:
        text = f.deparse()
    except BaseException as e:
        r["deparse"] = exc_info(e)
        return r
    r["text"] = text
    try:
        back = parse_format(text)
    except BaseException as e:
        r["reparse"] = exc_info(e)
        return r
    r["rt"] = isinstance(back, Success) and back.unwrap() == f
    return r


def job_format(s):
    try:
        res = parse_format(s)
    except BaseException as e:
        return exc_info(e)
    if isinstance(res, Success):
        f = res.unwrap()
        if not isinstance(f, Format):
            return {"k": "bad-success", "type": type(f).__name__}
        out = {"k": "ok", "fmt": fmt_json(f)}
        out.update(roundtrip_format(f))
        return out
    if isinstance(res, Failure):
        return {"k": "err", "cls": ERR.get(type(res.failure()).__name__, "OTHER:" + type(res.failure()).__name__)}
    return {"k": "not-a-result", "type": type(res).__name__}


def job_named(s):
    try:
        res = parse_named_format(s)
    except BaseException as e:
        return exc_info(e)
    if isinstance(res, Success):
        v = res.unwrap()
        if not (isinstance(v, tuple) and len(v) == 2 and isinstance(v[0], str) and isinstance(v[1], Format)):
            return {"k": "bad-success", "type": repr(v)[:80]}
        out = {"k": "ok", "name": v[0], "fmt": fmt_json(v[1])}
        # the pair must be re-readable from name + ":" + printed format
        try:
            back = parse_named_format(v[0] + ":" + v[1].deparse())
            out["rt"] = isinstance(back, Success) and back.unwrap() == v
        except BaseException as e:
            out["reparse"] = exc_info(e)
        return out
    if isinstance(res, Failure):
        return {"k": "err", "cls": ERR.get(type(res.failure()).__name__, "OTHER:" + type(res.failure()).__name__)}
    return {"k": "not-a-result", "type": type(res).__name__}


def job_fobj(modes: str, ordering):
    try:
        f = Format(tuple(Mode.dense if c == "d" else Mode.compressed for c in modes), tuple(int(o) for o in ordering))
    except BaseException as e:
        n = type(e).__name__
        if n in ERR:
            return {"k": "err", "cls": ERR[n]}
        return exc_info(e)
    out = {"k": "ok", "fmt": fmt_json(f)}
    out.update(roundtrip_format(f))
    return out


def main():
    req = json.load(sys.stdin)
    rng = random.Random(req.get("seed", 0))
    results = []
    for job in req["jobs"]:
        op = job["op"]
        try:
            if op == "parse":
                results.append(job_parse(job["s"], rng))
            elif op == "ast":
                results.append(job_ast(job["t"], rng))
            elif op == "format":
                results.append(job_format(job["s"]))
            elif op == "named":
                results.append(job_named(job["s"]))
            elif op == "fobj":
                results.append(job_fobj(job["modes"], job["ord"]))
            else:
                results.append({"k": "harness-error", "what": "unknown op"})
        except BaseException as e:  # a failure of the harness itself, reported as such
            results.append({"k": "harness-error", "what": type(e).__name__ + ": " + str(e)[:200]})
    json.dump({"results": results}, sys.stdout)


if __name__ == "__main__":
    main()
