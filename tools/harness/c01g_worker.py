"""C01G -- implementation-side worker for the kernel-model correspondence.

Runs under /venv python with PYTHONPATH=<repo>/src:/verif/tools.

    c01g_worker.py plan IN.json OUT.json            problems -> explicit cases (c01_worker.plan)
    c01g_worker.py run  IN.json OUT.jsonl PROGRESS  per case: the REAL first iteration graph
                                                    (best_algorithm), the output description, the
                                                    raw stored inputs and the RAW output of the real
                                                    evaluate kernel (LLVM)

Nothing here judges anything.
"""
from __future__ import annotations

import faulthandler
import json
import sys
import traceback

from harness import c01_worker, sweep


def dump_e(e):
    from tensora.format import Mode
    from tensora.iteration_graph.identifiable_expression import ast as ie

    if isinstance(e, ie.Integer):
        return ["int", e.value]
    if isinstance(e, ie.Float):
        return ["float", repr(e.value)]
    if isinstance(e, ie.Tensor):
        return ["t", e.id, e.name, list(e.indexes), ["d" if m == Mode.dense else "s" for m in e.modes]]
    if isinstance(e, ie.Add):
        return ["+", dump_e(e.left), dump_e(e.right)]
    if isinstance(e, ie.Multiply):
        return ["*", dump_e(e.left), dump_e(e.right)]
    raise TypeError(type(e))


def dump_g(g):
    from tensora.iteration_graph.iteration_graph import IterationNode, SumNode, TerminalNode

    if isinstance(g, TerminalNode):
        return ["T", dump_e(g.expression)]
    if isinstance(g, IterationNode):
        return ["I", g.index_variable, None if g.output is None else g.output.layer, dump_g(g.next)]
    if isinstance(g, SumNode):
        return ["S", [dump_g(t) for t in g.terms]]
    raise TypeError(type(g))


_problem_cache: dict = {}


def problem_record(assignment: str, formats: dict) -> dict:
    """graph + output description of one (assignment, formats); what generate_module_tensora uses."""
    key = (assignment, json.dumps(formats, sort_keys=True))
    if key in _problem_cache:
        return _problem_cache[key]
    from returns.result import Failure, Success
    from tensora.desugar import best_algorithm, desugar_assignment, to_identifiable
    from tensora.expression import parse_assignment
    from tensora.format import Mode, parse_format

    rec: dict = {}
    try:
        a = parse_assignment(assignment).unwrap()
        fmts = {n: parse_format(f).unwrap() for n, f in formats.items()}
        d = desugar_assignment(a)
        out = to_identifiable(d.target, fmts)
        rec["out"] = {"id": out.id, "name": out.name, "idx": list(out.indexes),
                      "modes": ["d" if m == Mode.dense else "s" for m in out.modes],
                      "ordering": list(fmts[out.name].ordering)}
        rec["target_idx"] = list(a.target.indexes)
        match best_algorithm(d, fmts):
            case Success(g):
                rec["graph"] = dump_g(g)
                rec["orderings"] = {n: list(f.ordering) for n, f in fmts.items()}
            case Failure(e):
                rec["refused"] = type(e).__name__
    except Exception as e:  # noqa: BLE001
        rec["error"] = type(e).__name__
    _problem_cache[key] = rec
    return rec


def run_cases(cases: list[dict], out_path: str, progress_path: str, per_case_timeout: int):
    with open(out_path, "a") as out, open(progress_path, "a") as prog:
        for c in cases:
            prog.write(f"S {c['id']}\n")
            prog.flush()
            faulthandler.dump_traceback_later(per_case_timeout, exit=True)
            res = {"id": c["id"]}
            try:
                inputs = {n: {"dims": v["dims"], "entries": {tuple(k): float(x) for k, x in v["entries"]}}
                          for n, v in c["inputs"].items()}
                res["problem"] = problem_record(c["assignment"], c["formats"])
                res["raw_in"] = {n: sweep.raw(sweep.build(c["formats"][n], v["dims"], v["entries"]))
                                 for n, v in inputs.items()}
                status, val = sweep.run_evaluate(c["assignment"], c["formats"], inputs, backend=c.get("backend", "llvm"))
                res["status"], res["out"] = status, val
            except BaseException as e:  # noqa: BLE001
                res["status"], res["out"] = "harness", f"{type(e).__name__}: {e}\n{traceback.format_exc()[-800:]}"
            faulthandler.cancel_dump_traceback_later()
            out.write(json.dumps(res) + "\n")
            out.flush()
            prog.write(f"D {c['id']}\n")
            prog.flush()


def main():
    cmd, inp, outp = sys.argv[1], sys.argv[2], sys.argv[3]
    job = json.load(open(inp))
    if cmd == "plan":
        json.dump(c01_worker.plan(job), open(outp, "w"))
    elif cmd == "run":
        run_cases(job["cases"], outp, sys.argv[4], job.get("per_case_timeout", 60))
    else:
        raise SystemExit(f"unknown command {cmd}")


if __name__ == "__main__":
    main()
