"""Build Coq case files that run real IR on the abstract machine (spec/IRSem.v, spec/IRRun.v)."""
from __future__ import annotations

from py2coq.core import float_lit


def zl(xs) -> str:
    return "[" + "; ".join(f"({int(x)})" if int(x) < 0 else str(int(x)) for x in xs) + "]%Z"


def fl(xs) -> str:
    return "[" + "; ".join(float_lit(float(x)) for x in xs) + "]"


def levels_term(modes: str, indices) -> str:
    parts = []
    for m, ix in zip(modes, indices):
        parts.append("None" if m == "d" else f"(Some ({zl(ix[0])}, {zl(ix[1])}))")
    return "[" + "; ".join(parts) + "]"


def tin_input(raw: dict) -> str:
    return f"(mkTin {zl(raw['dims'])} {levels_term(raw['modes'], raw['indices'])} {fl(raw['vals'])} false)"


def tin_output(dims, modes: str) -> str:
    lv = "[" + "; ".join("None" if m == "d" else "(Some ([]%Z, []%Z))" for m in modes) + "]"
    return f"(mkTin {zl(dims)} {lv} [] true)"


HEADER = """From Coq Require Import ZArith Bool List String.
From Flocq Require Import Core BinarySingleNaN.
From TV Require Import spec.Num gen.IRAst spec.IRSem spec.IRRun.
Import ListNotations.
Open Scope Z_scope.
"""
