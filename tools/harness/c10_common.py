"""Shared helpers of the C10 / C15 checks (no tensora import here).

* a small independent parser for the assignment templates used by the checks (the check must
  not depend on the implementation's parser to build the model's input);
* format strings -> (modes, ordering);
* printers: Python values -> Coq terms of coq/model/ExprAst.v, Problem.v, Validate.v;
* an independent statement of "these arguments are consistent with this problem"
  (directly from the occurrences of the right-hand side, not through index_participants).
"""

from __future__ import annotations

import re

# ---------------------------------------------------------------------------------- parsing

_TOKEN = re.compile(r"\s*(?:(\d+(?:(?:\.\d+(?:[Ee][+-]?\d+)?)|(?:(?:\.\d+)?[Ee][+-]?\d+)))|(\d+)|([A-Za-z][A-Za-z0-9]*)|(.))")


def _tokens(text):
    out = []
    pos = 0
    text = text.rstrip()
    while pos < len(text):
        m = _TOKEN.match(text, pos)
        if not m:
            raise ValueError(f"cannot lex {text!r} at {pos}")
        pos = m.end()
        if m.group(1) is not None:
            out.append(("float", m.group(1)))
        elif m.group(2) is not None:
            out.append(("int", m.group(2)))
        elif m.group(3) is not None:
            out.append(("name", m.group(3)))
        else:
            out.append(("sym", m.group(4)))
    return out


class _P:
    def __init__(self, toks):
        self.t = toks
        self.i = 0

    def peek(self):
        return self.t[self.i] if self.i < len(self.t) else ("eof", "")

    def take(self, kind=None, val=None):
        k, v = self.peek()
        if (kind and k != kind) or (val and v != val):
            raise ValueError(f"expected {kind} {val}, got {k} {v}")
        self.i += 1
        return v

    def tensor(self):
        name = self.take("name")
        self.take("sym", "(")
        idx = []
        if self.peek() != ("sym", ")"):
            idx.append(self.take("name"))
            while self.peek() == ("sym", ","):
                self.take()
                idx.append(self.take("name"))
        self.take("sym", ")")
        return ("tensor", name, tuple(idx))

    def factor(self):
        k, v = self.peek()
        if k == "name":
            return self.tensor()
        if k == "int":
            self.take()
            return ("int", int(v))
        if k == "float":
            self.take()
            return ("float", float(v))
        if (k, v) == ("sym", "("):
            self.take()
            e = self.expr()
            self.take("sym", ")")
            return e
        raise ValueError(f"unexpected {k} {v}")

    def term(self):
        e = self.factor()
        while self.peek() == ("sym", "*"):
            self.take()
            e = ("mul", e, self.factor())
        return e

    def expr(self):
        e = self.term()
        while self.peek() in (("sym", "+"), ("sym", "-")):
            op = self.take()
            e = ("add" if op == "+" else "sub", e, self.term())
        return e


def parse_assignment(text):
    """-> (target, expr) with target = ("tensor", name, idx), expr a nested tuple tree."""
    p = _P(_tokens(text))
    target = p.tensor()
    p.take("sym", "=")
    e = p.expr()
    if p.peek()[0] != "eof":
        raise ValueError(f"trailing input in {text!r}")
    return (target, e)


def ast_repr(node):
    """The repr() tensora's own AST has for the same tree (used to tie the two parsers)."""
    k = node[0]
    if k == "tensor":
        return f"Tensor(name={node[1]!r}, indexes={node[2]!r})"
    if k == "int":
        return f"Integer(value={node[1]!r})"
    if k == "float":
        return f"Float(value={node[1]!r})"
    cls = {"add": "Add", "sub": "Subtract", "mul": "Multiply"}[k]
    return f"{cls}(left={ast_repr(node[1])}, right={ast_repr(node[2])})"


def assignment_repr(a):
    return f"Assignment(target={ast_repr(a[0])}, expression={ast_repr(a[1])})"


def occurrences(e):
    k = e[0]
    if k == "tensor":
        return [e]
    if k in ("int", "float"):
        return []
    return occurrences(e[1]) + occurrences(e[2])


def parse_format(s):
    """'ds' / 'd1s0' -> (modes as 'd'/'s' string, ordering tuple)"""
    if re.fullmatch(r"[ds]*", s):
        return (s, tuple(range(len(s))))
    m = re.fullmatch(r"(?:[ds]\d+)*", s)
    if not m:
        raise ValueError(f"bad format {s!r}")
    parts = re.findall(r"([ds])(\d+)", s)
    return ("".join(p[0] for p in parts), tuple(int(p[1]) for p in parts))


def format_str(modes, ordering):
    if tuple(ordering) == tuple(range(len(modes))):
        return modes
    return "".join(f"{m}{o}" for m, o in zip(modes, ordering))


# ---------------------------------------------------------------------------------- Coq terms


def cstr(s):
    return '"' + s.replace('"', '""') + '"'


def clist(items):
    return "[" + "; ".join(items) + "]"


_float_ids: dict = {}


def float_id(x: float) -> int:
    """abstract identifier of a float literal: equal ids iff numerically equal"""
    if x not in _float_ids:
        _float_ids[x] = len(_float_ids)
    return _float_ids[x]


def coq_expr(e):
    k = e[0]
    if k == "tensor":
        return f"(ETensor (TRef {cstr(e[1])} {clist(cstr(i) for i in e[2])}))"
    if k == "int":
        return f"(EInteger {e[1]}%Z)"
    if k == "float":
        return f"(EFloat {float_id(e[1])}%Z)"
    c = {"add": "EAdd", "sub": "ESubtract", "mul": "EMultiply"}[k]
    return f"({c} {coq_expr(e[1])} {coq_expr(e[2])})"


def coq_assignment(a):
    t = a[0]
    return f"(Assignment (TRef {cstr(t[1])} {clist(cstr(i) for i in t[2])}) {coq_expr(a[1])})"


def coq_modes(modes):
    return clist("Dense" if m == "d" else "Compressed" for m in modes)


def coq_nats(xs):
    return clist(f"{int(x)}%nat" for x in xs)


def coq_zs(xs):
    return clist(f"({int(x)})%Z" for x in xs)


def coq_format(fmt):
    modes, ordering = parse_format(fmt) if isinstance(fmt, str) else fmt
    return f"(Format {coq_modes(modes)} {coq_nats(ordering)})"


def coq_formats(items):
    return clist(f"({cstr(n)}, {coq_format(f)})" for n, f in items)


def coq_argument(spec):
    """spec: {'kind': 'tensor', 'format': 'ds', 'dims': [..]} or {'kind': <anything else>}"""
    if spec["kind"] != "tensor":
        return "ANotTensor"
    modes, ordering = parse_format(spec["format"])
    return f"(ATensor {len(spec['dims'])}%nat {coq_modes(modes)} {coq_nats(ordering)} {coq_zs(spec['dims'])})"


def coq_call_args(positional, keywords):
    return (
        f"(CallArgs {clist(coq_argument(a) for a in positional)} "
        f"{clist('(' + cstr(n) + ', ' + coq_argument(a) + ')' for n, a in keywords)})"
    )


# ---------------------------------------------------------------------------------- the statement


def consistent(assignment, formats, positional, keywords):
    """Independent statement of "the arguments are the ones the kernel was generated for".

    formats: ordered [(name, format string)] of the problem (output included).
    Returns (bool, reason).
    """
    target, expr = assignment
    inputs = [(n, f) for n, f in formats if n != target[1]]
    if positional:
        return False, "positional argument"
    names = [n for n, _ in keywords]
    if len(set(names)) != len(names):
        return False, "repeated keyword"
    if set(names) != {n for n, _ in inputs}:
        return False, "names differ from the kernel's inputs"
    kw = dict(keywords)
    for n, f in inputs:
        a = kw[n]
        if a["kind"] != "tensor":
            return False, f"{n} is not a tensor"
        modes, ordering = parse_format(f)
        amodes, aordering = parse_format(a["format"])
        if len(a["dims"]) != len(modes) or amodes != modes or tuple(aordering) != tuple(ordering):
            return False, f"{n} has another format"
    sizes = {}
    for _, name, idx in occurrences(expr):
        dims = kw[name]["dims"]
        if len(dims) != len(idx):
            return False, f"{name} used with {len(idx)} indexes"
        for j, i in enumerate(idx):
            if sizes.setdefault(i, dims[j]) != dims[j]:
                return False, f"index {i} has two sizes"
    for i in target[2]:
        if i not in sizes:
            return False, f"target index {i} has no size"
    return True, [sizes[i] for i in target[2]]
