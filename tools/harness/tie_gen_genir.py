"""TIE self-check for the regenerated loop generator (gen/GenerateIR.v): the REAL
tensora.iteration_graph.generate_ir(definition, graph, kernel_type) -- before peephole -- against the Gallina
`generate_ir` applied to the dumped definition and graph, inside coqc.

Equality is the full structural equality of function definitions (name, parameters, return type, body), block
COMMENTS INCLUDED.  An exception of the real generator must be `None` on the Gallina side.

Problems: the priority shapes of tools/props/C04.py (SHAPES, which contains C05's GROWTH), then harness.sweep
TEMPLATES x format_choices (seeded sample); for each problem up to 3 graphs of to_iteration_graphs (the first is the
one best_algorithm uses; the others exercise generator paths that the library never takes, incl. exceptions), all three
kernel kinds.  Also: generate_subgraphs and the node methods on every IterationNode met (sub-case kind CSub).
SumNode names are erased on both sides (nothing reads them)."""

from __future__ import annotations

import itertools
import os

from harness.tie_gen import HEAD, clist, cstr, cz, id_term
from harness.tie_gen_graphs import format_term, graph_term

EQB = """
Fixpoint stmt_eqb (a b : stmt) {struct a} : bool :=
  match a, b with
  | Declaration n1 t1, Declaration n2 t2 => expr_eqb n1 n2 && ty_eqb t1 t2
  | Assignment x1 v1, Assignment x2 v2 => expr_eqb x1 x2 && expr_eqb v1 v2
  | DeclarationAssignment d1 v1, DeclarationAssignment d2 v2 => stmt_eqb d1 d2 && expr_eqb v1 v2
  | Block s1 c1, Block s2 c2 =>
      (fix go (l1 l2 : list stmt) : bool :=
         match l1, l2 with
         | [], [] => true
         | x :: r1, y :: r2 => stmt_eqb x y && go r1 r2
         | _, _ => false
         end) s1 s2 && match c1, c2 with None, None => true | Some x, Some y => String.eqb x y | _, _ => false end
  | Branch c1 a1 b1, Branch c2 a2 b2 => expr_eqb c1 c2 && stmt_eqb a1 a2 && stmt_eqb b1 b2
  | Loop c1 b1, Loop c2 b2 => expr_eqb c1 c2 && stmt_eqb b1 b2
  | Return e1, Return e2 => expr_eqb e1 e2
  | SExpr e1, SExpr e2 => expr_eqb e1 e2
  | _, _ => false
  end.
Definition fd_eqb (a b : function_definition) : bool :=
  match a, b with
  | FunctionDefinition n1 p1 t1 b1, FunctionDefinition n2 p2 t2 b2 =>
      expr_eqb n1 n2 && list_eqb stmt_eqb p1 p2 && ty_eqb t1 t2 && stmt_eqb b1 b2
  end.
Definition ofd_eqb (a b : option function_definition) : bool :=
  match a, b with Some x, Some y => fd_eqb x y | None, None => true | _, _ => false end.
Definition olayer_eqb (a b : option ExhaustAst.TensorLayer) : bool :=
  match a, b with
  | None, None => true
  | Some (ExhaustAst.MkTensorLayer t l), Some (ExhaustAst.MkTensorLayer t' l') => id_expr_eqb t t' && Z.eqb l l'
  | _, _ => false
  end.
Fixpoint ig_eqb (a b : ig_graph) {struct a} : bool :=
  match a, b with
  | IgTerminalNode x, IgTerminalNode y => id_expr_eqb x y
  | IgIterationNode i o n, IgIterationNode j p m => String.eqb i j && olayer_eqb o p && ig_eqb n m
  | IgSumNode s ts, IgSumNode s' us =>
      (fix go (l r : list ig_graph) {struct l} : bool :=
         match l, r with
         | [], [] => true
         | x :: l', y :: r' => ig_eqb x y && go l' r'
         | _, _ => false
         end) ts us
  | _, _ => false
  end.
Definition tl_eqb (a b : AppendGen.TensorLayer) : bool :=
  let t := AppendGen.TensorLayer_tensor in
  String.eqb (Tensor_id (t a)) (Tensor_id (t b))
  && String.eqb (Tensor_name (t a)) (Tensor_name (t b))
  && list_eqb String.eqb (Tensor_indexes (t a)) (Tensor_indexes (t b))
  && list_eqb AppendGen.Mode_eqb (Tensor_modes (t a)) (Tensor_modes (t b))
  && Z.eqb (AppendGen.TensorLayer_layer a) (AppendGen.TensorLayer_layer b).
Definition opt_eqb {A} (e : A -> A -> bool) (a b : option A) : bool :=
  match a, b with Some x, Some y => e x y | None, None => true | _, _ => false end.
Definition mk_layer (i n : string) (ix : list string) (ms : list AppendGen.Mode) (l : Z) : AppendGen.TensorLayer := AppendGen.MkTensorLayer (MkTensor i n ix ms) l.
Inductive tcase :=
| CGen (cap : option Z) (d : IgDefinition) (g : ig_graph) (want : list (GlueGen.KernelType * option function_definition))
| CSub (g : ig_graph) (subs : option (list ig_graph)) (dims : option (list string)) (sparse dense : option (list AppendGen.TensorLayer))
       (sp_in sp_out : option bool) (later : list string).
Definition ok (c : tcase) : bool :=
  match c with
  | CGen cap d g want => forallb (fun '(k, w) => ofd_eqb (generate_ir cap d g k) w) want
  | CSub g subs dims sp de si so later =>
      opt_eqb (list_eqb ig_eqb) (generate_subgraphs (ig_fuel g) g) subs
      && opt_eqb (list_eqb String.eqb) (ig_compressed_dimensions g) dims
      && opt_eqb (list_eqb tl_eqb) (ig_sparse_leaves g) sp && opt_eqb (list_eqb tl_eqb) (ig_dense_leaves g) de
      && opt_eqb Bool.eqb (ig_is_sparse_input g) si && opt_eqb Bool.eqb (ig_is_sparse_output g) so
      && set_eqb (ig_later_indexes g) later
  end.
"""


def priority_shapes():
    try:
        from props.C04 import SHAPES

        return [(a, dict(f)) for a, f in SHAPES]
    except Exception:  # noqa: BLE001  (the check modules import the driver library; fall back to nothing)
        return []


def dims_term(d):
    return clist(f"({cstr(k)}, MkTensorDimension {cstr(v.name)} {cz(v.dimension)})" for k, v in d.items())


def definition_term(d):
    fs = clist(f"({cstr(k)}, {format_term(v)})" for k, v in d.formats.items())
    return f"(MkDefinition {id_term(d.output_variable)} {fs} {dims_term(d.indexes)})"


def opt(f, term):
    try:
        return f"(Some {term(f())})"
    except Exception:  # noqa: BLE001
        return "None"


def layer_term2(l):
    t = l.tensor
    return (f"(mk_layer {cstr(t.id)} {cstr(t.name)} {clist(cstr(i) for i in t.indexes)} "
            f"{clist('AppendGen.Mode_' + m.name for m in t.modes)} {cz(l.layer)})")


def sub_case(g):
    from tensora.iteration_graph._generate_ir import generate_subgraphs

    bl = lambda b: "true" if b else "false"  # noqa: E731
    return (f"CSub {graph_term(g)} {opt(lambda: generate_subgraphs(g), lambda xs: clist(graph_term(x) for x in xs))} "
            f"{opt(lambda: list(g.compressed_dimensions()), lambda xs: clist(cstr(x) for x in xs))} "
            f"{opt(g.sparse_leaves, lambda xs: clist(layer_term2(x) for x in xs))} "
            f"{opt(g.dense_leaves, lambda xs: clist(layer_term2(x) for x in xs))} "
            f"{opt(g.is_sparse_input, bl)} {opt(g.is_sparse_output, bl)} {clist(cstr(x) for x in sorted(g.later_indexes()))}")


def iteration_nodes(g):
    from tensora.iteration_graph import iteration_graph as ig

    if isinstance(g, ig.IterationNode):
        yield g
        yield from iteration_nodes(g.next)
    elif isinstance(g, ig.SumNode):
        for t in g.terms:
            yield from iteration_nodes(t)


def t_genir(rng, n):
    from harness import sweep
    from harness.irdump import coq_function, problem_of
    from tensora.desugar import desugar_assignment, index_dimensions, to_identifiable
    from tensora.desugar._to_iteration_graphs import to_iteration_graphs
    from tensora.iteration_graph import Definition, generate_ir
    from tensora.kernel_type import KernelType

    capenv = os.environ.get("TENSORA_VERIF_INITIAL_CAPACITY")
    cap = f"(Some {cz(int(capenv))})" if capenv else "None"
    problems = list(priority_shapes())
    templates = list(sweep.TEMPLATES)
    rng.shuffle(templates)
    for a in templates:
        try:
            fs = sweep.format_choices(a, rng, 4)
        except Exception:  # noqa: BLE001
            continue
        for f in fs:
            problems.append((a, f))
    # interleave: all priority shapes first, then the sampled ones
    cases, descr = [], []
    seen_sub = set()
    budget = max(n, 30)
    for a, fmts in problems:
        if len(cases) >= budget:
            break
        try:
            problem = problem_of(a, fmts)
            des = desugar_assignment(problem.assignment)
            outv = to_identifiable(des.target, problem.formats)
            definition = Definition(outv, problem.formats, index_dimensions(des))
            graphs = list(itertools.islice(to_iteration_graphs(des, problem.formats), 3))
        except Exception:  # noqa: BLE001
            continue
        variants = [(f"graph #{i}", g_) for i, g_ in enumerate(graphs)]
        # perturbed graphs (never produced by the library): an output layer dropped, a tensor exhausted
        if graphs and rng.random() < 0.25:
            from dataclasses import replace
            from tensora.iteration_graph import iteration_graph as ig

            g0 = graphs[0]
            try:
                if isinstance(g0, ig.IterationNode) and rng.random() < 0.5:
                    variants.append(("graph #0 with the first output layer dropped", replace(g0, output=None)))
                else:
                    ids = [l.tensor.id for nd in iteration_nodes(g0) for l in nd.sparse_leaves() + nd.dense_leaves()]
                    if ids:
                        r = rng.choice(ids)
                        variants.append((f"graph #0 with {r} exhausted", g0.exhaust_tensor(r)))
            except Exception:  # noqa: BLE001
                pass
        for gi, (gname, graph) in enumerate(variants):
            want = []
            for kind in (KernelType.evaluate, KernelType.assemble, KernelType.compute):
                try:
                    f = generate_ir(definition, graph, kind)
                    w = f"(Some {coq_function(f)})"
                except Exception:  # noqa: BLE001
                    w = "None"
                want.append(f"(GlueGen.KernelType_{kind.name}, {w})")
            cases.append(f"CGen {cap} {definition_term(definition)} {graph_term(graph)} {clist(want)}")
            descr.append(f"generate_ir: {a} {fmts} {gname}")
            if gi == 0:
                for node in iteration_nodes(graph):
                    key = repr(node)
                    if key in seen_sub or len(seen_sub) > n // 3:
                        continue
                    seen_sub.add(key)
                    cases.append(sub_case(node))
                    descr.append(f"generate_subgraphs / node methods: {a} {fmts} node over {node.index_variable}")
    text = HEAD + ("From TV Require Import model.GraphsIter gen.IRAst gen.AppendGen gen.GenerateIR.\n"
                   "From TV Require Import gen.ExhaustAst gen.Exhaust gen.IterGraphs gen.GlueGen.\nOpen Scope list_scope.\n") + EQB
    # one definition per case keeps coqc's parser fast on the big terms
    for i, c in enumerate(cases):
        text += f"Definition case_{i} : tcase :=\n {c}.\n"
    text += "Definition cases : list tcase :=\n [" + "; ".join(f"case_{i}" for i in range(len(cases))) + "].\n"
    text += "Eval vm_compute in (failing (map ok cases)).\n"
    return {"coq": text, "n": len(cases), "descr": descr}


TARGETS = {"genir": t_genir}
