"""TIE self-check for the target "concurrency" (auto-discovered by tie_gen.py).

The REAL evaluate_cffi / evaluate_tensora / evaluate / tensor_method(...)(...) are run here under an
instrumentation that logs, in the order in which they happen, the operations the interpreter of
coq/model/ConcurrencyApi.v calls effects:

  lookup:hit / lookup:miss / insert   the lru_cache of cachable_tensor_method (cache_info before / after)
  new_write:<attr>                     TensorMethod.__setattr__
  acquire / release                    _compile_cffi.lock (replaced by a logging wrapper around a real Lock)
  compile_cffi / dlopen                cffi.FFI.compile / cffi.FFI.dlopen
  compile_llvm                         llvmlite ExecutionEngine.finalize_object
  alloc / own / own_other              allocate_taco_structure / take_ownership_of_arrays as seen by _tensor_method
  run                                  the call of self._evaluate
  return / return_other                what the entry point returns

and the generated Coq file compares each log with the effects along the successful path of the REGENERATED
programme (gen/ConcurrencyGen.v) for the same entry point, back end and cache outcome.
"""

from __future__ import annotations

import threading


def cstr(s: str) -> str:
    return '"' + s.replace('"', '""') + '"'


COQ_HEAD = """From Coq Require Import List String Bool.
From TV Require Import model.Concurrency model.ConcurrencyApi gen.ConcurrencyGen.
Import ListNotations.
Open Scope string_scope.
Open Scope list_scope.
Fixpoint failing_from (i : nat) (l : list bool) : list nat :=
  match l with [] => [] | b :: t => if b then failing_from (S i) t else i :: failing_from (S i) t end.
Definition failing (l : list bool) : list nat := failing_from 0 l.
(* the effects along the first successful path with cache outcome hit *)
Fixpoint witness (hit : bool) (t : tree) : option (list eff) :=
  match t with
  | Leaf (LVal _ _) => Some []
  | Leaf _ => None
  | Eff (ECacheLookup f h) k => if Bool.eqb h hit then option_map (cons (ECacheLookup f h)) (witness hit k) else None
  | Eff e k => option_map (cons e) (witness hit k)
  | Choice a b => match witness hit a with Some tr => Some tr | None => witness hit b end
  | Loop _ k => witness hit k
  end.
Definition tok (e : eff) : list string :=
  match e with
  | ECacheLookup _ true => ["lookup:hit"] | ECacheLookup _ false => ["lookup:miss"] | ECacheInsert _ => ["insert"]
  | EAcquire _ => ["acquire"] | ERelease _ => ["release"] | ECompileCffi => ["compile_cffi"] | EDlopen => ["dlopen"]
  | ECompileLlvm => ["compile_llvm"] | EAlloc => ["alloc"] | ERun => ["run"] | EOwn => ["own"] | EOwnOther => ["own_other"]
  | EReturn => ["return"] | EReturnOther => ["return_other"]
  | ENewWrite a => ["new_write:" ++ a]%string
  | ESharedWrite p => ["shared_write:" ++ String.concat "." p]%string
  | EGlobalWrite g => ["global_write:" ++ g]%string
  | EArgWrite => ["arg_write"] | EUnknown s => ["unknown:" ++ s]%string
  | ENewRead _ | ESharedRead _ | EGlobalRead _ => []
  end.
Fixpoint strs_eq (a b : list string) : bool :=
  match a, b with [], [] => true | x :: a', y :: b' => String.eqb x y && strs_eq a' b' | _, _ => false end.
Definition entry (name : string) : tree :=
  if String.eqb name "tensor_method:cffi" then entry_tensor_method prog Cffi
  else if String.eqb name "tensor_method:llvm" then entry_tensor_method prog Llvm
  else entry_evaluate prog name.
Definition agrees (name : string) (hit : bool) (real : list string) : bool :=
  match witness hit (entry name) with
  | Some tr => strs_eq (flat_map tok tr) real
  | None => false
  end.
"""


class Recorder:
    def __init__(self):
        self.log: list[str] = []
        self.struct = None

    def __call__(self, t: str):
        self.log.append(t)


def instrument(rec: Recorder):
    import cffi
    import llvmlite.binding as llvm

    import tensora.compile._compile_cffi as CC
    import tensora.compile._porcelain as P
    import tensora.compile._tensor_method as TM

    cached = P.cachable_tensor_method
    if not hasattr(cached, "cache_info"):
        raise RuntimeError("cachable_tensor_method is not an lru_cache object")

    def cachable_tensor_method(*a, **k):
        before = cached.cache_info()
        at = len(rec.log)
        rec.log.append("lookup:?")
        r = cached(*a, **k)
        after = cached.cache_info()
        if after.hits == before.hits + 1 and after.misses == before.misses:
            rec.log[at] = "lookup:hit"
        elif after.misses == before.misses + 1 and after.hits == before.hits:
            rec.log[at] = "lookup:miss"
            rec("insert")
        return r

    P.cachable_tensor_method = cachable_tensor_method

    def setattr_(self, k, v):
        rec("new_write:" + k)
        object.__setattr__(self, k, v)

    TM.TensorMethod.__setattr__ = setattr_

    def getattribute(self, name):
        v = object.__getattribute__(self, name)
        if name == "_evaluate":
            def run(*a):
                rec("run")
                return v(*a)
            return run
        return v

    TM.TensorMethod.__getattribute__ = getattribute

    class LoggingLock:
        def __init__(self):
            self.real = threading.Lock()

        def __enter__(self):
            self.real.acquire()
            rec("acquire")

        def __exit__(self, *exc):
            rec("release")
            self.real.release()

    if not isinstance(CC.lock, type(threading.Lock())):
        raise RuntimeError("_compile_cffi.lock is not a threading.Lock")
    CC.lock = LoggingLock()

    compile_, dlopen_ = cffi.FFI.compile, cffi.FFI.dlopen

    def compile(self, *a, **k):
        rec("compile_cffi")
        return compile_(self, *a, **k)

    def dlopen(self, *a, **k):
        rec("dlopen")
        return dlopen_(self, *a, **k)

    cffi.FFI.compile, cffi.FFI.dlopen = compile, dlopen

    fin = llvm.ExecutionEngine.finalize_object

    def finalize_object(self):
        rec("compile_llvm")
        return fin(self)

    llvm.ExecutionEngine.finalize_object = finalize_object

    alloc, own = TM.allocate_taco_structure, TM.take_ownership_of_arrays

    def allocate_taco_structure(*a, **k):
        rec("alloc")
        rec.struct = alloc(*a, **k)
        return rec.struct

    def take_ownership_of_arrays(s):
        rec("own" if s is rec.struct else "own_other")
        return own(s)

    TM.allocate_taco_structure, TM.take_ownership_of_arrays = allocate_taco_structure, take_ownership_of_arrays


ASSIGNMENTS = [
    ("y(i) = A(i,j) * x(j)", {"A": "ds", "x": "d"}, "d"),
    ("y(i) = a(i) + b(i)", {"a": "s", "b": "s"}, "s"),
    ("C(i,j) = A(i,j) * B(i,j)", {"A": "ds", "B": "ds"}, "ds"),
    ("y(i) = a(i) * b(i)", {"a": "d", "b": "s"}, "d"),
]


def t_concurrency(rng, n):
    from tensora import Tensor
    from tensora.compile import BackendCompiler, evaluate, evaluate_cffi, evaluate_tensora, tensor_method

    rec = Recorder()
    instrument(rec)

    def tensor(fmt, salt):
        order = len(fmt)
        dims = (3,) * order
        if order == 0:
            return Tensor.from_lol(2.0 + salt, dimensions=(), format="")
        coords = {}
        for _ in range(4):
            coords[tuple(rng.randrange(3) for _ in range(order))] = float(rng.randrange(1, 9))
        return Tensor.from_dok(coords, dimensions=dims, format=fmt)

    cases, descr = [], []
    uniq = [0]

    def fresh_names(assignment, formats):
        # new tensor names defeat the cache
        uniq[0] += 1
        ren = {k: f"{k}{uniq[0]}q" for k in formats}
        import re
        a = re.sub(r"\b([A-Za-z]\w*)\(", lambda m: ren.get(m.group(1), m.group(1)) + "(", assignment)
        return a, {ren[k]: v for k, v in formats.items()}

    def one(entry, hit_wanted, a, formats, out_fmt):
        inputs = {k: tensor(f, i) for i, (k, f) in enumerate(formats.items())}
        target_name = a.split("=")[0].strip().split("(")[0]

        def call():
            if entry == "evaluate_cffi":
                return evaluate_cffi(a, out_fmt, **inputs)
            if entry == "evaluate_tensora":
                return evaluate_tensora(a, out_fmt, **inputs)
            if entry == "evaluate":
                return evaluate(a, out_fmt, **inputs)
            backend = BackendCompiler.cffi if entry.endswith("cffi") else BackendCompiler.llvm
            return tensor_method(a, {target_name: out_fmt, **formats}, backend)(**inputs)

        if hit_wanted:
            call()
        rec.log.clear()
        rec.struct = None
        r = call()
        rec("return" if isinstance(r, Tensor) and r.cffi_tensor is rec.struct else "return_other")
        log = list(rec.log)
        hit = "lookup:hit" in log
        cases.append(f"agrees {cstr(entry)} {'true' if hit else 'false'} [{'; '.join(cstr(t) for t in log)}]")
        descr.append(f"{entry} {a!r} {formats} -> {out_fmt!r} hit={hit}: {' '.join(log)}")

    plan = []
    cffi_entries = ["evaluate_cffi", "tensor_method:cffi"]
    llvm_entries = ["evaluate_tensora", "evaluate", "tensor_method:llvm"]
    for i, e in enumerate(cffi_entries):                       # two cffi compilations (about a second each)
        plan.append((e, False, i))
        plan.append((e, True, i))
    for i in range(max(6, min(n // 10, 30))):
        e = llvm_entries[i % len(llvm_entries)]
        plan.append((e, False, rng.randrange(len(ASSIGNMENTS))))
        plan.append((e, True, rng.randrange(len(ASSIGNMENTS))))
    for e, hit, k in plan:
        a, formats, out_fmt = ASSIGNMENTS[k]
        if hit:
            a2, f2 = fresh_names(a, formats) if e in cffi_entries and False else (a, formats)
        else:
            a2, f2 = fresh_names(a, formats)
        one(e, hit, a2, f2, out_fmt)
    text = COQ_HEAD + "Definition results : list bool :=\n [" + ";\n  ".join(cases) + "].\n"
    text += "Eval vm_compute in (failing results).\n"
    return {"coq": text, "n": len(cases), "descr": descr}


TARGETS = {"concurrency": t_concurrency}
