"""TIE self-check for the regenerated operator layer (gen/TensorOps.v).

The REAL functions of /repo/src/tensora/tensor.py (evaluate_binary_operator,
evaluate_matrix_multiplication_operator, Tensor.__add__ ... __rmatmul__) are run here with
`tensora.compile.evaluate_tensora` replaced by a recorder (the boundary of the translation), on

  * real tensors (Tensor.from_dok, orders 0-3, every mode string, permuted orderings, sizes incl. 0),
  * Python numbers (int, float, bool, Fraction) and other objects (None, str, list, complex),
  * subclasses of Tensor whose cffi-reading properties (order, dimensions, modes, mode_ordering)
    return chosen values, also ILL-FORMED ones (lengths that disagree, orderings that are not
    permutations, negative entries): they exercise the exception paths of the translation
    (zip(strict=True), tuple indexes, Format.__post_init__),

and the regenerated Gallina functions are evaluated on the same arguments inside coqc.  Compared:
the assignment string, the format string, the keyword names, which object each keyword is bound to
(identity with an argument, or an order-0 tensor holding float(argument)), `NotImplemented`, and for
an exception its class name and that the message starts with the literal head of the generated
message template.
"""

from __future__ import annotations

from fractions import Fraction

from harness.tie_gen import HEAD, clist, cstr, cz

DEFS = """From TV Require Import gen.TensorOps.
Definition view_eqb (a b : TensorView) : bool :=
  Z.eqb (Tensor_order a) (Tensor_order b) && list_eqb Z.eqb (Tensor_dimensions a) (Tensor_dimensions b)
  && list_eqb Mode_eqb (Tensor_modes a) (Tensor_modes b)
  && list_eqb Z.eqb (Tensor_mode_ordering a) (Tensor_mode_ordering b).
Definition obj_eqb (a b : pyobj) : bool :=
  match a, b with
  | PyTensor x, PyTensor y => view_eqb x y
  | PyReal, PyReal | PyOther, PyOther => true
  | _, _ => false
  end.
Definition argval_eqb (a b : argval) : bool :=
  match a, b with
  | AObj x, AObj y | AFromLolFloat x, AFromLolFloat y => obj_eqb x y
  | _, _ => false
  end.
Definition kw_eqb (a b : string * argval) : bool := String.eqb (fst a) (fst b) && argval_eqb (snd a) (snd b).
(* literal head of a message template: the characters before the first interpolation *)
Fixpoint template_head (t : string) : string :=
  match t with
  | EmptyString => EmptyString
  | String c r => if Ascii.eqb c "{"%char then EmptyString else String c (template_head r)
  end.
Inductive observed : Type :=
  | ObsEvaluate (a f : string) (kw : list (string * argval))
  | ObsNotImplemented
  | ObsExc (cls msg : string).
Definition agrees (g : res outcome) (o : observed) : bool :=
  match g, o with
  | Val (Evaluate a f kw), ObsEvaluate a' f' kw' => String.eqb a a' && String.eqb f f' && list_eqb kw_eqb kw kw'
  | Val NotImplementedValue, ObsNotImplemented => true
  | Exc (Exn cls tpl), ObsExc cls' msg => String.eqb cls cls' && String.prefix (template_head tpl) msg
  | _, _ => false
  end.
"""


def make_fake_class():
    from tensora import Tensor

    class ViewTensor(Tensor):
        """A Tensor whose cffi-reading properties return chosen values (nothing else is used by the
        operator layer before the boundary)."""

        def __init__(self, order, dimensions, modes, mode_ordering):
            self._v = (order, tuple(dimensions), tuple(modes), tuple(mode_ordering))

        order = property(lambda self: self._v[0])
        dimensions = property(lambda self: self._v[1])
        modes = property(lambda self: self._v[2])
        mode_ordering = property(lambda self: self._v[3])

        def __repr__(self):
            return f"ViewTensor{self._v!r}"

    return ViewTensor


def obj_term(x) -> str:
    from numbers import Real

    from tensora import Tensor
    from tensora.format import Mode

    if isinstance(x, Tensor):
        modes = clist("Mode_dense" if m == Mode.dense else "Mode_compressed" for m in x.modes)
        return (f"(PyTensor (mkTensorView {cz(x.order)} {clist(cz(d) for d in x.dimensions)} {modes} "
                f"{clist(cz(o) for o in x.mode_ordering)}))")
    if isinstance(x, Real):
        return "PyReal"
    return "PyOther"


def gen_operand(rng, fake_cls, kind=None, orders=None):
    import itertools

    from tensora import Tensor
    from tensora.format import Mode

    kind = kind or rng.choice(["real"] * 5 + ["fake_wf"] * 3 + ["fake_ill"] * 3 + ["number"] * 3 + ["other"])
    if kind == "number":
        return rng.choice([0, 1, 3, -2, 2.5, 0.0, True, False, Fraction(1, 3)])
    if kind == "other":
        return rng.choice([None, "abc", [1.0], 1j, (1, 2), {}])
    order = rng.choice(orders or [0, 1, 1, 2, 2, 2, 3, 3, 4])
    dims = [rng.choice([0, 1, 2, 2, 3, 3, 4, 5]) for _ in range(order)]
    modes = [rng.choice([Mode.dense, Mode.compressed]) for _ in range(order)]
    ordering = list(rng.choice(list(itertools.permutations(range(order)))))
    if kind == "real":
        from tensora.format import Format

        fmt = Format(tuple(modes), tuple(ordering))
        cells = {}
        if all(d > 0 for d in dims):
            for _ in range(rng.randrange(0, 4)):
                cells[tuple(rng.randrange(d) for d in dims)] = float(rng.randrange(1, 9))
        return Tensor.from_dok(cells, dimensions=tuple(dims), format=fmt)
    if kind == "fake_wf":
        return fake_cls(order, dims, modes, ordering)
    # ill-formed views
    how = rng.choice(["order", "modes_len", "ordering_len", "not_perm", "negative", "big", "dims_len"])
    o2, d2, m2, r2 = order, list(dims), list(modes), list(ordering)
    if how == "order":
        o2 = order + rng.choice([-1, 1, 2])
    elif how == "modes_len":
        m2 = m2 + [Mode.dense] if rng.random() < 0.5 or not m2 else m2[:-1]
    elif how == "ordering_len":
        r2 = r2 + [len(r2)] if rng.random() < 0.5 or not r2 else r2[:-1]
    elif how == "not_perm" and r2:
        r2[rng.randrange(len(r2))] = rng.choice(r2)
    elif how == "negative" and r2:
        r2[rng.randrange(len(r2))] = -rng.choice([1, 2])
    elif how == "big" and r2:
        r2[rng.randrange(len(r2))] = len(r2) + rng.choice([0, 1, 5])
    elif how == "dims_len":
        d2 = d2 + [2] if rng.random() < 0.5 or not d2 else d2[:-1]
    return fake_cls(o2, d2, m2, r2)


def related_operand(rng, fake_cls, x):
    """An operand likely to pass the dimension checks against x (same dimensions, other format; or a
    matrix/vector with a matching inner dimension)."""
    import itertools

    from tensora import Tensor
    from tensora.format import Format, Mode

    if not isinstance(x, Tensor):
        return gen_operand(rng, fake_cls)
    dims = list(x.dimensions)
    how = rng.choice(["same"] * 6 + ["inner_v", "inner_m", "inner_v", "inner_m", "off"])
    if how == "inner_v" and dims:
        dims = [rng.choice([dims[-1], dims[0]])]
    elif how == "inner_m" and dims:
        dims = [rng.choice([dims[-1], dims[0]]), rng.choice([0, 1, 2, 3])]
        if rng.random() < 0.3:
            dims.reverse()
    elif how == "off" and dims:
        i = rng.randrange(len(dims))
        dims[i] = dims[i] + 1
    order = len(dims)
    modes = tuple(rng.choice([Mode.dense, Mode.compressed]) for _ in range(order))
    ordering = tuple(rng.choice(list(itertools.permutations(range(order)))))
    if rng.random() < 0.5:
        return Tensor.from_dok({}, dimensions=tuple(dims), format=Format(modes, ordering))
    ordering = list(ordering)
    ill = rng.random()
    if ill < 0.15:
        modes = modes + (Mode.dense,)  # ill-formed: one mode too many
    elif ill < 0.3 and ordering:
        ordering = ordering[:-1]  # ill-formed: an ordering entry is missing
    elif ill < 0.4 and ordering:
        ordering[rng.randrange(order)] = rng.choice([-1, order, order + 3])
    elif ill < 0.5:
        return fake_cls(order + rng.choice([-1, 1]), dims, modes, ordering)  # order lies
    return fake_cls(order, dims, modes, ordering)


FUNCS = [
    ("evaluate_binary_operator", 3), ("evaluate_binary_operator", 3), ("evaluate_binary_operator", 3),
    ("evaluate_matrix_multiplication_operator", 2), ("evaluate_matrix_multiplication_operator", 2),
    ("__add__", 2), ("__radd__", 2), ("__sub__", 2), ("__rsub__", 2), ("__mul__", 2), ("__rmul__", 2),
    ("__matmul__", 2), ("__rmatmul__", 2),
]


def t_operators(rng, n):
    import tensora.compile
    import tensora.tensor as T
    from tensora import Tensor

    fake_cls = make_fake_class()
    calls = []

    def recorder(assignment, output_format, **kwargs):
        calls.append((assignment, output_format, kwargs))
        return "RESULT"

    original = tensora.compile.evaluate_tensora
    tensora.compile.evaluate_tensora = recorder
    cases, descr = [], []
    try:
        for i in range(n):
            fname, arity = FUNCS[i % len(FUNCS)]
            orders = [1, 1, 2, 2, 2, 0, 3] if "matmul" in fname or "matrix" in fname else None
            a = gen_operand(rng, fake_cls, "real" if fname.startswith("__") and rng.random() < 0.5 else None, orders)
            if fname.startswith("__") and not isinstance(a, Tensor):
                a = gen_operand(rng, fake_cls, rng.choice(["real", "fake_wf", "fake_ill"]), orders)
            b = related_operand(rng, fake_cls, a) if rng.random() < 0.7 else gen_operand(rng, fake_cls, None, orders)
            if rng.random() < 0.15 and not fname.startswith("__"):
                a, b = b, a
            args = [a, b]
            if arity == 3:
                op = rng.choice(["+", "-", "*"] * 4 + ["/", "@", "", "**"])
                args.append(op)
            calls.clear()
            try:
                if fname.startswith("__"):
                    r = getattr(Tensor, fname)(a, b)
                else:
                    r = getattr(T, fname)(*args)
                if r is NotImplemented:
                    obs = "ObsNotImplemented"
                elif r == "RESULT" and len(calls) == 1:
                    assignment, fmt, kw = calls[0]
                    kws = []
                    for k, v in kw.items():
                        if v is a:
                            kws.append(f"({cstr(k)}, AObj {obj_term(a)})")
                        elif v is b:
                            kws.append(f"({cstr(k)}, AObj {obj_term(b)})")
                        else:
                            src = [x for x in (a, b) if not isinstance(x, Tensor)]
                            if (isinstance(v, Tensor) and v.order == 0 and len(src) == 1
                                    and float(v) == float(src[0])):
                                kws.append(f"({cstr(k)}, AFromLolFloat {obj_term(src[0])})")
                            else:
                                kws.append(f"({cstr(k)}, AObj PyOther)")  # will disagree
                    obs = f"ObsEvaluate {cstr(assignment)} {cstr(fmt)} {clist(kws)}"
                else:
                    obs = 'ObsExc "harness: unexpected result" ""'
            except Exception as e:  # noqa: BLE001
                obs = f"ObsExc {cstr(type(e).__name__)} {cstr(str(e))}"
            if fname.startswith("__"):
                view = obj_term(a)[len("(PyTensor "):-1]
                call = f"Tensor_{fname} {view} {obj_term(b)}"
            else:
                call = f"{fname} {obj_term(a)} {obj_term(b)}" + (f" {cstr(args[2])}" if arity == 3 else "")
            cases.append(f"agrees ({call}) ({obs})")
            descr.append(f"{fname}({', '.join(repr(x)[:80] for x in args)}) -> {obs[:160]}")
    finally:
        tensora.compile.evaluate_tensora = original
    text = HEAD + DEFS
    text += "Definition results : list bool :=\n " + clist(cases) + ".\n"
    text += "Eval vm_compute in (failing results).\n"
    return {"coq": text, "n": n, "descr": descr}


TARGETS = {"operators": t_operators}
