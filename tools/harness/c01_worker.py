"""C01 -- implementation-side worker (runs under /venv python with PYTHONPATH=<repo>/src:/verif/tools).

    c01_worker.py plan    IN.json OUT.json      problems -> explicit cases (formats, sizes, inputs)
    c01_worker.py eval    IN.json OUT.jsonl PROGRESS   run the real evaluate kernel on explicit cases
    c01_worker.py desugar IN.json OUT.json      tensora's parse + desugar_assignment as JSON trees
    c01_worker.py exhaust IN.json OUT.json      exhaust_tensor / extract_context on generated trees

Nothing here judges anything: it only generates, runs the library and reports RAW results.
"""
from __future__ import annotations

import faulthandler
import itertools
import json
import os
import random
import sys
import traceback

from harness import sweep

PATTERN_CYCLE = ["mixed", "full", "empty", "zeros", "mixed", "random"]


# ------------------------------------------------------------------------------------------------
# plan
# ------------------------------------------------------------------------------------------------
def three_cycle_formats(assignment: str, rng: random.Random) -> list[dict]:
    """Format assignments that put every order-3 tensor, in turn, in both 3-cycle orderings."""
    orders = sweep.orders_of(assignment)
    out = []
    for name, o in orders.items():
        if o != 3:
            continue
        for perm in ((1, 2, 0), (2, 0, 1)):
            fm = {}
            for n2, o2 in orders.items():
                fm[n2] = rng.choice(sweep.all_formats(o2))
            modes = [rng.choice("ds") for _ in range(3)]
            fm[name] = "".join(m + str(p) for m, p in zip(modes, perm))
            out.append(fm)
    return out


def gen_inputs(assignment: str, sizes: dict, rng: random.Random, pattern: str) -> dict | None:
    a = sweep.parsed(assignment)
    out = {}
    for name, occs in a.expression.variables().items():
        dims = [sizes[i] for i in occs[0].indexes]
        if not all([sizes[i] for i in o.indexes] == dims for o in occs):
            return None
        p = rng.choice(sweep.PATTERNS) if pattern == "mixed" else pattern
        out[name] = {"dims": dims, "entries": sweep.random_entries(rng, dims, p)}
    return out


def plan(job: dict) -> list[dict]:
    rng = random.Random(job["seed"])
    cases = []
    counter = itertools.count()
    for prob in job["problems"]:
        text = prob["assignment"]
        try:
            fcs = sweep.format_choices(text, rng, 64 if prob.get("prefer_sparse") else prob["cap"])
            if prob.get("prefer_sparse"):  # most compressed first (the co-iteration lattice is largest there)
                fcs = sorted(fcs, key=lambda fm: -sum(f.count("s") for f in fm.values()))[: prob["cap"]]
            if prob.get("cycles", True):
                for fm in three_cycle_formats(text, rng):
                    if fm not in fcs:
                        fcs.append(fm)
            if prob.get("formats"):
                fcs = prob["formats"] + fcs
        except Exception as e:  # the assignment itself is refused (parse / validation)
            cases.append({"id": len(cases), "assignment": text, "plan_error": type(e).__name__,
                          "tag": prob.get("tag")})
            continue
        for fm in fcs:
            szs = sweep.index_sizes_choices(text, rng, prob["nsizes"], sizes=tuple(prob.get("sizes_set", (0, 1, 2, 3))))
            if prob.get("sizes_set"):
                szs = szs[1:] + szs[:1]   # the all-2 default goes last
            for sizes in szs:
                for _ in range(prob["ninputs"]):
                    pattern = PATTERN_CYCLE[next(counter) % len(PATTERN_CYCLE)]
                    inputs = gen_inputs(text, sizes, rng, pattern)
                    if inputs is None:  # a repeated tensor forces equal sizes
                        m = rng.choice([0, 1, 2, 3])
                        sizes = {k: m for k in sizes}
                        inputs = gen_inputs(text, sizes, rng, pattern)
                    cases.append({
                        "id": len(cases), "assignment": text, "formats": fm, "sizes": sizes,
                        "inputs": {n: {"dims": v["dims"],
                                       "entries": [[list(c), x] for c, x in v["entries"].items()]}
                                   for n, v in inputs.items()},
                        "tag": prob.get("tag"),
                    })
    return cases


# ------------------------------------------------------------------------------------------------
# eval
# ------------------------------------------------------------------------------------------------
def run_cases(cases: list[dict], out_path: str, progress_path: str, per_case_timeout: int):
    with open(out_path, "a") as out, open(progress_path, "a") as prog:
        for c in cases:
            prog.write(f"S {c['id']}\n")
            prog.flush()
            faulthandler.dump_traceback_later(per_case_timeout, exit=True)
            inputs = {n: {"dims": v["dims"], "entries": {tuple(k): float(x) for k, x in v["entries"]}}
                      for n, v in c["inputs"].items()}
            res = {"id": c["id"]}
            try:
                if c.get("raw_in"):
                    res["raw_in"] = {n: sweep.raw(sweep.build(c["formats"][n], v["dims"], v["entries"]))
                                     for n, v in inputs.items()}
                status, val = sweep.run_evaluate(c["assignment"], c["formats"], inputs,
                                                 backend=c.get("backend", "llvm"))
                res["status"], res["out"] = status, val
            except BaseException as e:  # noqa: BLE001  (a harness-level failure is reported, not hidden)
                res["status"], res["out"] = "harness", f"{type(e).__name__}: {e}\n{traceback.format_exc()[-800:]}"
            faulthandler.cancel_dump_traceback_later()
            out.write(json.dumps(res) + "\n")
            out.flush()
            prog.write(f"D {c['id']}\n")
            prog.flush()


# ------------------------------------------------------------------------------------------------
# desugar
# ------------------------------------------------------------------------------------------------
def sugar_json(e):
    from tensora.expression import ast as s

    if isinstance(e, s.Integer):
        return ["int", e.value]
    if isinstance(e, s.Float):
        return ["float", repr(e.value)]
    if isinstance(e, s.Tensor):
        return ["t", e.name, list(e.indexes)]
    op = {s.Add: "+", s.Subtract: "-", s.Multiply: "*"}[type(e)]
    return [op, sugar_json(e.left), sugar_json(e.right)]


def desugar_json(e):
    from tensora.desugar import ast as d

    if isinstance(e, d.Integer):
        return ["int", e.value]
    if isinstance(e, d.Float):
        return ["float", repr(e.value)]
    if isinstance(e, d.Tensor):
        return ["t", e.id, e.name, list(e.indexes)]
    if isinstance(e, d.Contract):
        return ["c", e.index, desugar_json(e.expression)]
    op = {d.Add: "+", d.Multiply: "*"}[type(e)]
    return [op, desugar_json(e.left), desugar_json(e.right)]


def desugar(job: dict) -> list[dict]:
    from tensora.desugar import desugar_assignment
    from tensora.expression import parse_assignment

    out = []
    for text in job["assignments"]:
        try:
            a = parse_assignment(text).unwrap()
            d = desugar_assignment(a)
            out.append({
                "assignment": text,
                "sugar": [a.target.name, list(a.target.indexes), sugar_json(a.expression)],
                "target": desugar_json(d.target),
                "desugared": desugar_json(d.expression),
            })
        except Exception as e:  # noqa: BLE001
            out.append({"assignment": text, "error": type(e).__name__})
    return out


# ------------------------------------------------------------------------------------------------
# exhaust / extract_context
# ------------------------------------------------------------------------------------------------
def exhaust(job: dict) -> list[dict]:
    from tensora.format import Mode
    from tensora.iteration_graph.identifiable_expression import ast as ie
    from tensora.iteration_graph.identifiable_expression import exhaust_tensor, extract_context

    rng = random.Random(job["seed"])
    ids = ["1_b", "2_c", "3_d", "4_b"]
    names = {"1_b": "b", "2_c": "c", "3_d": "d", "4_b": "b"}
    indexes = ["i", "j", "k"]

    def mk_leaf():
        r = rng.random()
        if r < 0.12:
            return ie.Integer(rng.choice([0, 0, 1, 2, -1]))
        if r < 0.24:
            return ie.Float(rng.choice([0.0, -0.0, 1.0, 2.5, 2.0]))
        tid = rng.choice(ids)
        order = rng.randint(0, 3)
        idx = tuple(rng.sample(indexes, order)) if rng.random() < 0.85 else tuple(
            rng.choice(indexes) for _ in range(order))
        modes = tuple(rng.choice([Mode.dense, Mode.compressed]) for _ in range(order))
        return ie.Tensor(tid, names[tid], idx, modes)

    def mk(depth):
        if depth == 0 or rng.random() < 0.25:
            return mk_leaf()
        cls = rng.choice([ie.Add, ie.Multiply])
        left = mk(depth - 1)
        # sometimes the SAME Python object on both sides (exercises the `is` short-circuits)
        right = left if rng.random() < 0.1 else mk(depth - 1)
        return cls(left, right)

    def dump(e):
        if isinstance(e, ie.Integer):
            return ["int", e.value]
        if isinstance(e, ie.Float):
            return ["float", repr(e.value)]
        if isinstance(e, ie.Tensor):
            return ["t", e.id, e.name, list(e.indexes), ["d" if m == Mode.dense else "s" for m in e.modes]]
        return ["+" if isinstance(e, ie.Add) else "*", dump(e.left), dump(e.right)]

    out = []
    for _ in range(job["n"]):
        e = mk(rng.randint(0, 4))
        rec = {"tree": dump(e), "exhaust": {}, "context": {}}
        for ref in ids + ["9_z"]:
            r = exhaust_tensor(e, ref)
            rec["exhaust"][ref] = {"tree": dump(r), "same": r is e}
        for k in indexes + ["z"]:
            try:
                c = extract_context(e, k)
                rec["context"][k] = {
                    "is_sparse": bool(c.is_sparse),
                    "sparse": [[l.tensor.id, l.layer] for l in c.sparse_leaves],
                    "dense": [[l.tensor.id, l.layer] for l in c.dense_leaves],
                }
            except IndexError:
                rec["context"][k] = None
        out.append(rec)
    return out


# ------------------------------------------------------------------------------------------------
# graphs: the REAL first iteration graph of a problem (what generate_module_tensora uses)
# ------------------------------------------------------------------------------------------------
def graphs(job: dict) -> list[dict]:
    from tensora.desugar import best_algorithm, desugar_assignment
    from tensora.expression import parse_assignment
    from tensora.format import Mode, parse_format
    from tensora.iteration_graph.identifiable_expression import ast as ie
    from tensora.iteration_graph.iteration_graph import IterationNode, SumNode, TerminalNode
    from returns.result import Failure, Success

    def dump_e(e):
        if isinstance(e, ie.Integer):
            return ["int", e.value]
        if isinstance(e, ie.Float):
            return ["float", repr(e.value)]
        if isinstance(e, ie.Tensor):
            return ["t", e.id, e.name, list(e.indexes), ["d" if m == Mode.dense else "s" for m in e.modes]]
        return ["+" if isinstance(e, ie.Add) else "*", dump_e(e.left), dump_e(e.right)]

    def dump_g(g):
        if isinstance(g, TerminalNode):
            return ["T", dump_e(g.expression)]
        if isinstance(g, IterationNode):
            return ["I", g.index_variable, None if g.output is None else g.output.layer, dump_g(g.next)]
        if isinstance(g, SumNode):
            return ["S", [dump_g(t) for t in g.terms]]
        raise TypeError(type(g))

    out = []
    for prob in job["problems"]:
        rec = {"assignment": prob["assignment"], "formats": prob["formats"]}
        try:
            a = parse_assignment(prob["assignment"]).unwrap()
            fmts = {n: parse_format(f).unwrap() for n, f in prob["formats"].items()}
            d = desugar_assignment(a)
            match best_algorithm(d, fmts):
                case Success(g):
                    rec["graph"] = dump_g(g)
                    rec["desugared"] = desugar_json(d.expression)
                    rec["orderings"] = {n: list(f.ordering) for n, f in fmts.items()}
                case Failure(e):
                    rec["refused"] = type(e).__name__
        except Exception as e:  # noqa: BLE001
            rec["error"] = type(e).__name__
        out.append(rec)
    return out


def main():
    cmd, inp, outp = sys.argv[1], sys.argv[2], sys.argv[3]
    job = json.load(open(inp))
    if cmd == "plan":
        json.dump(plan(job), open(outp, "w"))
    elif cmd == "eval":
        run_cases(job["cases"], outp, sys.argv[4], job.get("per_case_timeout", 60))
    elif cmd == "desugar":
        json.dump(desugar(job), open(outp, "w"))
    elif cmd == "exhaust":
        json.dump(exhaust(job), open(outp, "w"))
    elif cmd == "graphs":
        json.dump(graphs(job), open(outp, "w"))
    else:
        raise SystemExit(f"unknown command {cmd}")


if __name__ == "__main__":
    main()
