"""Shared sweep over problems (assignment x formats) and inputs, used by C01-C06 and C16.

Runs inside /venv python with PYTHONPATH=/repo/src (imports tensora).  Everything random derives
from the `random.Random` passed in.  Nothing here is an oracle: it only generates problems/inputs,
runs the real library and exposes RAW arrays (never Tensor.items/to_dok, which is itself subject to
property C09).

Formats are strings in tensora syntax ("ds", "d1s0", ...).  A stored tensor is exchanged as a dict
    {"dims": [...], "ordering": [...], "modes": "ds", "indices": [[], [pos, crd]], "vals": [...]}
"""

from __future__ import annotations

import itertools
import math
import random

# --------------------------------------------------------------------------------------------
# templates: (assignment text).  Names are single letters so that renaming experiments are easy.
# --------------------------------------------------------------------------------------------
TEMPLATES = [
    # copies / permutations
    "a() = b()",
    "a(i) = b(i)",
    "a(i,j) = b(i,j)",
    "a(i,j) = b(j,i)",
    "a(i,j,k) = b(i,j,k)",
    "a(i,j,k) = b(k,i,j)",
    "a(i,j,k) = b(j,k,i)",
    # element-wise
    "a(i) = b(i) + c(i)",
    "a(i) = b(i) * c(i)",
    "a(i) = b(i) - c(i)",
    "a(i,j) = b(i,j) + c(i,j)",
    "a(i,j) = b(i,j) * c(i,j)",
    "a(i,j) = b(i,j) - c(j,i)",
    "a(i,j) = b(i,j) + c(i,j) + d(i,j)",
    "a(i,j) = b(i,j) * c(i,j) + d(i,j)",
    "a(i,j) = (b(i,j) + c(i,j)) * d(i,j)",
    "a(i,j) = b(i,j) - (c(i,j) - d(i,j))",
    "a(i) = b(i) * b(i)",
    "a(i,j) = b(i,j) * b(j,i)",
    "a(i,k) = b(i,j) * b(k,j)",
    "a(i,k) = b(i,j) * b(k,l)",
    "a(i) = b(i,j) * b(i,k)",
    "a(i,j) = b(i,j) + b(j,i)",
    # literals
    "a(i) = 2 * b(i)",
    "a(i) = b(i) * 2.5",
    "a(i) = b(i) + 1",
    "a(i) = 0 * b(i) + c(i)",
    "a(i,j) = b(i,j) * 1 + 0",
    "a() = 3",
    "a(i) = b(i) - 2 * c(i)",
    # broadcast along a target index
    "a(i,j) = b(i) * c(j)",
    "a(i,j) = b(i,j) + c(i)",
    "a(i,j) = b(i,j) * c(j)",
    # contractions
    "a() = b(i)",
    "a() = b(i) * c(i)",
    "a(i) = b(i,j)",
    "a(j) = b(i,j)",
    "a(i) = b(i,j) * c(j)",
    "a(j) = b(i,j) * c(i)",
    "a(i,j) = b(i,k) * c(k,j)",
    "a(i,j) = b(i,k) * c(j,k)",
    "a(i) = b(i,j) * c(j) + d(i)",
    "a(i) = b(i,j) * c(j) + d(i,k) * e(k)",
    "a() = b(i,j) * c(i,j)",
    "a(i) = b(i,j,k) * c(j) * d(k)",
    "a(i,j) = b(i,j,k) * c(k)",
    "a(i,l) = b(i,j) * c(j,k) * d(k,l)",
    "a(i) = b(j) * c(i)",
    "a() = b() + c(k) + d(k)",
    "a() = c(k) + d(k) + b()",
    "a(i) = b(i) + c(i,j) * d(j)",
    "a(i,j) = b(i,k) * c(k,j) + d(i,j)",
    # parenthesised sums on the right of a sum / product
    "a() = b() + (c(k) + d(l))",
    "a(i,j) = b(i,j) + (c(i) * d(k) + e(j) * d(k))",
    "a(i) = b(i) - (c(i) - d(i) * e(i))",
    "a(i) = b(i) + c(i) + d(i)",
    "a(i,j) = b(i,j) + c(i,j) + d(i,j) + e(i,j)",
]


def orders_of(assignment: str) -> dict[str, int]:
    """Tensor name -> order, in order of first appearance (target first)."""
    from tensora.expression import parse_assignment

    a = parse_assignment(assignment).unwrap()
    return dict(a.variable_orders())


def parsed(assignment: str):
    from tensora.expression import parse_assignment

    return parse_assignment(assignment).unwrap()


def all_formats(order: int) -> list[str]:
    out = []
    for modes in itertools.product("ds", repeat=order):
        for perm in itertools.permutations(range(order)):
            if list(perm) == list(range(order)):
                out.append("".join(modes))
            else:
                out.append("".join(m + str(p) for m, p in zip(modes, perm)))
    return out


def format_choices(assignment: str, rng: random.Random, cap: int) -> list[dict[str, str]]:
    """Format assignments for every tensor of the assignment: exhaustive when the product is
    <= cap, otherwise a seeded sample that always contains all-dense, all-compressed (natural
    order) and, for each tensor in turn, every single-cycle ordering with mixed modes."""
    orders = orders_of(assignment)
    names = list(orders)
    per = [all_formats(orders[n]) for n in names]
    total = math.prod(len(p) for p in per)
    if total <= cap:
        return [dict(zip(names, combo)) for combo in itertools.product(*per)]
    chosen: list[tuple[str, ...]] = []
    chosen.append(tuple("d" * orders[n] for n in names))
    chosen.append(tuple("s" * orders[n] for n in names))
    for i, n in enumerate(names):  # rotate one tensor through all of its formats
        for f in per[i]:
            combo = [rng.choice(p) for p in per]
            combo[i] = f
            chosen.append(tuple(combo))
    while len(chosen) < cap:
        chosen.append(tuple(rng.choice(p) for p in per))
    rng.shuffle(chosen)
    seen = []
    for c in chosen:
        if c not in seen:
            seen.append(c)
    return [dict(zip(names, c)) for c in seen[:cap]]


# --------------------------------------------------------------------------------------------
# inputs
# --------------------------------------------------------------------------------------------


def index_sizes_choices(assignment: str, rng: random.Random, n: int, sizes=(0, 1, 2, 3)) -> list[dict[str, int]]:
    a = parsed(assignment)
    idx = sorted(a.index_participants().keys() | set(a.target.indexes))
    out = [{i: 2 for i in idx}]
    while len(out) < n:
        c = {i: rng.choice(sizes) for i in idx}
        if c not in out:
            out.append(c)
        elif len(out) >= len(sizes) ** len(idx):
            break
    return out


def tensor_occurrences(assignment: str) -> dict[str, list[str]]:
    """name -> index list of its FIRST occurrence on the right-hand side (inputs only)."""
    a = parsed(assignment)
    out = {}
    for name, occs in a.expression.variables().items():
        out[name] = list(occs[0].indexes)
    return out


def input_dims(assignment: str, sizes: dict[str, int]) -> dict[str, list[int]]:
    return {n: [sizes[i] for i in idxs] for n, idxs in tensor_occurrences(assignment).items()}


def consistent(assignment: str) -> bool:
    """A tensor used twice with different index lists forces equal sizes; we only generate index
    sizes, so every occurrence is consistent iff the occurrence dims agree."""
    return True


def random_entries(rng: random.Random, dims: list[int], pattern: str) -> dict[tuple, float]:
    cells = list(itertools.product(*[range(d) for d in dims]))
    if pattern == "empty" or not cells:
        return {}
    vals = [1.0, 2.0, 3.0, -1.0, 5.0, 7.0, -4.0]
    if pattern == "full":
        return {c: rng.choice(vals) for c in cells}
    if pattern == "zeros":  # explicit stored zeros mixed in
        return {c: rng.choice([0.0, 1.0, 2.0]) for c in cells if rng.random() < 0.6}
    k = rng.randint(0, len(cells))
    return {c: rng.choice(vals) for c in rng.sample(cells, k)}


PATTERNS = ["random", "random", "full", "empty", "zeros"]


def make_inputs(assignment: str, sizes: dict[str, int], rng: random.Random) -> dict[str, dict]:
    """name -> {"dims": [...], "entries": {coord: value}} for every input tensor.  A tensor used
    with two index lists (e.g. B(i,j)*B(j,i)) only gets entries if its occurrences agree on dims."""
    a = parsed(assignment)
    out = {}
    items = list(a.expression.variables().items())
    # one run in four: "staggered" supports -- input number t (in order of appearance) stores exactly
    # the cells whose linear index is congruent to (n-1-t) mod n, so the LAST operand holds the
    # smallest coordinates and no two operands share a cell (merge order, tail loops, empty matches)
    stagger = len(items) >= 2 and rng.random() < 0.25
    for t, (name, occs) in enumerate(items):
        dims = [sizes[i] for i in occs[0].indexes]
        ok = all([sizes[i] for i in o.indexes] == dims for o in occs)
        if not ok:
            return {}
        if stagger and dims:
            n = len(items)
            cells = list(itertools.product(*[range(d) for d in dims]))
            ent = {c: float(1 + (k % 5)) for k, c in enumerate(cells) if k % n == (n - 1 - t) % n}
            out[name] = {"dims": dims, "entries": ent}
        else:
            out[name] = {"dims": dims, "entries": random_entries(rng, dims, rng.choice(PATTERNS))}
    return out


def build(fmt: str, dims, entries: dict):
    from tensora import Tensor

    coords = list(entries.keys())
    vals = [entries[c] for c in coords]
    return Tensor.from_aos(coords, vals, dimensions=tuple(dims), format=fmt)


def raw(t) -> dict:
    """RAW structure of a tensora Tensor (no items()/to_dok())."""
    return {
        "dims": list(t.dimensions),
        "ordering": list(t.mode_ordering),
        "modes": "".join(m.character for m in t.modes),
        "indices": [[list(x) for x in lvl] for lvl in t.taco_indices],
        "vals": list(t.taco_vals),
    }


def decode(r: dict) -> dict[tuple, list[float]]:
    """Independent decoder of a raw structure: dimension-order coordinate -> list of stored values
    (a list, so duplicates are visible).  Inverse-permutation reading, like Storage.entries."""
    order = len(r["dims"])
    ordering = r["ordering"]
    ldims = [r["dims"][d] for d in ordering]
    out: dict[tuple, list[float]] = {}

    def rec(level, pos, prefix):
        if level == order:
            coord = [None] * order
            for l, d in enumerate(ordering):
                coord[d] = prefix[l]
            out.setdefault(tuple(coord), []).append(r["vals"][pos])
            return
        if r["modes"][level] == "d":
            for i in range(ldims[level]):
                rec(level + 1, pos * ldims[level] + i, prefix + [i])
        else:
            p, c = r["indices"][level]
            for q in range(p[pos], p[pos + 1]):
                rec(level + 1, q, prefix + [c[q]])

    rec(0, 0, [])
    return out


def run_evaluate(assignment: str, formats: dict[str, str], inputs: dict[str, dict], backend="llvm"):
    """Run the real library.  Returns ("ok", raw_output) or ("error", "Class@file:function: msg")."""
    import traceback

    from tensora import tensor_method
    from tensora.compile import BackendCompiler

    a = parsed(assignment)
    try:
        fn = tensor_method(assignment, formats, BackendCompiler.llvm if backend == "llvm" else BackendCompiler.cffi)
        args = {n: build(formats[n], v["dims"], v["entries"]) for n, v in inputs.items()}
        res = fn(**args)
        return "ok", raw(res)
    except Exception as e:  # canonical error: class @ innermost tensora frame
        tb = traceback.extract_tb(e.__traceback__)
        site = "?"
        for fr in reversed(tb):
            if "/tensora/" in fr.filename:
                site = fr.filename.split("/tensora/")[-1] + ":" + fr.name
                break
        return "error", f"{type(e).__name__}@{site}"


# --------------------------------------------------------------------------------------------
# Coq terms
# --------------------------------------------------------------------------------------------


def zlist(xs) -> str:
    return "[" + "; ".join(f"({int(x)})" if int(x) < 0 else str(int(x)) for x in xs) + "]%Z"


def natlist(xs) -> str:
    return "[" + "; ".join(f"{int(x)}%nat" for x in xs) + "]"


def coq_tensor_Z(r: dict) -> str:
    """A raw structure with integer-valued floats as a TV.spec.Storage.tensor Z term."""
    lv = []
    for m, ix in zip(r["modes"], r["indices"]):
        if m == "d":
            lv.append("LDense")
        else:
            lv.append(f"(LCompressed {zlist(ix[0])} {zlist(ix[1])})")
    for v in r["vals"]:
        if float(v) != int(v):
            raise ValueError("non-integer value in an integer sweep")
    return (
        f"(mkTensor {zlist(r['dims'])} {natlist(r['ordering'])} [{'; '.join(lv)}] {zlist(r['vals'])})"
    )
