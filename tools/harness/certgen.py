"""Implementation side of the per-kernel certificates (coq/proofs/Certs2*.v, props/CERT.v).

Reads a JSON config on stdin, generates the REAL IR of the evaluate / assemble / compute kernels
of swept problems (assignment x formats) with the library under test and writes shard files
<outdir>/<prefix>_<k>.v.  Each shard defines the kernels as Coq terms (`fN_kind := <IR term>`) and
a list of boolean certificate evaluations; its single `Eval vm_compute` prints the indexes of the
cases that are `false`.  <outdir>/<prefix>_index.json describes every case.

Certificates (all decided by vm_compute on the real IR; their soundness theorems are in
coq/props/CERT.v):
  input_safe     input_safe_cert f            all three kernels            (C05)
  compute_store  compute_store_cert f         compute kernels              (C04)
  dim_unread     dim_unread_cert f DS         evaluate (and the two others) for every index k that
                                              meets C16's condition; DS = every (tensor parameter,
                                              dimension position) that carries k            (C16)

config: seed, outdir, prefix, templates (default sweep.TEMPLATES), priority [[tpl, formats]...],
max_problems, fmt_cap, per_shard, certs (subset of the three names), c16_per_template.
"""

from __future__ import annotations

import json
import os
import random
import sys

from harness import irdump as D
from harness import sweep as S
from harness.c16_gen import TEMPLATES as C16_TEMPLATES
from harness.c16_gen import condition
from harness.mgen import refusal

HEADER = """From Coq Require Import ZArith Bool List String.
From Flocq Require Import Core BinarySingleNaN.
From TV Require Import spec.Num gen.IRAst spec.IRSem proofs.Certs {imports}.
Import ListNotations.
Open Scope Z_scope.
"""

KINDS = ("evaluate", "assemble", "compute")


def failing_expr() -> str:
    return ("Eval vm_compute in ((fix go (i : nat) (l : list bool) : list nat := match l with [] => [] "
            "| b :: r => if b then go (S i) r else i :: go (S i) r end) O cases).\n")


def dim_positions(prob, k: str) -> list[tuple[int, int]] | None:
    """(tensor parameter index, dimension position) pairs that carry index variable k, over ALL
    occurrences of every tensor; the parameters of a kernel are the tensors of the problem in order
    (output first).  None when one of those physical dimensions also carries a DIFFERENT index
    variable (a tensor used twice with different index lists, e.g. b(i,j) * b(k,l)): enlarging
    "the dimension of k" is then not a well-defined experiment and the pair is not certified."""
    a = prob.assignment
    from tensora.expression import ast as X

    occs: dict[str, list[tuple[str, ...]]] = {a.target.name: [a.target.indexes]}

    def walk(e):
        if isinstance(e, X.Tensor):
            occs.setdefault(e.name, []).append(e.indexes)
        for f in ("left", "right"):
            if hasattr(e, f):
                walk(getattr(e, f))

    walk(a.expression)
    res = []
    for pi, name in enumerate(prob.formats.keys()):
        carried: dict[int, set[str]] = {}
        for idxs in occs[name]:
            for pos, ix in enumerate(idxs):
                carried.setdefault(pos, set()).add(ix)
        for pos, names in carried.items():
            if k in names:
                if len(names) > 1:
                    return None
                res.append((pi, pos))
    return res


def main():
    cfg = json.load(sys.stdin)
    rng = random.Random(cfg["seed"])
    outdir, prefix = cfg["outdir"], cfg["prefix"]
    certs = cfg.get("certs", ["input_safe", "compute_store", "dim_unread"])
    per_shard = cfg.get("per_shard", 12)
    fmt_cap = cfg.get("fmt_cap", 3)
    max_problems = cfg.get("max_problems", 100)
    imports = cfg.get("imports", "proofs.Certs2Input proofs.Certs2Sim proofs.Certs2Store")
    problems = []
    for tpl in cfg.get("templates") or S.TEMPLATES:
        for fm in S.format_choices(tpl, rng, fmt_cap):
            problems.append((tpl, fm))
    rng.shuffle(problems)
    c16 = []
    if "dim_unread" in certs:
        # problems with an index meeting C16's condition (as tools/harness/c16_gen.py picks them)
        for tpl in C16_TEMPLATES:
            a0 = S.parsed(tpl)
            idx0 = sorted(set(a0.target.indexes) | set(a0.expression.index_participants().keys()))
            allf = S.format_choices(tpl, rng, 4096)
            qual = [fm for fm in allf if any(condition(a0, fm, k) for k in idx0)]
            rng.shuffle(qual)
            c16 += [(tpl, fm) for fm in qual[: cfg.get("c16_per_template", 2)]]
    prio = [tuple(x) for x in cfg.get("priority", [])]
    n_c16 = min(len(c16), max_problems // 3)
    problems = prio + c16[:n_c16] + problems
    seen, uniq = set(), []
    for tpl, fm in problems:
        key = (tpl, json.dumps(fm, sort_keys=True))
        if key not in seen:
            seen.add(key)
            uniq.append((tpl, fm))
    problems = uniq

    index = {"shards": [], "skipped": {}, "problems": 0, "kernels": 0}
    defs, cases, metas = [], [], []
    shard_no = 0
    nprob = 0

    def flush():
        nonlocal defs, cases, metas, shard_no, nprob
        if not cases:
            return
        name = f"{prefix}_{shard_no}"
        text = HEADER.format(imports=imports) + "\n".join(defs) + "\n"
        text += "Definition cases : list bool := [\n  " + ";\n  ".join(cases) + "\n].\n" + failing_expr()
        with open(os.path.join(outdir, name + ".v"), "w") as f:
            f.write(text)
        index["shards"].append({"name": name, "cases": metas})
        defs, cases, metas = [], [], []
        shard_no += 1
        nprob = 0

    for pno, (tpl, fm) in enumerate(problems):
        if index["problems"] >= max_problems:
            break
        try:
            prob, fns = D.generate_functions(tpl, fm, KINDS, optimise=cfg.get("optimise", True))
        except Exception as e:  # typed refusals of the generator are not this check's business
            n = refusal(e)
            if n is None:
                n = "GENERATOR-EXCEPTION " + type(e).__name__
                index.setdefault("generator_errors", []).append(
                    {"assignment": tpl, "formats": fm, "error": type(e).__name__ + ": " + str(e)[:200]})
            index["skipped"][n] = index["skipped"].get(n, 0) + 1
            continue
        index["problems"] += 1
        names = {}
        for k, fn in zip(KINDS, fns):
            names[k] = f"f{pno}_{k}"
            defs.append(f"Definition f{pno}_{k} := {D.coq_function(fn)}.")
            index["kernels"] += 1
        base = {"assignment": tpl, "formats": fm}
        if "input_safe" in certs:
            for k in KINDS:
                cases.append(f"input_safe_cert {names[k]}")
                metas.append(dict(base, cert="input_safe", kernel=k))
        if "compute_store" in certs:
            cases.append(f"compute_store_cert {names['compute']}")
            metas.append(dict(base, cert="compute_store", kernel="compute"))
        if "dim_unread" in certs:
            a = prob.assignment
            idx = sorted(set(a.target.indexes) | set(a.expression.index_participants().keys()))
            for k in idx:
                if not condition(a, fm, k):
                    continue
                ds = dim_positions(prob, k)
                if ds is None:
                    continue
                term = "[" + "; ".join(f"({pi}%nat, {pos})" for pi, pos in ds) + "]"
                for kind in KINDS:
                    cases.append(f"dim_unread_cert {names[kind]} {term}")
                    metas.append(dict(base, cert="dim_unread", kernel=kind, index=k, positions=ds))
        nprob += 1
        if nprob >= per_shard:
            flush()
    flush()
    with open(os.path.join(outdir, prefix + "_index.json"), "w") as f:
        json.dump(index, f)
    print(json.dumps({"shards": len(index["shards"]), "cases": sum(len(s["cases"]) for s in index["shards"]),
                      "problems": index["problems"], "kernels": index["kernels"], "skipped": index["skipped"],
                      "generator_errors": len(index.get("generator_errors", []))}))


if __name__ == "__main__":
    main()
